#!/usr/bin/env python3
"""tools/seed_eval.py <mutant dir> <name> <prop> [more props...]

Confirms a seeded breaking change independently (applies, compiles, existing 315 tests pass, the
demonstration fails with it and passes without it) in a scratch worktree, then applies it to /repo,
runs the quick tier of the given checks, undoes it, and files the result under /verif/seeded/<name>/.
Development tooling; not registered in MANIFEST."""
import json
import os
import re
import shutil
import subprocess
import sys
import time

ROOT = os.path.dirname(os.path.dirname(os.path.abspath(__file__)))
WT = '/tmp/seedwt_%d' % os.getpid()


def sh(cmd, cwd=None, timeout=3600):
    r = subprocess.run(cmd, shell=True, cwd=cwd, capture_output=True, text=True, timeout=timeout)
    return r.returncode, (r.stdout + r.stderr)


def run_checks(props, tier, name, env):
    results = {}
    for p in props:
        t0 = time.time()
        rc, out = sh('VERIF_EVIDENCE_DIR=/tmp/seed_evidence %s./check %s %s' % (env, p, tier), cwd=ROOT, timeout=7200)
        viol = [l for l in out.splitlines() if l.startswith('VIOLATION')]
        msgs = [l.strip() for l in out.splitlines() if l.startswith('  ')][:3]
        results[p] = dict(exit=rc, violations=len(viol), wall_s=round(time.time() - t0, 1), first_messages=[x[:400] for x in msgs], tier=tier)
        print('CHECK %s %s on %s: exit=%d violations=%d (%.0fs) %s' % (p, tier, name, rc, len(viol), time.time() - t0, (msgs[0][:300] if msgs else '')))
        # replays written while the tree was mutated are not part of the regression tier
        for l in viol:
            m = re.search(r'replay=(\S+)', l)
            if m and os.path.exists(m.group(1)) and not os.path.basename(m.group(1)).startswith('F'):
                os.remove(m.group(1))
    return results


def main():
    mdir, name, props = sys.argv[1], sys.argv[2], sys.argv[3:]
    tier = os.environ.get('SEED_TIER', 'quick')
    patch = os.path.join(mdir, 'patch.diff')
    demo = os.path.join(mdir, 'demo.cc')
    meta = json.load(open(os.path.join(mdir, 'meta.json'))) if os.path.exists(os.path.join(mdir, 'meta.json')) else {}
    ran = []
    results = {}
    inplace_done = False
    confirmed = False
    sh('git -C /repo worktree remove --force %s' % WT)
    rc, out = sh('git -C /repo worktree add --detach %s HEAD' % WT)
    assert rc == 0, out
    try:
        # demo compile command from its header comment
        src = open(demo).read()
        m = re.search(r'((?:g\+\+|clang\+\+)[^\n]*)', src)
        cc = m.group(1).split('&&')[0].split(';')[0].strip().rstrip('*/').strip() if m else 'g++ -std=c++14 -Iinclude demo.cc -o demo'
        cc = re.sub(r'\S*demo\.cc', demo, cc)
        cc = re.sub(r'-o\s+\S+', '-o %s/demo_bin' % WT, cc)
        if '-o ' not in cc:
            cc += ' -o %s/demo_bin' % WT
        cc = cc.replace('-Iinclude', '-I%s/include' % WT)
        if '-I' not in cc:
            cc += ' -I%s/include' % WT
        # 1. unchanged tree: demo passes
        rc, out = sh(cc, cwd=WT)
        assert rc == 0, 'demo does not compile on the unchanged tree: ' + out[-2000:]
        rc0, out0 = sh('%s/demo_bin' % WT, cwd=WT, timeout=600)
        ran.append('unchanged: `%s` && ./demo -> exit %d' % (cc, rc0))
        # 2. with the change: tests pass, demo fails
        rc, out = sh('git apply %s' % patch, cwd=WT)
        assert rc == 0, 'patch does not apply: ' + out
        rc, out = sh('make -j16 out/test >/dev/null 2>&1; out/test 2>&1 | tail -3', cwd=WT)
        tests_ok = '[  PASSED  ] 315 tests.' in out
        ran.append('changed: make -j16 out/test && out/test -> %s' % ('315 passed' if tests_ok else out[-300:]))
        rc, out = sh(cc, cwd=WT)
        assert rc == 0, 'demo does not compile on the changed tree: ' + out[-2000:]
        rc1, out1 = sh('%s/demo_bin' % WT, cwd=WT, timeout=600)
        ran.append('changed: ./demo -> exit %d' % rc1)
        confirmed = tests_ok and rc0 == 0 and rc1 != 0
        print('CONFIRM %s: tests_pass=%s demo_unchanged_exit=%d demo_changed_exit=%d => %s' % (name, tests_ok, rc0, rc1, 'confirmed' if confirmed else 'NOT CONFIRMED'))
        # SEED_INPLACE=0: run the checks against the scratch worktree (VERIF_REPO) instead of applying
        # the change to /repo (used while a background run is reading /repo)
        if confirmed and os.environ.get('SEED_INPLACE', '1') == '0':
            results = run_checks(props, tier, name, 'VERIF_REPO=%s ' % WT)
            inplace_done = True
    finally:
        sh('git -C /repo worktree remove --force %s' % WT)
    if confirmed and not inplace_done:
        rc, out = sh('git -C /repo status --porcelain')
        assert out.strip() == '', '/repo is not clean'
        rc, out = sh('git -C /repo apply %s' % patch)
        assert rc == 0, out
        try:
            results = run_checks(props, tier, name, '')
        finally:
            sh('git -C /repo checkout -- .')
        rc, out = sh('git -C /repo status --porcelain')
        assert out.strip() == '', '/repo not restored'
    dst = os.path.join(ROOT, 'seeded', name)
    os.makedirs(dst, exist_ok=True)
    if os.path.realpath(mdir) != os.path.realpath(dst):
        shutil.copy(patch, os.path.join(dst, 'patch.diff'))
        shutil.copy(demo, os.path.join(dst, 'demo.cc'))
    meta_out = dict(property=meta.get('property', props[0] if props else ''), summary=meta.get('summary', ''), needs=meta.get('needs', ''),
                    why_tests_pass=meta.get('why_tests_pass', ''), author_ran=meta.get('author_ran', meta.get('ran', '')), confirmed=confirmed, confirmation_ran=ran,
                    repo_head=sh('git -C /repo rev-parse --short HEAD')[1].strip(), checks=results)
    # keep earlier check results (e.g. from another tier)
    old = os.path.join(dst, 'meta.json')
    if os.path.exists(old):
        try:
            o = json.load(open(old))
            for k, v in o.get('checks', {}).items():
                meta_out['checks'].setdefault(k + ('' if v.get('tier') == tier else ':' + v.get('tier', '')), v)
        except Exception:
            pass
    json.dump(meta_out, open(old, 'w'), indent=1)


if __name__ == '__main__':
    main()
