#!/bin/sh
# tools/keep_replay.sh <prop> <pattern> <name>: keep the first replay whose header matches <pattern> as replays/<prop>/<name>.case
f=$(grep -l -- "$2" /verif/replays/$1/*.case | grep -v '/F' | head -1)
[ -n "$f" ] && mv "$f" /verif/replays/$1/$3.case && echo kept $3 && head -5 /verif/replays/$1/$3.case | cut -c1-250
