#!/usr/bin/env python3
"""Prints the sensitivity-audit table (markdown) from /verif/seeded/*/meta.json; with --write it
replaces the block between the AUDIT markers in DESIGN.md."""
import json, os, sys
ROOT = os.path.dirname(os.path.dirname(os.path.abspath(__file__)))
rows = []
for name in sorted(os.listdir(os.path.join(ROOT, 'seeded'))):
    mp = os.path.join(ROOT, 'seeded', name, 'meta.json')
    if not os.path.exists(mp):
        continue
    m = json.load(open(mp))
    checks = m.get('checks', {})
    caught = [k for k, v in checks.items() if v.get('exit') == 1 and v.get('violations', 0) > 0]
    missed = [k for k, v in checks.items() if not (v.get('exit') == 1 and v.get('violations', 0) > 0)]
    first = ''
    for k in caught[:1]:
        msgs = checks[k].get('first_messages') or ['']
        first = msgs[0].split(':')[0][:40]
    summ = (m.get('summary') or '').replace('|', '/').replace('\n', ' ')
    if len(summ) > 150:
        summ = summ[:147] + '...'
    needs = (m.get('needs') or '').replace('|', '/').replace('\n', ' ')
    if len(needs) > 130:
        needs = needs[:127] + '...'
    rows.append('| %s | %s | %s | %s | %s |' % (name, summ, needs, ', '.join('%s (%s, %ss)' % (k, checks[k].get('tier', 'quick'), checks[k].get('wall_s')) for k in caught) + ((' first report: `%s`' % first) if first else ''),
                                                 ', '.join(missed) if missed else '-'))
table = '| seeded change | what it changes | needs | caught by | not caught by |\n|---|---|---|---|---|\n' + '\n'.join(rows)
BEGIN, END = '<!-- AUDIT-BEGIN -->', '<!-- AUDIT-END -->'
if '--write' in sys.argv:
    p = os.path.join(ROOT, 'DESIGN.md')
    s = open(p).read()
    if '@@AUDIT_TABLE@@' in s:
        s = s.replace('@@AUDIT_TABLE@@', BEGIN + '\n' + table + '\n' + END)
    else:
        i, j = s.index(BEGIN), s.index(END)
        s = s[:i] + BEGIN + '\n' + table + '\n' + s[j:]
    open(p, 'w').write(s)
else:
    print(table)
