#!/usr/bin/env python3
"""Table version pool generator (C07/C08): families of table definitions that share a hash and
evolve by the documented rules (add / remove / mark deleted / reorder / swap in a fungible type;
ids never reused). Emits C++ for every version, vk::Meta mirrors, and per-id donor schemas used to
generate values that every fungible alternative of that id can hold."""
import os
import random
import sys

sys.path.insert(0, os.path.dirname(os.path.abspath(__file__)))
from gen_types import Pool, P  # noqa: E402

u8, u16, i32, u64 = P('std::uint8_t'), P('std::uint16_t'), P('std::int32_t'), P('std::uint64_t')
string = ('str', 'char')


def entry_groups(pool):
    """Each group: (list of mutually fungible type ASTs, donor index = tightest alternative)."""
    sa = pool.struct([('a', i32), ('b', string)], name='TvStructA')
    sb = pool.struct([('x', i32), ('y', string)], name='TvStructB', private=True)
    wr = pool.wrapper(i32, name='TvWrInt')
    wl = pool.wrapper_lbuf(u16, 5, 'std::uint8_t', storage='arr', name='TvWrLbuf')
    sl = pool.lbuf(string, 4, 'std::uint32_t', storage='arr', name='TvLbStr')   # structure holding a logical buffer
    sv = pool.struct([('data', ('vec', string))], name='TvStVec')                # fungible: member-wise (lbuf <-> vector)
    return [
        ([('vec', u16), ('arr', u16, 3), ('named', 'TvWrLbuf')], 1),
        ([('map', u8, string), ('umap', u8, string)], 0),
        ([('pair', i32, string), ('tup', [i32, string])], 0),
        ([sa, sb], 0),
        ([i32, wr], 0),
        ([('vec', string), ('arr', string, 2), ('tup', [string, string])], 1),
        ([string], 0),
        ([('opt', u8)], 0),
        ([u64], 0),
        ([('var', [i32, string])], 0),
        ([sl, sv], 0),
        ([('vec', ('pair', u8, ('vec', u16))), ('vec', ('tup', [u8, ('arr', u16, 2)]))], 1),
    ]


ID_CHOICES = [0, 1, 2, 3, 5, 127, 128, 255, 256, 300, 65535, 65536, 70000, 2 ** 32, 2 ** 40]


def gen_family(pool, rnd, fam, nversions, pool_size, hash_mode):
    groups = entry_groups_cache[0]
    chosen = rnd.sample(range(len(groups)), pool_size)
    ids = rnd.sample(ID_CHOICES, pool_size)
    id_group = dict(zip(ids, chosen))
    # state: ordered list of [id, alt, active]; retired ids never return
    state = []
    unused = list(ids)
    rnd.shuffle(unused)
    for _ in range(max(2, pool_size - 3)):
        i = unused.pop()
        state.append([i, rnd.randrange(len(groups[id_group[i]][0])), True])
    versions = []

    def snapshot():
        versions.append([tuple(e) for e in state])
    snapshot()
    guard = 0
    while len(versions) < nversions and guard < 1000:
        guard += 1
        step = rnd.choice([0, 0, 1, 2, 2, 2, 3, 4, 4])
        nact = sum(1 for e in state if e[2])
        if nact <= 2 and unused:
            step = 0
        if step in (1, 2) and nact <= 2:
            step = 4
        if step == 0 and unused:
            i = unused.pop()
            state.insert(rnd.randrange(len(state) + 1), [i, rnd.randrange(len(groups[id_group[i]][0])), True])
        elif step == 1 and len(state) > 1:
            del state[rnd.randrange(len(state))]          # removed entirely; id retired
        elif step == 2:
            act = [e for e in state if e[2]]
            if not act:
                continue
            rnd.choice(act)[2] = False                    # marked deleted; stays deleted
        elif step == 3 and len(state) > 1:
            rnd.shuffle(state)
        elif step == 4:
            act = [e for e in state if e[2] and len(groups[id_group[e[0]]][0]) > 1]
            if not act:
                continue
            e = rnd.choice(act)
            e[1] = (e[1] + 1 + rnd.randrange(len(groups[id_group[e[0]]][0]) - 1)) % len(groups[id_group[e[0]]][0])
        else:
            continue
        if [tuple(e) for e in state] != versions[-1] and state:
            snapshot()
    names = []
    for vi, st in enumerate(versions):
        entries = [(groups[id_group[i]][0][alt], i, active) for i, alt, active in st]
        name = 'F%dV%d' % (fam, vi)
        if hash_mode == 'ns':
            pool.table(entries, ns_name='verif.family%d' % fam, name=name)
        elif hash_mode == 'zero':
            pool.table(entries, name=name)
        else:
            pool.table(entries, hash_=hash_mode, name=name)
        names.append(name)
    donors = {i: groups[g][0][groups[g][1]] for i, g in id_group.items()}
    return names, donors


entry_groups_cache = [None]


def main():
    import argparse
    ap = argparse.ArgumentParser()
    ap.add_argument('--seed', type=int, default=1)
    ap.add_argument('--versions', type=int, default=18)     # total over all families
    ap.add_argument('--pool-size', type=int, default=7)
    ap.add_argument('--parts', type=int, default=4)
    ap.add_argument('--wrapped', type=int, default=4)       # versions per family that also get nested wrappers
    ap.add_argument('--outdir', required=True)
    a = ap.parse_args()
    rnd = random.Random(a.seed)
    pool = Pool('tv')
    entry_groups_cache[0] = entry_groups(pool)
    fams = []
    # always a named family (NOP_TABLE_NS), a literal-hash family and a zero-hash family (NOP_TABLE)
    modes = ['ns', 0x8877665544332211, 'zero', 200]
    nfam = 3 if a.versions <= 30 else 4
    for f in range(nfam):
        names, donors = gen_family(pool, rnd, f, a.versions // nfam, a.pool_size, modes[f % len(modes)])
        fams.append((names, donors))
    os.makedirs(a.outdir, exist_ok=True)
    common = ['// generated by verif/gen_tables.py -- do not edit', '#pragma once', '#include "kit/typeops.h"',
              '#include "harness/tables_wrappers.h"', pool.emit_decls(), pool.emit_meta()]
    write(os.path.join(a.outdir, 'tables_common.h'), '\n'.join(common) + '\n')
    # distribute (version, wrappers) over parts
    items = []
    for f, (names, donors) in enumerate(fams):
        for vi, n in enumerate(names):
            T = 'tv::' + n
            items.append((T, '%s' % n))
            if vi < a.wrapped:
                items.append(('vk::WStruct<%s>' % T, 'WStruct<%s>' % n))
                items.append(('std::vector<%s>' % T, 'vector<%s>' % n))
                items.append(('vk::WOuter<%s>' % T, 'WOuter<%s>' % n))
    parts = [[] for _ in range(a.parts)]
    for i, it in enumerate(items):
        parts[i % a.parts].append(it)
    for k, its in enumerate(parts):
        out = ['#include "tables_common.h"', 'namespace vk {', 'std::vector<TypeOps> table_part_%d() {' % k, '  std::vector<TypeOps> v;']
        for T, label in its:
            out.append('  v.push_back(make_ops<%s>("%s"));' % (T, label))
        out += ['  return v;', '}', '}']
        write(os.path.join(a.outdir, 'tables_part_%d.cc' % k), '\n'.join(out) + '\n')
    idx = ['#include "tables_common.h"', 'namespace vk {']
    for k in range(a.parts):
        idx.append('std::vector<TypeOps> table_part_%d();' % k)
    idx.append('std::vector<TypeOps> shard_types() { std::vector<TypeOps> v;')
    for k in range(a.parts):
        idx.append('  { auto p = table_part_%d(); for (auto& t : p) v.push_back(std::move(t)); }' % k)
    idx.append('  return v; }')
    idx.append('// donor schema of an entry id: the tightest of its fungible alternatives')
    idx.append('SchemaP table_donor(int family, std::uint64_t id) {')
    for f, (names, donors) in enumerate(fams):
        for i, t in sorted(donors.items()):
            idx.append('  if (family == %d && id == %dull) return MetaOf<%s>::schema();' % (f, i, pool.cpp(t)))
    idx.append('  return nullptr; }')
    idx.append('int table_families() { return %d; }' % len(fams))
    idx.append('}')
    write(os.path.join(a.outdir, 'tables_index.cc'), '\n'.join(idx) + '\n')
    print('%d families, %d versions, %d types in %d parts' % (len(fams), sum(len(n) for n, _ in fams), len(items), a.parts))


def write(path, text):
    old = open(path).read() if os.path.exists(path) else None
    if old != text:
        open(path, 'w').write(text)


if __name__ == '__main__':
    main()
