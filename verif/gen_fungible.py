#!/usr/bin/env python3
"""Fungible type-pair generator (C09). Type A comes from the grammar of gen_types.py; B is derived
from A by applying, at every node, at most one DOCUMENTED fungibility rule (vector <-> std::array
<-> C array, non-integral sequence <-> tuple, 2-tuple <-> pair, map <-> unordered_map, logical
buffer (any storage, any integral size member) <-> vector, value wrapper <-> wrapped type,
member-wise for structures, entry-wise for tables with equal hash, element-wise for
Optional/Result/Variant) and recursing into the children; such pairs are EXPECTED to be fungible.
Near misses change one leaf (int width, array length, member count, table hash, enum type,
integral sequence vs tuple); they carry NO expectation on the trait.  Every pair gets its own tiny
translation unit for the trait constants so that an ill-formed pair (ambiguous partial
specialisation) drops only itself."""
import os
import random
import sys

sys.path.insert(0, os.path.dirname(os.path.abspath(__file__)))
from gen_types import Pool, P, INTS, SIZE_TYPES, RandomTypes, is_integral  # noqa: E402


class Rewriter:
    def __init__(self, pool, rnd):
        self.p = pool
        self.r = rnd
        self.rules = []   # names of rules applied

    def elem_integral(self, t):
        return t[0] == 'prim' and t[1] not in ('float', 'double')

    def seq_len(self):
        return self.r.choice([1, 2, 3])

    def rw(self, t, top=False, member=False):
        """Returns a type fungible with t by documented rules."""
        r = self.r
        p = self.p
        k = t[0]
        if k in ('prim', 'enum', 'str', 'hnd', 'tracked'):
            if k == 'prim' and r.randrange(6) == 0 and t[1] != 'bool':
                self.rules.append('wrap')
                return p.wrapper(t)
            return t
        if k == 'vec':
            e = self.rw(t[1])
            c = r.randrange(5)
            n = self.seq_len()
            if c == 0:
                self.rules.append('vec->arr'); return ('arr', e, n)
            if c == 1 and (top or member):
                self.rules.append('vec->carr'); return ('carr', e, n)
            if c == 2 and not self.elem_integral(t[1]) and not self.elem_integral(e):
                self.rules.append('vec->tup'); return ('tup', [self.rw(t[1]) for _ in range(n)])
            return ('vec', e)
        if k == 'arr':
            e = self.rw(t[1])
            c = r.randrange(5)
            if c == 0:
                self.rules.append('arr->vec'); return ('vec', e)
            if c == 1 and (top or member):
                self.rules.append('arr->carr'); return ('carr', e, t[2])
            if c == 2 and not self.elem_integral(t[1]) and not self.elem_integral(e) and t[2] <= 4:
                self.rules.append('arr->tup'); return ('tup', [self.rw(t[1]) for _ in range(t[2])])
            return ('arr', e, t[2])
        if k == 'carr':
            if t[1][0] == 'carr':
                return t
            e = self.rw(t[1])
            c = r.randrange(4)
            if c == 0:
                self.rules.append('carr->arr'); return ('arr', e, t[2])
            if c == 1:
                self.rules.append('carr->vec'); return ('vec', e)
            return ('carr', e, t[2])
        if k == 'pair':
            a, b = self.rw(t[1]), self.rw(t[2])
            if r.randrange(2):
                self.rules.append('pair->tup'); return ('tup', [a, b])
            return ('pair', a, b)
        if k == 'tup':
            es = [self.rw(x) for x in t[1]]
            if len(es) == 2 and r.randrange(2):
                self.rules.append('tup->pair'); return ('pair', es[0], es[1])
            if es and r.randrange(4) == 0 and all(p.cpp(x) == p.cpp(t[1][0]) for x in t[1]) and not self.elem_integral(t[1][0]):
                e0 = self.rw(t[1][0])
                if not self.elem_integral(e0):
                    self.rules.append('tup->arr'); return ('arr', e0, len(es))
            return ('tup', es)
        if k in ('map', 'umap'):
            kk, vv = self.rw_key(t[1]), self.rw(t[2])
            if r.randrange(2):
                self.rules.append('map<->umap'); return ('umap' if k == 'map' else 'map', kk, vv)
            return (k, kk, vv)
        if k == 'ref':
            return ('ref', t[1])
        if k == 'opt':
            for _ in range(5):
                e = self.rw(t[1])
                if 'nil' not in p.starts(e):
                    return ('opt', e)
            return t
        if k == 'res':
            for _ in range(5):
                e = self.rw(t[2])
                if 'err' not in p.starts(e):
                    return ('res', t[1], e)
            return t
        if k == 'var':
            return ('var', [self.rw(x) for x in t[1]])
        if k == 'named':
            d = p.named[t[1]]
            kind = d['kind']
            if kind == 'struct':
                self.rules.append('struct')
                # at most one documented rule per node: a member that is a std::vector in A may become a
                # logical buffer pair in B (its element type rewritten recursively); every other member is
                # rewritten on its own.
                cand = [i for i, (mn, mt) in enumerate(d['members']) if mt[0] == 'vec' and mt[1][0] not in ('carr', 'ref')]
                pick = r.choice(cand) if cand and r.randrange(2) else None
                ms = []
                for i, (mn, mt) in enumerate(d['members']):
                    if i == pick:
                        ms.append(('r' + mn, ('vec', self.rw(mt[1]))))
                    else:
                        ms.append(('r' + mn, self.rw(mt, member=True)))
                if pick is not None:
                    self.rules.append('vec-member->lbuf')
                    return p.lbuf(ms[pick][1][1], r.choice([3, 5, 8, 8, 40, 70]), r.choice(SIZE_TYPES), storage=r.choice(['arr', 'carr']),
                                  before=ms[:pick], after=ms[pick + 1:])
                return p.struct(ms)
            if kind == 'lbuf':
                self.rules.append('lbuf')
                c = r.randrange(3)
                before = [('r' + mn, self.rw(mt, member=True)) for mn, mt in d['before']]
                after = [('r' + mn, self.rw(mt, member=True)) for mn, mt in d['after']]
                if c == 0:   # logical buffer -> vector member
                    return p.struct(before + [('vecdata', ('vec', d['elem']))] + after)
                # same capacity: the LogicalBuffer/LogicalBuffer rule compares the array types, whose extents must agree
                return p.lbuf(d['elem'], d['cap'], r.choice([s for s in SIZE_TYPES if self.size_ok(s, d['cap'])]),
                              storage=r.choice(['arr', 'carr']), before=before, after=after)
            if kind == 'wrap':
                if r.randrange(2):
                    self.rules.append('unwrap'); return self.rw(d['inner'])
                self.rules.append('wrap~wrap'); return p.wrapper(self.rw(d['inner']))
            if kind == 'wraplbuf':
                c = r.randrange(2)
                if c == 0:
                    self.rules.append('wraplbuf->vec'); return ('vec', d['elem'])
                self.rules.append('wraplbuf~'); return p.wrapper_lbuf(d['elem'], d['cap'], r.choice([s for s in SIZE_TYPES if self.size_ok(s, d['cap'])]), storage=r.choice(['arr', 'carr']))
            if kind == 'table':
                self.rules.append('table')
                ents = [(self.rw(et), eid, act) for et, eid, act in d['entries']]
                return p.table(ents, hash_=d['hash'], ns_name=d['ns_name'])
        return t

    def size_ok(self, s, cap):
        lim = {'std::uint8_t': 255, 'std::int8_t': 127, 'std::uint16_t': 65535, 'std::int16_t': 32767}.get(s, 1 << 31)
        return cap <= lim

    def rw_key(self, t):
        return t   # map keys stay as they are (hash / ordering requirements)

    def struct_with_lbufs(self, members):
        """Builds a structure; 'vec' members may be turned into logical buffer pairs."""
        p, r = self.p, self.r
        # gen_types structures hold plain members only; a struct with ONE logical buffer pair is an 'lbuf' named type.
        idx = [i for i, (mn, mt) in enumerate(members) if mt[0] == 'vec' and mt[1][0] not in ('carr', 'ref')]
        if idx and r.randrange(2):
            i = r.choice(idx)
            self.rules.append('vec-member->lbuf')
            return p.lbuf(members[i][1][1], r.choice([3, 5, 8]), r.choice(SIZE_TYPES), storage=r.choice(['arr', 'carr']),
                          before=members[:i], after=members[i + 1:])
        return p.struct(members)

    # ---- near misses ----
    def near(self, t):
        r, p = self.r, self.p
        k = t[0]
        if k == 'prim':
            if t[1] in INTS:
                alt = r.choice([x for x in INTS if x != t[1]])
                self.rules.append('near:int-width'); return P(alt)
            if t[1] == 'float':
                self.rules.append('near:float'); return P('double')
            return P('std::int32_t') if t[1] != 'std::int32_t' else P('std::int64_t')
        if k == 'enum':
            self.rules.append('near:enum'); return ('enum', r.choice([e for e in ['EnU8', 'EnI8', 'EnU16', 'EnI16', 'EnU32', 'EnI32'] if e != t[1]]))
        if k == 'str':
            self.rules.append('near:char'); return ('str', 'char16_t' if t[1] != 'char16_t' else 'char')
        if k == 'vec':
            if self.elem_integral(t[1]) and r.randrange(2):
                self.rules.append('near:integral-vec-vs-tuple'); return ('tup', [t[1], t[1]])
            return ('vec', self.near(t[1]))
        if k == 'arr':
            if r.randrange(2):
                self.rules.append('near:array-length'); return ('arr', t[1], t[2] + 1)
            return ('arr', self.near(t[1]), t[2])
        if k == 'carr':
            self.rules.append('near:array-length'); return ('carr', t[1], t[2] + 1)
        if k == 'pair':
            return ('pair', self.near(t[1]), t[2]) if r.randrange(2) else ('pair', t[1], self.near(t[2]))
        if k == 'tup':
            if not t[1] or r.randrange(3) == 0:
                self.rules.append('near:tuple-arity'); return ('tup', t[1] + [P('std::int32_t')])
            i = r.randrange(len(t[1]))
            return ('tup', t[1][:i] + [self.near(t[1][i])] + t[1][i + 1:])
        if k in ('map', 'umap'):
            return (k, t[1], self.near(t[2]))
        if k == 'opt':
            e = self.near(t[1])
            return ('opt', e) if 'nil' not in p.starts(e) else ('opt', P('std::int32_t'))
        if k == 'res':
            e = self.near(t[2])
            return ('res', t[1], e) if 'err' not in p.starts(e) else ('res', t[1], P('std::int32_t'))
        if k == 'var':
            if r.randrange(3) == 0:
                self.rules.append('near:variant-arity'); return ('var', t[1] + [P('double')]) if ('prim', 'double') not in t[1] else ('var', t[1][:-1] or [P('bool')])
            i = r.randrange(len(t[1]))
            alts = t[1][:i] + [self.near(t[1][i])] + t[1][i + 1:]
            if len({p.cpp(x) for x in alts}) != len(alts):
                return ('var', t[1] + [P('double')])
            return ('var', alts)
        if k == 'hnd':
            self.rules.append('near:handle-type'); return ('hnd', t[1] + 1)
        if k == 'named':
            d = p.named[t[1]]
            if d['kind'] == 'struct':
                if not d['members'] or r.randrange(3) == 0:
                    self.rules.append('near:member-count'); return p.struct(d['members'] + [('extra', P('std::uint8_t'))])
                i = r.randrange(len(d['members']))
                ms = list(d['members']); ms[i] = (ms[i][0], self.near(ms[i][1]))
                return p.struct(ms)
            if d['kind'] == 'table':
                c = r.randrange(4)
                if c == 3 and d['entries']:
                    # one entry deprecated on one side only: a DeletedEntry is never written and is skipped on read
                    self.rules.append('near:entry-deleted')
                    i = r.randrange(len(d['entries'])); es = list(d['entries']); es[i] = (es[i][0], es[i][1], not es[i][2])
                    return p.table(es, hash_=d['hash'], ns_name=d['ns_name'])
                if c == 0:
                    self.rules.append('near:table-hash'); return p.table(d['entries'], hash_=((d['hash'] or 0) + 1) % 2 ** 64)
                if c == 1 and d['entries']:
                    self.rules.append('near:entry-id'); e0 = d['entries'][0]
                    newid = max(e[1] for e in d['entries']) + 1
                    return p.table([(e0[0], newid, e0[2])] + d['entries'][1:], hash_=d['hash'], ns_name=d['ns_name'])
                if d['entries']:
                    i = r.randrange(len(d['entries'])); es = list(d['entries']); es[i] = (self.near(es[i][0]), es[i][1], es[i][2])
                    return p.table(es, hash_=d['hash'], ns_name=d['ns_name'])
            if d['kind'] == 'wrap':
                return p.wrapper(self.near(d['inner']))
            if d['kind'] == 'lbuf':
                self.rules.append('near:lbuf-elem'); return p.lbuf(self.near(d['elem']), d['cap'], d['size_type'], storage=d['storage'], before=d['before'], after=d['after'])
            if d['kind'] == 'wraplbuf':
                self.rules.append('near:lbuf-elem'); return p.wrapper_lbuf(self.near(d['elem']), d['cap'], d['size_type'], storage=d['storage'])
        self.rules.append('near:other')
        return P('std::int64_t')


def gen_pairs(seed, count, depth):
    pool = Pool('gf')
    rnd = random.Random(seed)
    g = RandomTypes(seed * 7919 + 1, pool)
    pairs = []
    tries = 0
    # a few hand-picked shapes first (documented examples)
    u8, i32 = P('std::uint8_t'), P('std::int32_t')
    fixed = [
        (('vec', u8), ('carr', u8, 4), 1), (('arr', i32, 10), ('carr', i32, 10), 1), (('vec', ('str', 'char')), ('tup', [('str', 'char'), ('str', 'char')]), 1),
        (('map', i32, ('str', 'char')), ('umap', i32, ('str', 'char')), 1), (('pair', i32, ('str', 'char')), ('tup', [i32, ('str', 'char')]), 1),
        (('vec', i32), ('tup', [i32, i32]), -1), (('arr', i32, 3), ('arr', i32, 4), -1),
        # arrays nested in arrays: the inner extent is part of the wire format
        (('carr', ('carr', i32, 3), 2), ('arr', ('carr', i32, 3), 2), 1),
        (('carr', ('carr', i32, 3), 2), ('carr', ('carr', i32, 4), 2), -1),
        (('arr', ('carr', P('float'), 3), 2), ('arr', ('carr', P('float'), 4), 2), -1),
        (('vec', ('arr', ('str', 'char'), 2)), ('vec', ('arr', ('str', 'char'), 3)), -1),
    ]
    # a table revision that deprecates one entry (hand-picked: the random near-miss hits it rarely)
    ta = pool.table([(i32, 1, True), (('str', 'char'), 2, True), (u8, 3, True)], hash_=99, name='FxTabA')
    tb = pool.table([(i32, 1, True), (('str', 'char'), 2, False), (u8, 3, True)], hash_=99, name='FxTabB')
    fixed.append((ta, tb, -1))
    fixed.append((('vec', ta), ('vec', tb), -1))
    # std::array member vs logical buffer member of the same capacity: not a documented rule (only vector <-> logical
    # buffer is); whatever the trait says, it must say the same in both directions
    sa1 = pool.struct([('id', u8), ('data', ('arr', i32, 4))], name='FxArrSt')
    lb1 = pool.lbuf(i32, 4, 'std::uint8_t', storage='arr', before=[('id', u8)], name='FxLbSt')
    sa2 = pool.struct([('data', ('arr', ('str', 'char'), 3))], name='FxArrSt2')
    lb2 = pool.lbuf(('str', 'char'), 3, 'std::size_t', storage='carr', name='FxLbSt2')
    fixed.append((sa1, lb1, -1)); fixed.append((lb1, sa1, -1)); fixed.append((sa2, lb2, -1))
    # vector <-> logical buffer with capacities where the element count and the byte length (or the size
    # member's range) fall into different integer classes, bare and inside a table entry
    for k, (elem, cap, st) in enumerate([(P('std::uint32_t'), 70, 'std::uint8_t'), (P('std::uint64_t'), 40, 'std::uint8_t'), (P('std::uint16_t'), 100, 'std::int8_t'),
                                         (P('float'), 40, 'std::uint8_t'), (('str', 'char'), 6, 'std::uint8_t'), (P('std::int16_t'), 300, 'std::uint16_t')]):
        lb = pool.lbuf(elem, cap, st, storage=('arr' if k % 2 else 'carr'), before=[('id', u8)], name='FxBigLb%d' % k)
        sv = pool.struct([('id', u8), ('vecdata', ('vec', elem))], name='FxBigVs%d' % k)
        fixed.append((lb, sv, 1)); fixed.append((sv, lb, 1))
        fixed.append((pool.table([(lb, 1, True), (u8, 2, True)], hash_=7, name='FxBigTa%d' % k), pool.table([(sv, 1, True), (u8, 2, True)], hash_=7, name='FxBigTb%d' % k), 1))
    # logical buffer vs logical buffer whose element types are fungible but differ in integral-ness (ARRAY vs BINARY
    # on the wire), and logical buffers of the same element type but different capacity: no expectation, only the
    # implication "trait true => wire compatible" and symmetry
    wr32 = pool.wrapper(P('std::uint32_t'), name='FxWr32')
    for k, (ea, eb, ca, cb) in enumerate([(wr32, P('std::uint32_t'), 4, 4), (P('std::uint32_t'), wr32, 4, 4), (wr32, P('std::uint32_t'), 4, 6), (P('std::uint16_t'), P('std::uint16_t'), 3, 5)]):
        la = pool.lbuf(ea, ca, 'std::uint8_t', storage='arr', name='FxLbMixA%d' % k)
        lb_ = pool.lbuf(eb, cb, 'std::size_t', storage='carr', name='FxLbMixB%d' % k)
        fixed.append((la, lb_, -1))
        fixed.append((pool.wrapper_lbuf(ea, ca, 'std::uint8_t', storage='arr', name='FxWlMixA%d' % k), pool.wrapper_lbuf(eb, cb, 'std::uint16_t', storage='carr', name='FxWlMixB%d' % k), -1))
    # vectors whose element types are fungible but not identical (documented: element-wise), and an Optional against the
    # plain type it wraps (not documented: an empty Optional is a lone NIL byte the plain type cannot read)
    string = ('str', 'char'); u16 = P('std::uint16_t')
    fixed.append((('vec', ('pair', i32, string)), ('vec', ('tup', [i32, string])), 1))
    fixed.append((('vec', string), ('vec', pool.wrapper(string, name='FxWrStr')), 1))
    fixed.append((('vec', ('vec', u16)), ('vec', ('arr', u16, 2)), 1))
    fixed.append((('vec', ('map', i32, string)), ('vec', ('umap', i32, string)), 1))
    fixed.append((('opt', ('vec', u16)), ('arr', u16, 2), -1)); fixed.append((('opt', i32), i32, -1)); fixed.append((i32, ('opt', i32), -1))
    fixed.append((pool.struct([('o', ('opt', string)), ('n', u8)], name='FxOptSt'), pool.struct([('o', string), ('n', u8)], name='FxPlainSt'), -1))
    # differences confined to the 4th (5th) position of a tuple / structure / table, and sequences of integers against
    # tuples that contain a value wrapper around that integer (BIN vs ARY)
    fixed.append((('tup', [i32, i32, i32, i32]), ('tup', [i32, i32, i32, string]), -1))
    fixed.append((('tup', [u8, u8, u8, u8, string]), ('tup', [u8, u8, u8, u8, u16]), -1))
    fixed.append((pool.struct([('a', u8), ('b', u8), ('c', u8), ('d', i32), ('e', u8)], name='FxPos4A'), pool.struct([('a', u8), ('b', u8), ('c', u8), ('d', string), ('e', u8)], name='FxPos4B'), -1))
    fixed.append((pool.table([(u8, 1, True), (u8, 2, True), (u8, 3, True), (i32, 4, True)], hash_=5, name='FxPos4Ta'), pool.table([(u8, 1, True), (u8, 2, True), (u8, 3, True), (string, 4, True)], hash_=5, name='FxPos4Tb'), -1))
    wri = pool.wrapper(i32, name='FxWrI32')
    fixed.append((('vec', i32), ('tup', [i32, wri]), -1)); fixed.append((('tup', [wri, i32]), ('arr', i32, 2), -1)); fixed.append((('carr', i32, 2), ('tup', [i32, wri]), -1))
    for a, b, exp in fixed:
        pairs.append((a, b, exp, ['fixed']))
    while len(pairs) < count and tries < count * 50:
        tries += 1
        a = g.gen(rnd.choice([1, 2, 2, 3, depth]), allow_handle=True, allow_table=True)
        if a[0] == 'ref':
            continue
        rw = Rewriter(pool, rnd)
        if rnd.randrange(4) == 0:
            b = rw.near(a)
            exp = -1
            if pool.cpp(b) == pool.cpp(a):
                continue
        else:
            b = rw.rw(a, top=True)
            exp = 1
            if pool.cpp(b) == pool.cpp(a) and rnd.randrange(4):
                continue   # keep only a few identical pairs (reflexivity is checked on every type anyway)
        if b[0] == 'ref':
            continue
        pairs.append((a, b, exp, rw.rules))
    return pool, pairs


def write(path, text):
    old = open(path).read() if os.path.exists(path) else None
    if old != text:
        open(path, 'w').write(text)


def main():
    import argparse
    ap = argparse.ArgumentParser()
    ap.add_argument('--seed', type=int, default=1)
    ap.add_argument('--count', type=int, default=40)
    ap.add_argument('--depth', type=int, default=3)
    ap.add_argument('--parts', type=int, default=8)
    ap.add_argument('--outdir', required=True)
    a = ap.parse_args()
    pool, pairs = gen_pairs(a.seed, a.count, a.depth)
    os.makedirs(a.outdir, exist_ok=True)
    common = ['// generated by verif/gen_fungible.py -- do not edit', '#pragma once', '#include "kit/typeops.h"',
              '#include <nop/traits/is_fungible.h>', '#include <nop/protocol.h>', pool.emit_decls(), pool.emit_meta(),
              'namespace vk { struct PairTraits { bool ab, ba, aa, bb; int protocol_status; int sig_mismatch; int protocol_admits; };',
              '// Does overload resolution admit Protocol<P>::Write(serializer, const T&) and Protocol<P>::Read(deserializer, T*)?',
              'template <typename P, typename T, typename = void> struct ProtocolAdmits : std::false_type {};',
              'template <typename P, typename T> struct ProtocolAdmits<P, T, std::void_t<decltype(nop::Protocol<P>::Write(std::declval<nop::Serializer<LogWriter*>*>(), std::declval<const T&>())),',
              '    decltype(nop::Protocol<P>::Read(std::declval<nop::Deserializer<LogReader*>*>(), std::declval<T*>()))>> : std::true_type {};',
              '}']
    write(os.path.join(a.outdir, 'fung_common.h'), '\n'.join(common) + '\n')
    # types (A and B of every pair), de-duplicated by spelling
    spell = {}
    for pa, pb, exp, rules in pairs:
        for t in (pa, pb):
            spell.setdefault(pool.cpp(t), t)
    names = sorted(spell)
    parts = [[] for _ in range(a.parts)]
    for i, n in enumerate(names):
        parts[i % a.parts].append(n)
    for k, ns in enumerate(parts):
        out = ['#include "fung_common.h"', 'namespace vk {', 'std::vector<TypeOps> fung_part_%d() {' % k, '  std::vector<TypeOps> v;']
        for n in ns:
            out.append('  v.push_back(make_ops<%s>("%s"));' % (n, n))
        out += ['  return v;', '}', '}']
        write(os.path.join(a.outdir, 'fung_part_%d.cc' % k), '\n'.join(out) + '\n')
    for i, (pa, pb, exp, rules) in enumerate(pairs):
        A, B = pool.cpp(pa), pool.cpp(pb)
        out = ['#include "fung_common.h"', 'namespace vk {',
               '// a template so that the if-constexpr branch is really discarded when the trait is false',
               'template <typename A, typename B> static PairTraits fung_compute() {',
               '  PairTraits t{nop::IsFungible<A, B>::value, nop::IsFungible<B, A>::value, nop::IsFungible<A, A>::value, nop::IsFungible<B, B>::value, -1, -1, ProtocolAdmits<A, B>::value ? 1 : 0};',
               '  // Signatures are fungible exactly when return and argument types are (after decay); C arrays decay to',
               '  // pointers in a signature and are left out.',
               '  if constexpr (!std::is_array<A>::value && !std::is_array<B>::value) {',
               '    constexpr bool ab = nop::IsFungible<A, B>::value, ba = nop::IsFungible<B, A>::value;',
               '    int m = 0;',
               '    if (nop::IsFungible<void(const A&), void(const B&)>::value != ab) m |= 1;',
               '    if (nop::IsFungible<int(A&&, int), int(B&&, int)>::value != ab) m |= 2;',
               '    if (nop::IsFungible<void(const A&), void(B)>::value != ab) m |= 4;',
               '    if (nop::IsFungible<A(), B()>::value != ab) m |= 8;',
               '    if (nop::IsFungible<A(const B&), B(const A&)>::value != (ab && ba)) m |= 16;',
               '    if (nop::IsFungible<void(const A&), void(const A&, int)>::value) m |= 32;',
               '    if (nop::IsFungible<void(const B&), void(const A&)>::value != ba) m |= 64;',
               '    if (nop::IsFungible<void(int, int, int, const A&), void(int, int, int, const B&)>::value != ab) m |= 128;',
               '    if (nop::IsFungible<void(int, int, const A&, int, int), void(int, int, const B&, int, int)>::value != ab) m |= 256;',
               '    t.sig_mismatch = m;',
               '  }',
               '  // Protocol<A>::Write/Read admit B exactly when the trait is true (overload resolution); exercised when it is.',
               '  if constexpr (nop::IsFungible<A, B>::value && ProtocolAdmits<A, B>::value && !MetaOf<A>::kHandle) {',
               '    Holder<B> hb; LogWriter w; nop::Serializer<LogWriter*> s{&w};',
               '    auto st1 = nop::Protocol<A>::Write(&s, hb.get());',
               '    LogReader r; r.data = w.out.data(); r.n = w.out.size(); nop::Deserializer<LogReader*> d{&r};',
               '    Holder<B> hb2; auto st2 = nop::Protocol<A>::Read(&d, &hb2.get());',
               '    t.protocol_status = (st1 ? 0 : 1) + (st2 ? 0 : 2);',
               '  }', '  return t;', '}',
               'PairTraits fung_pair_%d() { return fung_compute<%s, %s>(); }' % (i, A, B), '}']
        write(os.path.join(a.outdir, 'fung_pair_%d.cc' % i), '\n'.join(out) + '\n')
    idx = ['#include "fung_common.h"', 'namespace vk {']
    for k in range(a.parts):
        idx.append('std::vector<TypeOps> fung_part_%d();' % k)
    for i in range(len(pairs)):
        idx.append('PairTraits fung_pair_%d() __attribute__((weak));' % i)
    idx.append('std::vector<TypeOps> shard_types() { std::vector<TypeOps> v;')
    for k in range(a.parts):
        idx.append('  { auto p = fung_part_%d(); for (auto& t : p) v.push_back(std::move(t)); }' % k)
    idx.append('  return v; }')
    idx.append('struct PairDef { const char* a; const char* b; int expected; const char* rules; PairTraits (*traits)(); };')
    idx.append('std::vector<PairDef> fung_pairs() { return {')
    for i, (pa, pb, exp, rules) in enumerate(pairs):
        idx.append('  {"%s", "%s", %d, "%s", &fung_pair_%d},' % (pool.cpp(pa), pool.cpp(pb), exp, ','.join(rules), i))
    idx.append('}; }')
    idx.append('}')
    write(os.path.join(a.outdir, 'fung_index.cc'), '\n'.join(idx) + '\n')
    print('%d pairs, %d distinct types' % (len(pairs), len(names)))


if __name__ == '__main__':
    main()
