"""Driver: build cache, job runner, failure confirmation, known findings, evidence."""
import concurrent.futures as cf
import fcntl
import hashlib
import json
import os
import re
import shutil
import subprocess
import sys
import time

ROOT = os.path.dirname(os.path.dirname(os.path.abspath(__file__)))
REPO = os.environ.get('VERIF_REPO', '/repo')
CXX = os.environ.get('VERIF_CXX', 'clang++')
NCPU = int(os.environ.get('VERIF_JOBS', str(os.cpu_count() or 8)))

SAN = ['-fsanitize=address,undefined', '-fno-sanitize-recover=undefined']
COMMON = ['-std=gnu++17', '-g', '-I', REPO + '/include', '-I', ROOT, '-Wno-unused-command-line-argument']
RUN_ENV = {
    'ASAN_OPTIONS': 'exitcode=77:detect_leaks=1:max_allocation_size_mb=256:allocator_may_return_null=0:abort_on_error=0',
    'UBSAN_OPTIONS': 'print_stacktrace=1:exitcode=77:halt_on_error=1',
    'TSAN_OPTIONS': 'exitcode=77:halt_on_error=1:second_deadlock_stack=1',
    'LSAN_OPTIONS': 'exitcode=77',
}
CURATED_SHARDS = 8
RANDOM_SHARDS = 8
RANDOM_COUNT = 64

sys.path.insert(0, os.path.join(ROOT, 'verif'))
import props  # noqa: E402  (property table)


def log(*a):
    print(*a, file=sys.stderr, flush=True)


# ------------------------------------------------------------------------------------------------
# build cache

def tree_hash():
    h = hashlib.sha256()
    def add_file(p):
        h.update(p.encode()); h.update(b'\0')
        with open(p, 'rb') as f:
            h.update(f.read())
        h.update(b'\0')
    for base in (os.path.join(REPO, 'include'),):
        for d, ds, fs in sorted(os.walk(base)):
            ds.sort()
            for f in sorted(fs):
                add_file(os.path.join(d, f))
    for sub in ('kit', 'harness', 'verif'):
        p = os.path.join(ROOT, sub)
        for d, ds, fs in sorted(os.walk(p)):
            ds[:] = sorted(x for x in ds if x != '__pycache__')
            for f in sorted(fs):
                if f.endswith(('.h', '.cc', '.py')) and f not in ('driver.py', 'props.py'):
                    add_file(os.path.join(d, f))
    h.update(' '.join(SAN + COMMON).encode())
    return h.hexdigest()[:16]


class Builder:
    def __init__(self):
        self.key = tree_hash()
        self.dir = os.path.join(ROOT, 'build', self.key)
        os.makedirs(self.dir, exist_ok=True)
        os.utime(self.dir, None)
        os.makedirs(os.path.join(self.dir, 'logs'), exist_ok=True)
        self.lock = open(os.path.join(ROOT, 'build', '.lock'), 'w')

    def __enter__(self):
        fcntl.flock(self.lock, fcntl.LOCK_EX)
        return self

    def __exit__(self, *a):
        fcntl.flock(self.lock, fcntl.LOCK_UN)

    def evict(self):
        base = os.path.join(ROOT, 'build')
        ds = [d for d in os.listdir(base) if re.fullmatch(r'[0-9a-f]{16}', d) and d != self.key]
        ds.sort(key=lambda d: os.path.getmtime(os.path.join(base, d)), reverse=True)
        # keep the newest other tree and anything touched in the last 10 minutes: a run that is still
        # executing from a build directory touches it once a minute (see keep_alive)
        now = time.time()
        for d in ds[1:]:
            if now - os.path.getmtime(os.path.join(base, d)) > 600:
                shutil.rmtree(os.path.join(base, d), ignore_errors=True)

    def path(self, name):
        return os.path.join(self.dir, name)

    def keep_alive(self):
        """Touches the build directory once a minute for as long as this process lives, so that a concurrent
        run against another tree does not evict it."""
        import threading
        d = self.dir
        def loop():
            while True:
                try:
                    os.utime(d, None)
                except OSError:
                    return
                time.sleep(60)
        threading.Thread(target=loop, daemon=True).start()

    def compile_many(self, units, tolerate=False):
        """units: [(src, obj, flags)] -> compiles the missing ones in parallel. With tolerate=True a unit
        that does not compile is recorded (obj + '.failed') instead of failing the build."""
        todo = [u for u in units if not os.path.exists(u[1]) and not (tolerate and os.path.exists(u[1] + '.failed'))]
        if not todo:
            return True
        ok = True
        def one(u):
            src, obj, flags = u
            tmp = obj + '.tmp.o'
            cmd = [CXX] + COMMON + flags + ['-c', src, '-o', tmp]
            r = subprocess.run(cmd, capture_output=True, text=True)
            if r.returncode != 0:
                if tolerate:
                    open(obj + '.failed', 'w').write(r.stderr[-6000:])
                    return None
                return (src, r.stderr[-6000:])
            os.replace(tmp, obj)
            return None
        with cf.ThreadPoolExecutor(max_workers=NCPU) as ex:
            for res in ex.map(one, todo):
                if res:
                    ok = False
                    log('BUILD-FAILED %s\n%s' % res)
        return ok

    def link(self, objs, out, flags):
        if os.path.exists(out):
            return True
        cmd = [CXX] + flags + objs + ['-lrapidcheck', '-lpthread', '-o', out + '.tmp']
        r = subprocess.run(cmd, capture_output=True, text=True)
        if r.returncode != 0:
            log('LINK-FAILED %s\n%s' % (out, r.stderr[-4000:]))
            return False
        os.replace(out + '.tmp', out)
        return True

    # ---- targets ----
    def gen_pool(self, pool, seed):
        tag = pool if pool == 'curated' else 'random%d' % seed
        outdir = self.path('gen_' + tag)
        marker = os.path.join(outdir, '.done')
        n = CURATED_SHARDS if pool == 'curated' else RANDOM_SHARDS
        if not os.path.exists(marker):
            cmd = [sys.executable, os.path.join(ROOT, 'verif', 'gen_types.py'), '--pool', pool, '--seed', str(seed),
                   '--count', str(RANDOM_COUNT), '--nshards', str(n), '--outdir', outdir]
            r = subprocess.run(cmd, capture_output=True, text=True)
            if r.returncode != 0:
                log('GEN-FAILED', r.stderr)
                return None
            open(marker, 'w').write(r.stdout)
        return tag, outdir, n

    def build_codec(self, pool, seed, fuzz=False):
        g = self.gen_pool(pool, seed)
        if not g:
            return None
        tag, outdir, n = g
        san = SAN if not fuzz else ['-fsanitize=fuzzer-no-link,address,undefined', '-fno-sanitize-recover=undefined']
        sfx = '.fz' if fuzz else ''
        units = [(os.path.join(ROOT, 'kit', 'rcdrv.cc'), self.path('rcdrv.o'), SAN + ['-O1'])]
        common_objs = [self.path('rcdrv.o')]
        for f in ('codec_util', 'codec_props1', 'codec_props2') + (('codec_fuzz',) if fuzz else ('codec_main',)):
            obj = self.path(f + sfx + '.o')
            units.append((os.path.join(ROOT, 'harness', f + '.cc'), obj, san + ['-O1']))
            common_objs.append(obj)
        shard_objs = []
        for i in range(n):
            obj = os.path.join(outdir, 'shard_%02d%s.o' % (i, sfx))
            units.append((os.path.join(outdir, 'shard_%02d.cc' % i), obj, san + ['-O0']))
            shard_objs.append(obj)
        if not self.compile_many(units):
            return None
        bins = []
        lflags = SAN if not fuzz else ['-fsanitize=fuzzer,address,undefined']
        def lk(i):
            out = self.path('%s_%s_%02d' % ('fuzz' if fuzz else 'codec', tag, i))
            return out if self.link([shard_objs[i]] + common_objs, out, lflags) else None
        with cf.ThreadPoolExecutor(max_workers=NCPU) as ex:
            bins = list(ex.map(lk, range(n)))
        if any(b is None for b in bins):
            return None
        return bins

    def build_tables(self, seed, versions=16):
        outdir = self.path('tables_%d_%d' % (seed, versions))
        marker = os.path.join(outdir, '.done')
        parts = 4
        if not os.path.exists(marker):
            cmd = [sys.executable, os.path.join(ROOT, 'verif', 'gen_tables.py'), '--seed', str(seed), '--versions', str(versions),
                   '--parts', str(parts), '--outdir', outdir]
            r = subprocess.run(cmd, capture_output=True, text=True)
            if r.returncode != 0:
                log('GEN-FAILED', r.stderr)
                return None
            open(marker, 'w').write(r.stdout)
        inc = ['-I', outdir]
        units = [(os.path.join(ROOT, 'kit', 'rcdrv.cc'), self.path('rcdrv.o'), SAN + ['-O1'])]
        objs = [self.path('rcdrv.o')]
        for f in ('codec_util', 'codec_props1', 'codec_props2', 'tables'):
            obj = self.path(f + '.o')
            units.append((os.path.join(ROOT, 'harness', f + '.cc'), obj, SAN + ['-O1']))
            objs.append(obj)
        for k in list(range(parts)) + ['index']:
            name = 'tables_part_%s' % k if k != 'index' else 'tables_index'
            obj = os.path.join(outdir, name + '.o')
            units.append((os.path.join(outdir, name + '.cc'), obj, SAN + ['-O0'] + inc))
            objs.append(obj)
        if not self.compile_many(units):
            return None
        out = os.path.join(outdir, 'tables')
        return out if self.link(objs, out, SAN) else None

    def build_fungible(self, seed, count, depth):
        outdir = self.path('fung_%d_%d_%d' % (seed, count, depth))
        marker = os.path.join(outdir, '.done')
        parts = 8
        if not os.path.exists(marker):
            cmd = [sys.executable, os.path.join(ROOT, 'verif', 'gen_fungible.py'), '--seed', str(seed), '--count', str(count), '--depth', str(depth),
                   '--parts', str(parts), '--outdir', outdir]
            r = subprocess.run(cmd, capture_output=True, text=True)
            if r.returncode != 0:
                log('GEN-FAILED', r.stderr)
                return None
            open(marker, 'w').write(r.stdout)
        inc = ['-I', outdir]
        units = [(os.path.join(ROOT, 'kit', 'rcdrv.cc'), self.path('rcdrv.o'), SAN + ['-O1'])]
        objs = [self.path('rcdrv.o')]
        for f in ('codec_util', 'codec_props1', 'codec_props2', 'fungible'):
            obj = self.path(f + '.o')
            units.append((os.path.join(ROOT, 'harness', f + '.cc'), obj, SAN + ['-O1']))
            objs.append(obj)
        for k in list(range(parts)) + ['index']:
            name = 'fung_part_%s' % k if k != 'index' else 'fung_index'
            obj = os.path.join(outdir, name + '.o')
            units.append((os.path.join(outdir, name + '.cc'), obj, SAN + ['-O0'] + inc))
            objs.append(obj)
        if not self.compile_many(units):
            return None
        pair_units = []
        i = 0
        while os.path.exists(os.path.join(outdir, 'fung_pair_%d.cc' % i)):
            pair_units.append((os.path.join(outdir, 'fung_pair_%d.cc' % i), os.path.join(outdir, 'fung_pair_%d.o' % i), SAN + ['-O0'] + inc))
            i += 1
        self.compile_many(pair_units, tolerate=True)
        objs += [u[1] for u in pair_units if os.path.exists(u[1])]
        out = os.path.join(outdir, 'fungible')
        return out if self.link(objs, out, SAN) else None

    def build_rpc(self, seed, count):
        outdir = self.path('rpc_%d_%d' % (seed, count))
        marker = os.path.join(outdir, '.done')
        if not os.path.exists(marker):
            r = subprocess.run([sys.executable, os.path.join(ROOT, 'verif', 'gen_ifaces.py'), '--seed', str(seed), '--count', str(count), '--outdir', outdir],
                               capture_output=True, text=True)
            if r.returncode != 0:
                log('GEN-FAILED', r.stderr)
                return None
            open(marker, 'w').write(r.stdout)
        inc = ['-I', outdir]
        units = [(os.path.join(ROOT, 'kit', 'rcdrv.cc'), self.path('rcdrv.o'), SAN + ['-O1']),
                 (os.path.join(ROOT, 'harness', 'rpc.cc'), self.path('rpc.o'), SAN + ['-O1'])]
        objs = [self.path('rcdrv.o'), self.path('rpc.o')]
        for k in list(range(count)) + ['index']:
            name = 'rpc_iface_%s' % k if k != 'index' else 'rpc_index'
            obj = os.path.join(outdir, name + '.o')
            units.append((os.path.join(outdir, name + '.cc'), obj, SAN + ['-O0'] + inc))
            objs.append(obj)
        if not self.compile_many(units):
            return None
        out = os.path.join(outdir, 'rpc')
        return out if self.link(objs, out, SAN) else None

    def gen_consts(self, seed, count=40):
        outdir = self.path('consts_%d_%d' % (seed, count))
        hdr = os.path.join(outdir, 'gen_consts.h')
        if not os.path.exists(hdr):
            os.makedirs(outdir, exist_ok=True)
            r = subprocess.run([sys.executable, os.path.join(ROOT, 'verif', 'gen_consts.py'), '--seed', str(seed), '--count', str(count), '--out', hdr + '.tmp'],
                               capture_output=True, text=True)
            if r.returncode != 0:
                log('GEN-FAILED', r.stderr)
                return None
            os.replace(hdr + '.tmp', hdr)
        return outdir

    def build_siphash(self, seed, count=40):
        inc = self.gen_consts(seed, count)
        if not inc:
            return None
        name = 'siphash_%d_%d' % (seed, count)
        return self.build_single(name, os.path.join(ROOT, 'harness', 'siphash.cc'), SAN + ['-O1', '-I', inc])

    def build_single(self, name, src, flags, link_flags=None, gen=None):
        """A one-TU harness. flags: full sanitizer/opt flag list. gen: optional callable producing generated headers."""
        obj = self.path(name + '.o')
        units = [(os.path.join(ROOT, 'kit', 'rcdrv.cc'), self.path('rcdrv.o'), SAN + ['-O1']),
                 (src, obj, flags)]
        rc = self.path('rcdrv.o')
        if '-fsanitize=thread' in flags:
            rc = self.path('rcdrv.tsan.o')
            units[0] = (os.path.join(ROOT, 'kit', 'rcdrv.cc'), rc, ['-fsanitize=thread', '-O1'])
        elif not any(f.startswith('-fsanitize') for f in flags):
            rc = self.path('rcdrv.plain.o')
            units[0] = (os.path.join(ROOT, 'kit', 'rcdrv.cc'), rc, ['-O1'])
        if not self.compile_many(units):
            return None
        out = self.path(name)
        lf = link_flags if link_flags is not None else [f for f in flags if f.startswith('-fsanitize')]
        return out if self.link([obj, rc], out, lf) else None


# ------------------------------------------------------------------------------------------------
# running jobs

class Job:
    def __init__(self, target, binary, args, unit, timeout=3600, env=None, fuzz=False, replay_binary=None):
        self.target, self.binary, self.args, self.unit, self.timeout = target, binary, args, unit, timeout
        self.env = env or {}
        self.fuzz = fuzz                      # libFuzzer binary: different command line, report via FUZZ_REPORT
        self.replay_binary = replay_binary    # binary that replays this job's failures (default: the job's own)
        self.frag = None
        self.rc = None
        self.log = None
        self.wall = 0.0


def run_job(job, outdir):
    frag = os.path.join(outdir, job.unit + '.json')
    logp = os.path.join(outdir, job.unit + '.log')
    if os.path.exists(frag):
        os.remove(frag)
    env = dict(os.environ); env.update(RUN_ENV); env.update(job.env)
    argv = [job.binary] + job.args + ['--out', frag, '--unit', job.unit]
    if job.fuzz:
        corpus = os.path.join(outdir, job.unit + '_corpus')
        os.makedirs(corpus, exist_ok=True)
        env.update({'FUZZ_REPORT': frag, 'FUZZ_CORPUS': corpus})
        argv = [job.binary] + job.args + ['-artifact_prefix=' + os.path.join(outdir, job.unit + '_'), corpus]
    t0 = time.time()
    with open(logp, 'w') as lf:
        try:
            r = subprocess.run(argv, stdout=lf, stderr=subprocess.STDOUT,
                               env=env, timeout=job.timeout)
            job.rc = r.returncode
        except subprocess.TimeoutExpired:
            job.rc = 'timeout'
    job.wall = time.time() - t0
    job.log = logp
    if os.path.exists(frag):
        try:
            job.frag = json.load(open(frag))
        except Exception as e:  # noqa
            job.frag = None
    return job


def replay_once(binary, prop, path, env_extra=None):
    env = dict(os.environ); env.update(RUN_ENV); env.update(env_extra or {})
    try:
        r = subprocess.run([binary, '--prop', prop, '--replay', path], capture_output=True, text=True, env=env, timeout=600)
    except subprocess.TimeoutExpired:
        return 'timeout', ''
    if r.returncode == 0:
        return 'pass', r.stdout[-2000:]
    if r.returncode in (1, 77) or r.returncode < 0:
        return 'fail', (r.stdout + r.stderr)[-4000:]
    return 'error', (r.stdout + r.stderr)[-2000:]


def load_known():
    p = os.path.join(ROOT, 'known_findings.jsonl')
    out = []
    if os.path.exists(p):
        for l in open(p):
            l = l.strip()
            if l and not l.startswith('#'):
                out.append(json.loads(l))
    return out


def write_replay(prop, target, failure):
    d = os.path.join(ROOT, 'replays', prop)
    os.makedirs(d, exist_ok=True)
    text = failure.get('case', '')
    hid = hashlib.sha1((target + text).encode()).hexdigest()[:12]
    path = os.path.join(d, hid + '.case')
    with open(path, 'w') as f:
        f.write('# property=%s\n# target=%s\n# key=%s\n# message=%s\n' % (prop, target, failure.get('key', ''), failure.get('message', '').replace('\n', ' ')[:1500]))
        f.write(text + '\n')
    return path


# ------------------------------------------------------------------------------------------------

def resolve_binary(b, target, seed):
    """target: 'codec:curated:3' | 'codec:random:2' | 'fuzz:curated:1' | 'single:<name>'"""
    parts = target.split(':')
    if parts[0] in ('codec', 'fuzz'):
        bins = b.build_codec(parts[1], seed if parts[1] == 'random' else 1, fuzz=(parts[0] == 'fuzz'))
        return bins[int(parts[2])] if bins else None
    if parts[0] == 'rpc':
        return b.build_rpc(int(parts[1]), int(parts[2]))
    if parts[0] == 'siphash':
        return b.build_siphash(int(parts[1]), int(parts[2]))
    if parts[0] == 'fungible':
        return b.build_fungible(int(parts[1]), int(parts[2]), int(parts[3]))
    if parts[0] == 'tables':
        return b.build_tables(int(parts[1]), int(parts[2]))
    if parts[0] == 'single':
        spec = props.SINGLES[parts[1]]
        return b.build_single(parts[1], os.path.join(ROOT, spec['src']), spec['flags'], spec.get('link_flags'))
    return None


def main(argv):
    if not argv:
        print(__doc__); return 2
    seed = int(os.environ.get('VERIF_SEED', '1') or '1')
    if seed == 0:
        seed = 0x5eed
    if argv[0] == '--setup':
        with Builder() as b:
            ok = True
            ok &= b.build_codec('curated', 1) is not None
            for name, spec in props.SINGLES.items():
                if spec.get('setup', True):
                    ok &= b.build_single(name, os.path.join(ROOT, spec['src']), spec['flags'], spec.get('link_flags')) is not None
            for extra in props.SETUP_EXTRA:
                ok &= extra(b) is not None
            b.evict()
        print('setup', 'ok' if ok else 'FAILED')
        return 0 if ok else 2
    prop = argv[0]
    if prop not in props.PROPS:
        print('unknown property', prop); return 2
    P = props.PROPS[prop]
    if len(argv) >= 3 and argv[1] == '--replay':
        return do_replay(prop, P, argv[2], seed)
    tier = argv[1] if len(argv) > 1 else os.environ.get('VERIF_TIER', 'quick')
    if tier not in ('quick', 'thorough'):
        print('tier must be quick or thorough'); return 2
    return do_check(prop, P, tier, seed)


def read_replay_header(path):
    hdr = {}
    for l in open(path, errors='replace'):
        m = re.match(r'# (\w+)=(.*)', l.rstrip('\n'))
        if m:
            hdr[m.group(1)] = m.group(2)
    return hdr


def do_replay(prop, P, path, seed):
    hdr = read_replay_header(path)
    target = hdr.get('target') or P.get('default_target')
    with Builder() as b:
        if 'replay' in P:
            return P['replay'](b, path, hdr, seed)
        binary = resolve_binary(b, target, int(hdr.get('seed', seed)))
        others = []
        parts = target.split(':')
        if parts[0] in ('codec', 'fuzz'):
            others = b.build_codec(parts[1], int(hdr.get('seed', seed)) if parts[1] == 'random' else 1, fuzz=False) or []
    if not binary:
        print('BUILD-FAILED'); return 2
    res, out = replay_once(binary, prop, path)
    for ob in others:
        if 'type not in this shard' not in out:
            break
        res, out = replay_once(ob, prop, path)
    print(out)
    if res == 'fail':
        print('VIOLATION property=%s replay=%s' % (prop, os.path.abspath(path)))
        return 1
    return 0 if res == 'pass' else 2


def do_check(prop, P, tier, seed):
    t0 = time.time()
    with Builder() as b:
        b.keep_alive()
        jobs = P['jobs'](b, prop, tier, seed)
        b.evict()
    if jobs is None:
        print('BUILD-FAILED property=%s' % prop)
        return 2
    if tier == 'quick':
        for j in jobs:
            j.timeout = min(j.timeout, 1200)   # quick jobs finish in a minute or two; a hung one is cut off (INCOMPLETE)
    outdir = os.path.join(ROOT, 'build', 'run', '%s_%s_%d' % (prop, tier, os.getpid()))
    os.makedirs(outdir, exist_ok=True)
    with cf.ThreadPoolExecutor(max_workers=min(NCPU, max(1, len(jobs)))) as ex:
        jobs = list(ex.map(lambda j: run_job(j, outdir), jobs))

    incomplete = []
    failures = []   # (job, failure)
    # regression tier: every saved replay of this property is re-executed first
    saved = sorted(f for f in os.listdir(os.path.join(ROOT, 'replays', prop)) if f.endswith('.case')) if os.path.isdir(os.path.join(ROOT, 'replays', prop)) else []
    saved_run = 0
    by_target = {j.target: j for j in jobs}
    for fn in saved:
        path = os.path.join(ROOT, 'replays', prop, fn)
        hdr = read_replay_header(path)
        j = by_target.get(hdr.get('target'))
        if not j:
            continue
        res, out = replay_once(j.replay_binary or j.binary, prop, path, j.env)
        if 'type not in this shard' in out:
            # the type pool was extended since the case was saved and the type moved to another shard
            prefix = hdr.get('target', '').rsplit(':', 1)[0] + ':'
            for j2 in jobs:
                if j2.target.startswith(prefix) and j2 is not j and not j2.fuzz:
                    res, out = replay_once(j2.replay_binary or j2.binary, prop, path, j2.env)
                    if 'type not in this shard' not in out:
                        j = j2
                        break
        if 'type not in this shard' in out:
            incomplete.append('saved replay %s: its type is in no shard of %s' % (fn, hdr.get('target')))
            continue
        saved_run += 1
        if res == 'fail':
            case = [l for l in open(path, errors='replace') if not l.startswith('#')]
            failures.append((j, dict(message='saved replay %s fails again: %s' % (fn, out.strip().splitlines()[-1][:600] if out.strip() else ''), case=''.join(case).strip(), key=hdr.get('key', 'replay'))))
    agg = dict(evaluations=0, hashes=set(), labels={}, excluded={}, samples=[], notes={}, exhaustive=True, units=[])
    for j in jobs:
        f = j.frag
        if f is None:
            incomplete.append('%s: no report (rc=%s, log %s)' % (j.unit, j.rc, j.log))
            continue
        agg['evaluations'] += f.get('evaluations', 0)
        agg['hashes'].update(f.get('nontrivial_hashes', []))
        extra_nt = f.get('distinct_nontrivial', 0) - len(f.get('nontrivial_hashes', []))
        if extra_nt > 0:
            agg['extra_nt'] = agg.get('extra_nt', 0) + extra_nt
        for k, v in f.get('labels', {}).items():
            agg['labels'][k] = agg['labels'].get(k, 0) + v
        for k, v in f.get('excluded', {}).items():
            agg['excluded'][k] = agg['excluded'].get(k, 0) + v
        for s in f.get('samples', []):
            if len(agg['samples']) < 24:
                agg['samples'].append('[%s] %s' % (j.unit, s))
        agg['notes'].update({'%s.%s' % (j.unit, k): v for k, v in f.get('notes', {}).items()})
        agg['exhaustive'] &= bool(f.get('exhaustive', False))
        agg['units'].append(dict(unit=j.unit, target=j.target, rc=j.rc, wall_s=round(j.wall, 2), evaluations=f.get('evaluations', 0), status=f.get('status')))
        for fl in f.get('failures', []):
            if fl.get('key') == 'sanitizer':
                # attach the sanitizer's own summary from the job log
                try:
                    lines = [l.strip() for l in open(j.log, errors='replace') if 'SUMMARY:' in l or 'runtime error:' in l or l.startswith('==') and 'ERROR' in l]
                except OSError:
                    lines = []
                summ = ' | '.join(lines[:3])
                summ = re.sub(r'\(/[^)]*\)|\(BuildId: [0-9a-f]+\)|==\d+==', '', summ)
                fl['message'] = fl.get('message', '') + ' :: ' + summ
                m = re.search(r'(heap-buffer-overflow|stack-buffer-overflow|global-buffer-overflow|heap-use-after-free|allocation-size-too-big|out-of-memory|requested allocation size|SEGV|runtime error: [^|]{0,80}|leak|data race)', summ)
                fl['key'] = 'sanitizer|' + (m.group(1) if m else 'other')
            failures.append((j, fl))
        if j.rc == 77 and not f.get('failures'):
            # LeakSanitizer reports at process exit, after the report was written: attribute the leak to the unit as a whole
            try:
                logtxt = open(j.log, errors='replace').read()
            except OSError:
                logtxt = ''
            if 'LeakSanitizer: detected memory leaks' in logtxt:
                m = re.search(r'(Direct leak of[^\n]*\n(?:\s+#\d[^\n]*\n){1,8})', logtxt)
                frames = ' | '.join(x.strip() for x in (m.group(1).splitlines() if m else [])[:6])
                frames = re.sub(r'0x[0-9a-f]+ ', '', frames)
                leak_fail = dict(message='memory-leak: LeakSanitizer reported a leak at the end of unit %s :: %s' % (j.unit, frames[:900]), case='', key='sanitizer|leak', leaklog=j.log)
                failures.append((j, leak_fail))
                continue
        if j.rc not in (0, 1, 77) and not f.get('failures'):
            incomplete.append('%s: rc=%s without a recorded failure (log %s)' % (j.unit, j.rc, j.log))
        if f.get('status') == 'sanitizer-abort' and not f.get('failures'):
            incomplete.append('%s: sanitizer abort without case' % j.unit)

    known = [k for k in load_known() if k.get('kind') == 'known' and k.get('property') == prop]
    violations, known_hits, flaky = [], [], []
    seen_keys = set()
    for j, fl in failures:
        if fl.get('key') == 'harness':
            incomplete.append('%s: %s' % (j.unit, fl.get('message')))
            continue
        k = (j.target, fl.get('key'), fl.get('case'))
        if k in seen_keys:
            continue
        seen_keys.add(k)
        fl['_job'] = j
        path = write_replay(prop, j.target, fl)
        if fl.get('leaklog'):
            # not re-executable as a single case: the kept artefact is the sanitizer log of the unit
            shutil.copy(fl['leaklog'], path)
            violations.append((path, fl))
            continue
        if P.get('no_replay'):
            results = ['fail'] * 3
        else:
            results = [replay_once(j.replay_binary or j.binary, prop, path, j.env)[0] for _ in range(3)]
        if all(r == 'fail' for r in results):
            hit = None
            for kf in known:
                if re.search(kf['key_regex'], fl.get('key', '') + ' ' + fl.get('message', '')):
                    hit = kf
            if hit:
                known_hits.append((hit, path))
                try:
                    os.remove(path)
                except OSError:
                    pass
            else:
                violations.append((path, fl))
        elif all(r == 'pass' for r in results):
            flaky.append((path, fl, results))
        else:
            flaky.append((path, fl, results))

    # A failure that does not reproduce as a single case in a fresh process may still be real: state that the
    # code under test keeps between operations (a static / thread_local counter, a cache) makes the failure a
    # property of the HISTORY of the unit, not of its last case. The unit is a pure function of (binary, args,
    # seed), so it is run again twice as a whole; the failure is reported as a violation only if the same
    # failure key shows up in both re-runs (3 of 3 whole-unit runs). Otherwise it stays FLAKY.
    import copy
    still_flaky, rerun_cache = [], {}
    for path, fl, results in flaky:
        j = fl.get('_job')
        if j is None or j.fuzz or not all(r == 'pass' for r in results):
            still_flaky.append((path, fl, results))
            continue
        if id(j) not in rerun_cache:
            keys = []
            for n in (1, 2):
                j2 = copy.copy(j)
                j2.unit = '%s_again%d' % (j.unit, n)
                j2.frag = None
                run_job(j2, outdir)
                keys.append(set(x.get('key') for x in ((j2.frag or {}).get('failures') or [])))
            rerun_cache[id(j)] = keys
        keys = rerun_cache[id(j)]
        if all(fl.get('key') in ks for ks in keys):
            if not any(v[1].get('key') == fl.get('key') and v[1].get('_job') is j for v in violations):
                fl['message'] = ('history-dependent: the last case passes in a fresh process, but the whole unit (%s %s) fails the same way in 3 of 3 runs - '
                                 'state survives between operations :: ' % (os.path.basename(j.binary), ' '.join(j.args))) + fl.get('message', '')
                with open(path + '.history', 'w') as f:
                    f.write('history-dependent failure; reproduce with the whole unit: %s %s\n' % (j.binary, ' '.join(j.args)))
                violations.append((path, fl))
            else:
                try:
                    os.remove(path)
                except OSError:
                    pass
        else:
            still_flaky.append((path, fl, results))
    flaky = still_flaky

    wall = time.time() - t0
    nt = len(agg['hashes']) + agg.get('extra_nt', 0)
    ev = dict(property_id=prop, tier=tier, seed=seed, level=P['level'],
              coverage=dict(evaluations=agg['evaluations'], distinct_nontrivial=nt, rule=P['rule'], samples=agg['samples'] or ['(no samples recorded)'],
                            exhaustive=bool(agg['exhaustive'] and P.get('exhaustive', False)), labels=agg['labels'], excluded=agg['excluded'],
                            units=agg['units'], notes=agg['notes'], saved_replays_run=saved_run,
                            known_findings_hit=[k['desc'] for k, _ in known_hits], flaky=[f[1].get('message', '')[:200] for f in flaky],
                            incomplete=incomplete),
              assumptions=P.get('assumptions', []), wall_s=round(wall, 2), violations=len(violations))
    # VERIF_EVIDENCE_DIR: development only (the seeded-change audit runs against modified trees and must not
    # overwrite the evidence of the real tree)
    evdir = os.environ.get('VERIF_EVIDENCE_DIR', os.path.join(ROOT, 'evidence'))
    os.makedirs(evdir, exist_ok=True)
    with open(os.path.join(evdir, prop + '.json'), 'w') as f:
        json.dump(ev, f, indent=1)
    shutil.rmtree(outdir, ignore_errors=True) if not (violations or flaky or incomplete) else None

    printed = set()
    for k, _ in known_hits:
        if k['desc'] not in printed:
            printed.add(k['desc'])
            print('KNOWN-FINDING: property=%s %s' % (prop, k['desc']))
    for path, fl in violations:
        print('  %s' % fl.get('message', '')[:1200])
        print('VIOLATION property=%s replay=%s' % (prop, path))
    for path, fl, results in flaky:
        print('FLAKY property=%s replay=%s results=%s (not reported as a violation: the failure did not reproduce 3x) %s' % (prop, path, results, fl.get('message', '')[:300]))
    for i in incomplete:
        print('INCOMPLETE property=%s %s' % (prop, i))
    print('%s %s: %d evaluations, %d distinct non-trivial, %d violations, %.1fs' % (prop, tier, agg['evaluations'], nt, len(violations), wall))
    if violations:
        return 1
    if incomplete or flaky:
        return 2
    return 0
