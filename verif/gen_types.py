#!/usr/bin/env python3
"""Type-pool generator: a small AST of libnop protocol types, an emitter that produces C++
declarations + vk::Meta specialisations + the shard's type list, a curated pool and a seeded
random pool.  Stdlib only; output is a pure function of (pool name, seed, shard count)."""
import random
import sys

# ---------------------------------------------------------------------------------------------
# AST: plain tuples.
#   ('prim', cpp)                 bool char ints size_t float double
#   ('enum', name)                declared in ENUMS
#   ('str', chartype)
#   ('vec', T) ('arr', T, N) ('carr', T, N)
#   ('pair', A, B) ('tup', [T...]) ('map', K, V) ('umap', K, V)
#   ('ref', T)                    std::reference_wrapper<T> (top level only)
#   ('opt', T) ('res', enumname, T) ('var', [T...]) ('hnd', tag)
#   ('named', name)               struct / lbuf struct / wrapper / table declared in a Pool

ENUMS = {
    # name: (underlying, [(enumerator, value)])
    'EnU8': ('std::uint8_t', [('A', 0), ('B', 1), ('C', 200)]),
    'EnI8': ('std::int8_t', [('A', 0), ('B', -100), ('C', 100)]),
    'EnU16': ('std::uint16_t', [('A', 0), ('B', 300), ('C', 65535)]),
    'EnI16': ('std::int16_t', [('A', 0), ('B', -300)]),
    'EnU32': ('std::uint32_t', [('A', 0), ('B', 70000)]),
    'EnI32': ('std::int32_t', [('A', 0), ('B', -70000)]),
    'EnU64': ('std::uint64_t', [('A', 0), ('B', 5000000000)]),
    'EnI64': ('std::int64_t', [('A', 0), ('B', -5000000000)]),
    'EnChar': ('char', [('A', 0), ('B', 100), ('C', 233)]),   # plain char encodes as an unsigned byte whatever its signedness
    'ErrA': ('std::int32_t', [('None', 0), ('A', 1), ('B', -5), ('C', 300), ('D', 70000)]),
    'ErrB': ('std::uint8_t', [('None', 0), ('A', 1), ('B', 255)]),
    'ErrC': ('std::int64_t', [('None', 0), ('A', -1), ('B', 5000000000)]),
}

INTS = ['std::uint8_t', 'std::int8_t', 'std::uint16_t', 'std::int16_t', 'std::uint32_t', 'std::int32_t',
        'std::uint64_t', 'std::int64_t']
SIZE_TYPES = INTS + ['std::size_t']
CHARS = ['char', 'char16_t', 'char32_t', 'wchar_t']


def P(c): return ('prim', c)


def siphash24(data, k0, k1):
    """SipHash-2-4 (Aumasson & Bernstein), written from the paper."""
    M = 0xffffffffffffffff
    rotl = lambda x, b: ((x << b) | (x >> (64 - b))) & M
    v0 = k0 ^ 0x736f6d6570736575
    v1 = k1 ^ 0x646f72616e646f6d
    v2 = k0 ^ 0x6c7967656e657261
    v3 = k1 ^ 0x7465646279746573

    def rnd(v0, v1, v2, v3):
        v0 = (v0 + v1) & M; v1 = rotl(v1, 13); v1 ^= v0; v0 = rotl(v0, 32)
        v2 = (v2 + v3) & M; v3 = rotl(v3, 16); v3 ^= v2
        v0 = (v0 + v3) & M; v3 = rotl(v3, 21); v3 ^= v0
        v2 = (v2 + v1) & M; v1 = rotl(v1, 17); v1 ^= v2; v2 = rotl(v2, 32)
        return v0, v1, v2, v3
    n = len(data)
    for off in range(0, n - n % 8, 8):
        m = int.from_bytes(data[off:off + 8], 'little')
        v3 ^= m
        v0, v1, v2, v3 = rnd(v0, v1, v2, v3); v0, v1, v2, v3 = rnd(v0, v1, v2, v3)
        v0 ^= m
    b = ((n & 0xff) << 56) | int.from_bytes(data[n - n % 8:], 'little')
    v3 ^= b
    v0, v1, v2, v3 = rnd(v0, v1, v2, v3); v0, v1, v2, v3 = rnd(v0, v1, v2, v3)
    v0 ^= b
    v2 ^= 0xff
    for _ in range(4):
        v0, v1, v2, v3 = rnd(v0, v1, v2, v3)
    return (v0 ^ v1 ^ v2 ^ v3) & M


def is_integral(t):
    return t[0] == 'prim' and t[1] not in ('float', 'double')


class Pool:
    def __init__(self, ns):
        self.ns = ns
        self.named = {}      # name -> spec dict
        self.order = []      # declaration order
        self.types = []      # top-level (spelling-able) type ASTs
        self.counter = 0

    def fresh(self, prefix):
        self.counter += 1
        return '%s%d' % (prefix, self.counter)

    # ----- declarations of named types -----
    def struct(self, members, name=None, private=False, external=False):
        name = name or self.fresh('St')
        self.named[name] = dict(kind='struct', members=members, private=private, external=external)
        self.order.append(name)
        return ('named', name)

    def lbuf(self, elem, cap, size_type, storage='carr', before=None, after=None, unbounded=False, name=None,
             external=False):
        name = name or self.fresh('Lb')
        self.named[name] = dict(kind='lbuf', elem=elem, cap=cap, size_type=size_type, storage=storage,
                                before=before or [], after=after or [], unbounded=unbounded, external=external)
        self.order.append(name)
        return ('named', name)

    def wrapper(self, inner, name=None):
        name = name or self.fresh('Wr')
        self.named[name] = dict(kind='wrap', inner=inner)
        self.order.append(name)
        return ('named', name)

    def wrapper_lbuf(self, elem, cap, size_type, storage='arr', name=None):
        name = name or self.fresh('Wl')
        self.named[name] = dict(kind='wraplbuf', elem=elem, cap=cap, size_type=size_type, storage=storage)
        self.order.append(name)
        return ('named', name)

    def table(self, entries, hash_=None, ns_name=None, name=None, defaults=None):
        """entries: [(T, id, active)]; defaults: {id: C++ initialiser} for entries that are NOT empty in a
        default-constructed table"""
        name = name or self.fresh('Tb')
        self.named[name] = dict(kind='table', entries=entries, hash=hash_, ns_name=ns_name, defaults=defaults or {})
        self.order.append(name)
        return ('named', name)

    def add(self, t):
        self.types.append(t)
        return t

    # ----- properties -----
    def has(self, t, what):
        k = t[0]
        if k == 'prim':
            return what == 'float' and t[1] in ('float', 'double')
        if k in ('enum', 'str', 'tracked'):
            return False
        if k in ('hnd', 'filehnd'):
            return what == 'handle'
        if k in ('vec', 'opt', 'ref'):
            return self.has(t[1], what)
        if k in ('arr', 'carr'):
            return self.has(t[1], what)
        if k in ('pair', 'map', 'umap'):
            return self.has(t[1], what) or self.has(t[2], what)
        if k in ('tup', 'var'):
            return any(self.has(x, what) for x in t[1])
        if k == 'res':
            return self.has(t[2], what)
        if k == 'named':
            d = self.named[t[1]]
            if d['kind'] == 'struct':
                return any(self.has(m, what) for _, m in d['members'])
            if d['kind'] == 'lbuf':
                if what == 'unbounded' and d['unbounded']:
                    return True
                return self.has(d['elem'], what) or any(self.has(m, what) for _, m in d['before'] + d['after'])
            if d['kind'] == 'wrap':
                return self.has(d['inner'], what)
            if d['kind'] == 'wraplbuf':
                return self.has(d['elem'], what)
            if d['kind'] == 'table':
                return what == 'table' or any(self.has(e[0], what) for e in d['entries'])
        return False

    def starts(self, t):
        """Which of the ambiguous prefixes {nil, err} can an encoding of t start with."""
        k = t[0]
        if k == 'opt':
            return {'nil'} | self.starts(t[1])
        if k == 'res':
            return {'err'} | self.starts(t[2])
        if k == 'ref':
            return self.starts(t[1])
        if k == 'named':
            d = self.named[t[1]]
            if d['kind'] == 'wrap':
                return self.starts(d['inner'])
        return set()

    # ----- C++ spelling -----
    def cpp(self, t):
        k = t[0]
        q = self.ns + '::'
        if k == 'prim':
            return t[1]
        if k == 'enum':
            return q + t[1]
        if k == 'str':
            return 'std::basic_string<%s>' % t[1]
        if k == 'vec':
            return 'std::vector<%s>' % self.cpp(t[1])
        if k == 'arr':
            return 'std::array<%s, %d>' % (self.cpp(t[1]), t[2])
        if k == 'carr':
            return self.carr_decl(t, '')
        if k == 'pair':
            return 'std::pair<%s, %s>' % (self.cpp(t[1]), self.cpp(t[2]))
        if k == 'tup':
            return 'std::tuple<%s>' % ', '.join(self.cpp(x) for x in t[1])
        if k == 'map':
            return 'std::map<%s, %s>' % (self.cpp(t[1]), self.cpp(t[2]))
        if k == 'umap':
            return 'std::unordered_map<%s, %s>' % (self.cpp(t[1]), self.cpp(t[2]))
        if k == 'ref':
            return 'std::reference_wrapper<%s>' % self.cpp(t[1])
        if k == 'opt':
            return 'nop::Optional<%s>' % self.cpp(t[1])
        if k == 'res':
            return 'nop::Result<%s, %s>' % (q + t[1], self.cpp(t[2]))
        if k == 'var':
            return 'nop::Variant<%s>' % ', '.join(self.cpp(x) for x in t[1])
        if k == 'filehnd':
            return 'nop::FileHandle'   # the library's own policy (type tag 1)
        if k == 'hnd':
            return 'nop::Handle<vk::TestHandlePolicy<%d>>' % t[1]
        if k == 'tracked':
            return 'vk::Tracked<%d>' % t[1]
        if k == 'named':
            return q + t[1]
        raise ValueError(t)

    def carr_decl(self, t, ident):
        # C arrays need the declarator syntax: elem ident[N]
        dims = ''
        while t[0] == 'carr':
            dims += '[%d]' % t[2]
            t = t[1]
        return '%s %s%s' % (self.cpp(t), ident, dims) if ident else '%s%s' % (self.cpp(t), dims)

    def member_decl(self, t, ident):
        if t[0] == 'carr':
            return self.carr_decl(t, ident) + '{};'
        return '%s %s{};' % (self.cpp(t), ident)

    # ----- emission -----
    def used_enums(self):
        return list(ENUMS.keys())

    def emit_decls(self):
        out = []
        out.append('namespace %s {' % self.ns)
        for name, (und, items) in ENUMS.items():
            out.append('enum class %s : %s { %s };' % (name, und, ', '.join(
                '%s = %s' % (n, ('static_cast<char>(%d)' % v if und == 'char' else '%dll' % v if v < 0 else '%dull' % v)) for n, v in items)))
        post = []  # external annotations, emitted right after the type in the same namespace
        for name in self.order:
            d = self.named[name]
            k = d['kind']
            if k == 'struct':
                lines = ['struct %s {' % name]
                if d['private']:
                    lines[0] = 'class %s {' % name
                    lines.append('  friend struct ::vk::Meta<%s>;' % name)
                for mn, mt in d['members']:
                    lines.append('  ' + self.member_decl(mt, mn))
                names = ', '.join(mn for mn, _ in d['members'])
                if d['external']:
                    lines.append('};')
                    lines.append('NOP_EXTERNAL_STRUCTURE(%s%s);' % (name, (', ' + names) if names else ''))
                else:
                    lines.append('  NOP_STRUCTURE(%s%s);' % (name, (', ' + names) if names else ''))
                    lines.append('};')
                out += lines
            elif k == 'lbuf':
                lines = ['struct %s {' % name]
                for mn, mt in d['before']:
                    lines.append('  ' + self.member_decl(mt, mn))
                lines.append('  ' + self.lbuf_storage(d) + ';')
                lines.append('  %s count{};' % d['size_type'])
                for mn, mt in d['after']:
                    lines.append('  ' + self.member_decl(mt, mn))
                names = [mn for mn, _ in d['before']] + ['(data, count)'] + [mn for mn, _ in d['after']]
                if d['external']:
                    lines.append('};')
                    lines.append('NOP_EXTERNAL_STRUCTURE(%s, %s);' % (name, ', '.join(names)))
                    if d['unbounded']:
                        lines.append('NOP_EXTERNAL_UNBOUNDED_BUFFER(%s);' % name)
                else:
                    lines.append('  NOP_STRUCTURE(%s, %s);' % (name, ', '.join(names)))
                    if d['unbounded']:
                        lines.append('  NOP_UNBOUNDED_BUFFER(%s);' % name)
                    lines.append('};')
                out += lines
            elif k == 'wrap':
                out += ['struct %s {' % name, '  ' + self.member_decl(d['inner'], 'value'),
                        '  NOP_VALUE(%s, value);' % name, '};']
            elif k == 'wraplbuf':
                out += ['struct %s {' % name, '  ' + self.lbuf_storage(d) + ';', '  %s count{};' % d['size_type'],
                        '  NOP_VALUE(%s, (data, count));' % name, '};']
            elif k == 'table':
                lines = ['struct %s {' % name]
                names = []
                for i, (et, eid, active) in enumerate(d['entries']):
                    en = 'e%d' % i
                    names.append(en)
                    init = d.get('defaults', {}).get(eid)
                    lines.append('  nop::Entry<%s, %d%s> %s%s;' % (self.cpp(et), eid, '' if active else ', nop::DeletedEntry', en, ('{%s}' % init) if init else ''))
                if d['ns_name'] is not None:
                    lines.append('  NOP_TABLE_NS("%s", %s, %s);' % (d['ns_name'], name, ', '.join(names)))
                elif d['hash'] is not None:
                    lines.append('  NOP_TABLE_HASH(%dull, %s, %s);' % (d['hash'], name, ', '.join(names)))
                else:
                    lines.append('  NOP_TABLE(%s, %s);' % (name, ', '.join(names)))
                lines.append('};')
                out += lines
        out.append('}  // namespace %s' % self.ns)
        return '\n'.join(out)

    def lbuf_storage(self, d):
        if d['storage'] == 'carr':
            return '%s data[%d]{}' % (self.cpp(d['elem']), d['cap'])
        return 'std::array<%s, %d> data{}' % (self.cpp(d['elem']), d['cap'])

    def lbuf_buf_type(self, d):
        if d['storage'] == 'carr':
            return '%s[%d]' % (self.cpp(d['elem']), d['cap'])
        return 'std::array<%s, %d>' % (self.cpp(d['elem']), d['cap'])

    def emit_meta(self):
        out = ['namespace vk {']
        q = self.ns + '::'
        for name in self.order:
            d = self.named[name]
            k = d['kind']
            T = q + name
            if k in ('struct', 'lbuf'):
                if k == 'struct':
                    fields = [('m', mn, mt) for mn, mt in d['members']]
                else:
                    fields = [('m', mn, mt) for mn, mt in d['before']] + [('lb', 'data', None)] + \
                             [('m', mn, mt) for mn, mt in d['after']]
                flags = {w: self.has(('named', name), w) for w in ('handle', 'table', 'float')}
                lines = ['template <> struct Meta<%s> {' % T,
                         '  static constexpr bool kHandle = %s, kTable = %s, kFloat = %s;' % tuple(
                             'true' if flags[w] else 'false' for w in ('handle', 'table', 'float'))]
                if k == 'lbuf':
                    lines.append('  using LB = LBufMeta<%s, %s>;' % (self.lbuf_buf_type(d), d['size_type']))
                em = ['(size_t)0']
                sch, tov, frv = [], [], []
                for i, (fk, fn, ft) in enumerate(fields):
                    if fk == 'm':
                        mo = 'MetaOf<%s>' % self.cpp(ft)
                        em.append('%s::kElemMax' % mo)
                        sch.append('%s::schema()' % mo)
                        tov.append('v.kids.push_back(%s::to_value(x.%s));' % (mo, fn))
                        frv.append('%s::from_value(v.kids[%d], x.%s);' % (mo, i, fn))
                    else:
                        em.append('LB::kElemMax')
                        sch.append('LB::schema(%s)' % ('true' if d['unbounded'] else 'false'))
                        tov.append('v.kids.push_back(LB::to_value(x.data, x.count));')
                        frv.append('LB::from_value(v.kids[%d], x.data, x.count);' % i)
                lines.append('  static constexpr size_t kElemMax = cmax(%s);' % ', '.join(em))
                lines.append('  static SchemaP schema() { Schema s = *s_stu({%s}); s.label = "%s"; return mk(s); }' % (', '.join(sch), name))
                lines.append('  static Value to_value(const %s& x) { Value v; (void)x; %s return v; }' % (T, ' '.join(tov)))
                lines.append('  static void from_value(const Value& v, %s& x) { (void)v; (void)x; %s }' % (T, ' '.join(frv)))
                lines.append('};')
                out += lines
            elif k == 'wrap':
                mo = 'MetaOf<%s>' % self.cpp(d['inner'])
                out += ['template <> struct Meta<%s> {' % T,
                        '  static constexpr bool kHandle = %s::kHandle, kTable = %s::kTable, kFloat = %s::kFloat;' % (mo, mo, mo),
                        '  static constexpr size_t kElemMax = %s::kElemMax;' % mo,
                        '  static SchemaP schema() { return %s::schema(); }' % mo,
                        '  static Value to_value(const %s& x) { return %s::to_value(x.value); }' % (T, mo),
                        '  static void from_value(const Value& v, %s& x) { %s::from_value(v, x.value); }' % (T, mo),
                        '};']
            elif k == 'wraplbuf':
                lb = 'LBufMeta<%s, %s>' % (self.lbuf_buf_type(d), d['size_type'])
                fl = 'true' if self.has(d['elem'], 'float') else 'false'
                out += ['template <> struct Meta<%s> {' % T,
                        '  static constexpr bool kHandle = false, kTable = false, kFloat = %s;' % fl,
                        '  static constexpr size_t kElemMax = %s::kElemMax;' % lb,
                        '  static SchemaP schema() { return %s::schema(); }' % lb,
                        '  static Value to_value(const %s& x) { return %s::to_value(x.data, x.count); }' % (T, lb),
                        '  static void from_value(const Value& v, %s& x) { %s::from_value(v, x.data, x.count); }' % (T, lb),
                        '};']
            elif k == 'table':
                flags = {w: self.has(('named', name), w) for w in ('handle', 'float')}
                n = len(d['entries'])
                em = ['(size_t)0'] + ['MetaOf<%s>::kElemMax' % self.cpp(e[0]) for e in d['entries']]
                if d['ns_name'] is not None:
                    # independent SipHash-2-4 (computed here, in Python) over the name including its NUL terminator
                    hash_expr = '%dull' % siphash24(d['ns_name'].encode() + b'\0', 0xbaadf00ddeadbeef, 0x0123456789abcdef)
                else:
                    hash_expr = '%dull' % (d['hash'] or 0)
                lines = ['template <> struct Meta<%s> {' % T,
                         '  static constexpr bool kHandle = %s, kTable = true, kFloat = %s;' % (
                             'true' if flags['handle'] else 'false', 'true' if flags['float'] else 'false'),
                         '  static constexpr size_t kElemMax = cmax(%s);' % ', '.join(em),
                         '  // The hash is taken from the declaration text, not from the library\'s EntryList.',
                         '  static SchemaP schema() { Schema s = *s_tab(%s, {%s}); s.label = "%s"; return mk(s); }' % (
                             hash_expr, ', '.join('entry_schema((decltype(%s::e%d)*)nullptr)' % (T, i) for i in range(n)), name),
                         '  static Value to_value(const %s& x) { Value v; %s return v; }' % (
                             T, ' '.join('v.kids.push_back(entry_to_value(x.e%d));' % i for i in range(n))),
                         '  static void from_value(const Value& v, %s& x) { %s }' % (
                             T, ' '.join('entry_from_value(v.kids[%d], x.e%d);' % (i, i) for i in range(n))),
                         '};']
                out += lines
        out.append('}  // namespace vk')
        return '\n'.join(out)

    def cpp_member_type(self, t):
        return self.cpp(t)


# ---------------------------------------------------------------------------------------------
# Curated pool.

def curated():
    p = Pool('gt')
    A = p.add
    u8, i8, u16, i16, u32, i32, u64, i64 = [P(x) for x in INTS]
    sz = P('std::size_t')
    string = ('str', 'char')
    # scalars
    for c in ['bool', 'char', 'int', 'float', 'double', 'std::size_t'] + INTS:
        A(P(c))
    for e in ['EnU8', 'EnI8', 'EnU16', 'EnI16', 'EnU32', 'EnI32', 'EnU64', 'EnI64', 'EnChar']:
        A(('enum', e))
    A(('vec', ('enum', 'EnChar'))); A(p.struct([('e', ('enum', 'EnChar')), ('n', i8)], name='StEnChar'))
    for c in CHARS:
        A(('str', c))
    # integral sequences (BIN)
    A(('vec', u8)); A(('vec', i16)); A(('vec', u32)); A(('vec', i64)); A(('vec', P('char')))
    A(('arr', u8, 1)); A(('arr', i32, 3)); A(('arr', u16, 200)); A(('carr', u64, 3)); A(('carr', i8, 1)); A(('carr', u16, 200))
    # arrays of bool are integral arrays too (BIN); std::vector<bool> is not a contiguous container and is not supported
    A(('arr', P('bool'), 4)); A(p.struct([('flags', ('carr', P('bool'), 3)), ('n', u8)], name='StBools'))
    A(p.lbuf(P('bool'), 5, 'std::uint8_t', storage='arr', name='LbBool'))
    # non-integral sequences (ARY)
    A(('vec', string)); A(('vec', P('float'))); A(('vec', ('enum', 'EnI16'))); A(('vec', ('vec', u8)))
    A(('arr', string, 3)); A(('arr', P('double'), 1)); A(('carr', string, 3)); A(('arr', ('pair', u8, string), 3))
    A(('vec', ('vec', ('vec', i32))))
    A(('vec', ('arr', u16, 3)))
    # a plain char array on its own (not to be mistaken for a C string) and logical buffers whose capacity is the
    # largest count their size member can express
    A(('carr', P('char'), 4)); A(('carr', P('char'), 1))
    A(p.lbuf(u8, 255, 'std::uint8_t', storage='carr', name='LbFullU8')); A(p.lbuf(u16, 127, 'std::int8_t', storage='arr', name='LbFullI8'))
    # arrays of enums (ARY of variable-width integers), a structure with more members than a fixint can count
    A(('arr', ('enum', 'EnU32'), 3)); A(('carr', ('enum', 'EnI16'), 4)); A(('arr', ('enum', 'EnI64'), 2))
    A(p.struct([('m%d' % i, u8 if i % 7 else u16) for i in range(130)], name='StWide130'))
    # a tuple with more elements than a fixint can count, a Variant whose last alternatives have an index that
    # needs the I16 class (alternatives are distinct array types so that every index is a different type)
    A(('tup', [u8 if i % 5 else u16 for i in range(130)]))
    A(('var', [('arr', u8, n + 1) for n in range(130)]))
    # zero-length std::array (a legal type: BIN / ARY with length 0)
    A(('arr', u8, 0)); A(('arr', u32, 0)); A(('arr', string, 0)); A(p.struct([('z', ('arr', u16, 0)), ('n', u8), ('e', ('arr', ('pair', u8, u8), 0))], name='StZeroArr'))
    # wide strings FOLLOWED by further members (the string decoder ensures characters and reads bytes)
    A(p.struct([('s', ('str', 'char16_t')), ('n', u64), ('v', ('vec', u16))], name='StWide16'))
    A(('pair', ('str', 'char32_t'), u64)); A(('tup', [('str', 'wchar_t'), i32, ('str', 'char16_t'), u8]))
    # arrays nested in arrays (outer ARY of inner BIN / ARY), as structure members and on their own
    A(p.struct([('m', ('carr', ('carr', i16, 3), 2)), ('s', ('arr', ('arr', string, 2), 2)), ('t', u8)], name='StNest'))
    A(('arr', ('carr', u32, 2), 3)); A(p.lbuf(('arr', u8, 2), 3, 'std::uint8_t', storage='carr', name='LbOfArr'))
    # pair / tuple
    A(('pair', i32, string)); A(('pair', ('vec', u8), ('pair', P('bool'), P('double'))))
    A(('tup', [])); A(('tup', [u64])); A(('tup', [i8, string, ('vec', i16), P('float'), ('enum', 'EnU32')]))
    # maps
    A(('map', i32, string)); A(('umap', string, u64)); A(('map', string, ('vec', ('pair', i16, i16))))
    A(('umap', u16, ('map', ('enum', 'EnI8'), string))); A(('map', ('pair', i32, i32), P('bool')))
    A(('map', u64, ('opt', string)))
    # reference_wrapper
    A(('ref', i32)); A(('ref', ('vec', string)))
    # Optional / Result / Variant
    A(('opt', ('opt', u8))); A(('opt', ('opt', string))); A(('vec', ('opt', ('opt', i16)))); A(p.struct([('a', ('opt', ('opt', ('vec', u8)))), ('b', u8)], name='StOptOpt'))
    A(('opt', i32)); A(('opt', string)); A(('opt', ('vec', u16))); A(('opt', ('arr', u64, 200)))
    A(('res', 'ErrA', i32)); A(('res', 'ErrB', string)); A(('res', 'ErrC', ('vec', ('pair', u8, P('float')))))
    A(('res', 'ErrA', ('opt', u8))); A(('opt', ('res', 'ErrB', u16)))
    A(('var', [i32, string])); A(('var', [P('bool'), ('vec', u8), P('double'), ('pair', i8, i8)]))
    A(('var', [('opt', i64), ('var', [u8, string])])); A(('var', [u8]))
    # structures
    s0 = A(p.struct([], name='Empty'))
    s1 = A(p.struct([('a', i32)], name='One'))
    s3 = A(p.struct([('a', u8), ('b', string), ('c', ('vec', i32)), ('d', ('opt', P('double'))), ('e', ('enum', 'EnU16'))], name='Many'))
    sp = A(p.struct([('x', i64), ('y', ('vec', string))], name='Priv', private=True))
    se = A(p.struct([('a', P('float')), ('b', ('carr', u16, 4)), ('c', string)], name='Ext', external=True))
    sn = A(p.struct([('inner', s3), ('list', ('vec', s1)), ('m', ('map', u8, s1))], name='Nest'))
    A(('vec', s3)); A(('opt', s1)); A(('var', [s1, s0, string]))
    # logical buffers: every integral size member type, element sizes 1/2/4/8, non-integral elements
    for i, stp in enumerate(SIZE_TYPES):
        elem = [u8, u16, u32, u64, i8, i16, i32, i64, u32][i]
        cap = [100, 100, 100, 5, 20, 40, 100, 7, 100][i]
        A(p.lbuf(elem, cap, stp, storage='carr' if i % 2 == 0 else 'arr', name='LbI_%s' % stp.replace('std::', '').replace('_t', '')))
    A(p.lbuf(string, 4, 'std::uint8_t', storage='arr', name='LbStr'))
    A(p.lbuf(('pair', i32, P('float')), 5, 'std::int32_t', storage='carr', name='LbPair'))
    A(p.lbuf(u8, 16, 'std::size_t', storage='carr', before=[('id', u32)], after=[('tail', string)], name='LbMid'))
    A(p.lbuf(u16, 3, 'std::uint32_t', storage='arr', name='LbExt', external=True))
    A(p.lbuf(s1, 3, 'std::uint16_t', storage='arr', name='LbStruct'))
    A(p.lbuf(u32, 1, 'std::size_t', storage='carr', unbounded=False, name='LbOne'))
    A(('vec', ('named', 'LbI_uint8')))
    # value wrappers
    w1 = A(p.wrapper(i32, name='WrInt')); A(p.wrapper(string, name='WrStr')); A(p.wrapper(('vec', u16), name='WrVec'))
    A(p.wrapper(s3, name='WrStruct')); A(p.wrapper_lbuf(u8, 10, 'std::size_t', name='WrLbuf'))
    A(p.wrapper_lbuf(P('float'), 4, 'std::uint8_t', storage='carr', name='WrLbufF'))
    A(('vec', w1)); A(('opt', w1)); A(('map', u8, w1)); A(p.wrapper(('opt', u8), name='WrOpt'))
    # tables
    t1 = A(p.table([(i32, 1, True), (string, 2, True)], name='TbSimple'))
    t2 = A(p.table([(u64, 5, True), (('vec', string), 300, True), (P('double'), 7, False), (s3, 70000, True)], ns_name='verif.TbNs', name='TbNs'))
    t3 = A(p.table([(t1, 1, True), (('vec', t1), 2, True), (('opt', u8), 3, True)], hash_=0x123456789abcdef, name='TbNest'))
    A(p.table([(u8, 0, False)], name='TbAllDeleted'))
    A(p.struct([('t', t1), ('after', u16)], name='StWithTable'))
    A(('vec', t2)); A(('opt', t1)); A(('var', [t1, i32])); A(('map', u8, t1)); A(('res', 'ErrA', t1))
    # handles
    h0 = ('hnd', 0); h1 = ('hnd', 1); h300 = ('hnd', 300)
    A(h0); A(h300)
    A(p.struct([('a', u8), ('h', h1), ('b', string)], name='StHandle'))
    A(('vec', h1)); A(('opt', h0)); A(('var', [h1, i32])); A(('pair', h0, h300)); A(('map', u8, h1))
    # lifetime-tracking elements (C11)
    tr = ('tracked', 1)
    A(('vec', tr)); A(('opt', tr)); A(('var', [tr, i32, ('tracked', 2)])); A(('map', u8, tr)); A(('res', 'ErrA', tr))
    A(('arr', tr, 2)); A(('pair', tr, ('vec', tr)))
    A(p.table([(tr, 1, True), (('vec', tr), 2, True), (u8, 3, True)], name='TbTracked'))
    A(p.lbuf(tr, 3, 'std::uint8_t', storage='arr', name='LbTracked'))
    A(p.struct([('a', tr), ('o', ('opt', tr)), ('v', ('var', [string, tr]))], name='StTracked'))
    th = A(p.table([(h1, 1, True), (string, 2, True), (('vec', h0), 3, True)], name='TbHandle'))
    A(p.table([(th, 9, True), (('named', 'StHandle'), 10, True)], hash_=77, name='TbHandleNest'))
    # handles whose type tag needs more than one byte, as the LAST thing of a table entry (bare, as the last member
    # of a structure, in an optional, as the only element of a vector)
    hbig = ('hnd', 70000)
    # a table whose default-constructed state is not 'all entries empty'
    A(p.table([(u32, 1, True), (string, 2, True), (u8, 3, True)], hash_=80, name='TbDefaulted', defaults={1: '1000u', 2: '"dflt"'}))
    fh = ('filehnd',)
    A(fh); A(('vec', fh)); A(p.struct([('n', u8), ('h', fh), ('s', string)], name='StFileHandle')); A(p.table([(fh, 1, True), (('vec', fh), 2, True)], hash_=79, name='TbFileHandle'))
    A(p.table([(h300, 1, True), (p.struct([('n', u8), ('h', h300)], name='StTailHandle'), 2, True), (('opt', hbig), 3, True), (('vec', hbig), 4, True)],
              hash_=78, name='TbBigTagHandles'))
    return p


# ---------------------------------------------------------------------------------------------
# Random pool.

class RandomTypes:
    def __init__(self, seed, pool):
        self.r = random.Random(seed)
        self.p = pool

    def scalar(self):
        r = self.r
        c = r.randrange(10)
        if c < 6:
            return P(r.choice(INTS + ['bool', 'char', 'std::size_t', 'int']))
        if c < 7:
            return P(r.choice(['float', 'double']))
        if c < 8:
            return ('enum', r.choice(['EnU8', 'EnI8', 'EnU16', 'EnI16', 'EnU32', 'EnI32', 'EnU64', 'EnI64']))
        return ('str', r.choice(CHARS))

    def key(self):
        r = self.r
        c = r.randrange(4)
        if c == 0:
            return ('str', 'char')
        if c == 1:
            return ('enum', r.choice(['EnU8', 'EnI16', 'EnU32']))
        return P(r.choice(INTS))

    def elem_ok_for_bin(self, t):
        return not (t[0] == 'prim' and t[1] == 'bool')

    def gen(self, depth, allow_handle=True, allow_table=True):
        r = self.r
        p = self.p
        if depth <= 0:
            return self.scalar()
        c = r.randrange(20)
        sub = lambda: self.gen(depth - 1, allow_handle, allow_table)
        def elem():
            for _ in range(10):
                t = sub()
                if self.elem_ok_for_bin(t) and t[0] not in ('carr', 'ref'):
                    return t
            return P('std::int32_t')
        if c == 0:
            return self.scalar()
        if c == 1:
            return ('vec', elem())
        if c == 2:
            return ('arr', elem(), r.choice([1, 2, 3, 5]))
        if c == 3:
            return ('pair', elem(), elem())
        if c == 4:
            return ('tup', [elem() for _ in range(r.randrange(0, 4))])
        if c == 5:
            return ('map', self.key(), elem())
        if c == 6:
            return ('umap', self.key(), elem())
        if c == 7:
            for _ in range(10):
                t = elem()
                if 'nil' not in p.starts(t):
                    return ('opt', t)
            return ('opt', P('std::int32_t'))
        if c == 8:
            for _ in range(10):
                t = elem()
                if 'err' not in p.starts(t):
                    return ('res', r.choice(['ErrA', 'ErrB', 'ErrC']), t)
            return ('res', 'ErrA', P('std::int32_t'))
        if c == 9:
            alts, seen = [], set()
            for _ in range(r.randrange(1, 4)):
                t = elem()
                s = p.cpp(t)
                if s not in seen:
                    seen.add(s); alts.append(t)
            return ('var', alts)
        if c in (10, 11):
            members = []
            for i in range(r.randrange(0, 5)):
                t = sub()
                if t[0] == 'ref':
                    t = P('std::int32_t')
                if not self.elem_ok_for_bin(t) and False:
                    pass
                members.append(('m%d' % i, t))
            if r.randrange(3) == 0 and members:
                members.append(('ca', ('carr', P(r.choice(INTS)), r.choice([1, 2, 4]))))
            return p.struct(members, private=(r.randrange(4) == 0))
        if c == 12:
            e = elem()
            cap = r.choice([1, 2, 3, 8, 100])
            return p.lbuf(e, cap, r.choice(SIZE_TYPES), storage=r.choice(['arr', 'carr']),
                          before=[('b0', self.scalar())] if r.randrange(2) else [],
                          after=[('a0', self.scalar())] if r.randrange(2) else [])
        if c == 13:
            for _ in range(10):
                t = elem()
                return p.wrapper(t)
        if c == 14:
            return p.wrapper_lbuf(P(r.choice(INTS + ['float'])), r.choice([1, 4, 50]), r.choice(SIZE_TYPES),
                                  storage=r.choice(['arr', 'carr']))
        if c in (15, 16) and allow_table:
            ents, ids = [], set()
            for _ in range(r.randrange(1, 5)):
                i = r.choice([0, 1, 2, 3, 127, 128, 255, 256, 65536, 2 ** 40])
                if i in ids:
                    continue
                ids.add(i)
                ents.append((elem(), i, r.randrange(5) != 0))
            mode = r.randrange(3)
            if mode == 0:
                return p.table(ents)
            if mode == 1:
                return p.table(ents, hash_=r.choice([1, 127, 128, 0xffff, 2 ** 63, 2 ** 64 - 1]))
            return p.table(ents, ns_name='rnd.%d' % r.randrange(1000))
        if c == 17 and allow_handle:
            return ('hnd', r.choice([0, 1, 200, 70000]))
        return self.scalar()


def random_pool(seed, count):
    p = Pool('gr')
    g = RandomTypes(seed, p)
    n = 0
    tries = 0
    while n < count and tries < count * 20:
        tries += 1
        t = g.gen(g.r.choice([1, 2, 2, 3, 3, 4]))
        if t[0] == 'prim' and t[1] == 'bool' and False:
            continue
        p.add(t)
        n += 1
    return p


# ---------------------------------------------------------------------------------------------

def emit_shard(pool, types, shard_index, nshards, want_decls=True):
    out = ['// generated by verif/gen_types.py -- do not edit',
           '#include "kit/typeops.h"',
           '#include <nop/utility/sip_hash.h>', '']
    out.append(pool.emit_decls())
    out.append(pool.emit_meta())
    out.append('namespace vk {')
    out.append('std::vector<TypeOps> shard_types() {')
    out.append('  std::vector<TypeOps> v;')
    for t in types:
        spelling = pool.cpp(t)
        unb = 'true' if pool.has(t, 'unbounded') else 'false'
        out.append('  v.push_back(make_ops<%s>("%s", %s));' % (spelling, spelling.replace('"', '\\"'), unb))
    out.append('  return v;')
    out.append('}')
    out.append('}  // namespace vk')
    return '\n'.join(out) + '\n'


def build_pool(name, seed, count):
    if name == 'curated':
        return curated()
    if name == 'random':
        return random_pool(seed, count)
    raise SystemExit('unknown pool ' + name)


def shard_split(types, nshards):
    shards = [[] for _ in range(nshards)]
    for i, t in enumerate(types):
        shards[i % nshards].append(t)
    return shards


def main():
    import argparse
    ap = argparse.ArgumentParser()
    ap.add_argument('--pool', default='curated')
    ap.add_argument('--seed', type=int, default=1)
    ap.add_argument('--count', type=int, default=40)
    ap.add_argument('--nshards', type=int, default=8)
    ap.add_argument('--outdir', required=True)
    ap.add_argument('--prefix', default='shard')
    a = ap.parse_args()
    pool = build_pool(a.pool, a.seed, a.count)
    import os
    os.makedirs(a.outdir, exist_ok=True)
    shards = shard_split(pool.types, a.nshards)
    for i, ts in enumerate(shards):
        path = os.path.join(a.outdir, '%s_%02d.cc' % (a.prefix, i))
        text = emit_shard(pool, ts, i, a.nshards)
        old = open(path).read() if os.path.exists(path) else None
        if old != text:
            open(path, 'w').write(text)
    print('%d types in %d shards' % (len(pool.types), a.nshards))


if __name__ == '__main__':
    main()
