#!/usr/bin/env python3
"""Generator for property C18 (harness/siphash.cc).

    python3 verif/gen_consts.py --seed N --count K --out <dir>/gen_consts.h

Emits a header with K tables declared through NOP_TABLE_NS("name", ...), K interfaces declared
through NOP_INTERFACE("name") and K through NOP_INTERFACE32("name"), each with 1..4 NOP_METHOD
declarations, all with seed-dependent names, together with the EXPECTED hash / selector values
computed here by an independent Python SipHash-2-4 (gen_types.siphash24, written from the paper).

The SipHash keys are pinned below as literals on purpose: the property is about the values that
independently built peers agree on, so the expectation must not follow the library headers.

The harness reads the declarations through three X-macro lists:
    GEN_TABLES(X)      X(index, gc::Type, "name", non_ascii, expected_hash)
    GEN_INTERFACES(X)  X(index, gc::Type, selector_bits, "name", non_ascii, expected_hash)
    GEN_METHODS(X)     X(interface_index, gc::Type, selector_bits, Method, "Method", expected_selector, interface_non_ascii)
Stdlib only.
"""
import argparse
import os
import random
import sys

sys.path.insert(0, os.path.dirname(os.path.abspath(__file__)))
from gen_types import siphash24  # noqa: E402  (independent SipHash-2-4, written from the paper)

TABLE_K0 = 0xbaadf00ddeadbeef
TABLE_K1 = 0x0123456789abcdef
IFACE_K0 = 0xdeadcafebaadf00d
IFACE_K1 = 0x0123456789abcdef

# A few official SipHash-2-4 vectors (key 00..0f, message 00..n-1) to make sure the imported
# function is the one we think it is.
OFFICIAL = {0: 0x726fdb47dd0e0e31, 1: 0x74f839c593dc67fd, 7: 0xab0200f58b01d137, 8: 0x93f5f5799a932462,
            15: 0xa129ca6149be45e5, 63: 0x958a324ceb064572}


def self_check():
    k0, k1 = 0x0706050403020100, 0x0f0e0d0c0b0a0908
    for n, want in OFFICIAL.items():
        got = siphash24(bytes(range(n)), k0, k1)
        if got != want:
            sys.exit('gen_consts.py: siphash24 self-check failed for length %d: %#x != %#x' % (n, got, want))


WORDS = ['alpha', 'beta', 'gamma', 'delta', 'omega', 'net', 'core', 'data', 'proto', 'msg', 'rpc', 'svc', 'util',
         'eieio', 'example', 'sensor', 'store', 'index', 'v1', 'v2', 'x', 'y', 'libnop', 'audio', 'gfx']
CAPS = ['Table', 'Header', 'Record', 'Config', 'Interface', 'Service', 'Client', 'Y', 'X', 'Node', 'Frame',
        'Request', 'Reply', 'Manager', 'State', 'Info']
TLD = ['io.github', 'com.example', 'org.project', 'net', 'dev.local', 'io']

PRINTABLE = [chr(c) for c in range(0x20, 0x7f) if chr(c) not in '"\\']
# Forced lengths for the first printable names so that every residue of (length + NUL) mod 8 and
# the block boundaries are always present whatever the seed.
FORCED_LEN = [0, 64, 1, 130, 63, 65, 254, 6, 7, 8, 9, 14, 15, 16, 17, 2, 3, 4, 5, 23, 24, 31, 32, 39, 40]   # 0: the empty name (one NUL is hashed)

UTF8_RANGES = [(0xa1, 0xff), (0x100, 0x17f), (0x391, 0x3c9), (0x410, 0x44f), (0x5d0, 0x5ea),
               (0x3041, 0x3093), (0x4e00, 0x4fff), (0xac00, 0xacff), (0x1f600, 0x1f64f), (0x1d400, 0x1d433)]

KEYWORDS = set('''alignas alignof and and_eq asm auto bitand bitor bool break case catch char char16_t char32_t class
compl const constexpr const_cast continue decltype default delete do double dynamic_cast else enum explicit export
extern false float for friend goto if inline int long mutable namespace new noexcept not not_eq nullptr operator or
or_eq private protected public register reinterpret_cast return short signed sizeof static static_assert static_cast
struct switch template this thread_local throw true try typedef typeid typename union unsigned using virtual void
volatile wchar_t while xor xor_eq'''.split())
RESERVED = {'BASE', 'GetInterfaceHash', 'GetInterfaceName', 'GetMethodSelector', 'NOP__INTERFACE',
            'NOP__INTERFACE_API', 'Hash', 'MethodSelector', 'GetName', 'Interface', 'InterfaceAPI'}

ENTRY_TYPES = ['int', 'std::string', 'std::uint64_t', 'float', 'std::vector<int>', 'bool', 'std::int8_t',
               'double', 'std::vector<std::string>', 'std::array<std::uint8_t, 4>', 'char']
SIGNATURES = ['void()', 'int(int)', 'float(float, float)', 'std::string(const std::string&)', 'void(std::uint64_t, bool)',
              'std::vector<int>(std::uint32_t)', 'bool(const std::vector<std::string>&, int)', 'double(double)',
              'std::uint64_t()', 'void(const std::string&, const std::string&)']


def printable_name(rng, length):
    out = []
    while len(out) < length:
        c = rng.choice(PRINTABLE)
        if c == '?' and out and out[-1] == '?':   # never emit a trigraph introducer
            continue
        out.append(c)
    return ''.join(out).encode('ascii')


def dotted_name(rng):
    for _ in range(100):
        parts = [rng.choice(TLD)] + [rng.choice(WORDS) for _ in range(rng.randrange(0, 4))]
        last = rng.choice(CAPS) + (rng.choice(CAPS) if rng.randrange(2) else '') + (str(rng.randrange(100)) if rng.randrange(3) == 0 else '')
        s = '.'.join(parts + [last])
        if 1 <= len(s) <= 40:
            return s.encode('ascii')
    return b'io.github.x.Y'


def utf8_name(rng):
    for _ in range(100):
        s = ''
        budget = rng.randrange(2, 41)
        while True:
            if rng.randrange(3) == 0:
                ch = rng.choice('abcdefXYZ.09_ ')
            else:
                lo, hi = rng.choice(UTF8_RANGES)
                ch = chr(rng.randrange(lo, hi + 1))
            if len((s + ch).encode('utf-8')) > budget:
                break
            s += ch
        b = s.encode('utf-8')
        if 1 <= len(b) <= 40 and any(x >= 0x80 for x in b):
            return b
    return 'caf\u00e9'.encode('utf-8')


def make_name(rng, index, forced):
    """index-driven category so that every category is present for any K >= 4."""
    cat = index % 4
    if index == 1:
        return b'io.github.x.Y'
    if index == 9:
        return b'\x00abc'   # a name whose first byte is NUL
    if cat == 1:
        return dotted_name(rng)
    if cat == 2:
        return utf8_name(rng)
    if forced:
        return printable_name(rng, forced.pop(0))
    return printable_name(rng, rng.randrange(1, 41))


def c_literal(b):
    """C string literal for the bytes b: printable ASCII verbatim, everything else as \\xHH, with the
    literal split after an escape when a hex digit follows."""
    out = ['"']
    after_escape = False
    for x in b:
        ch = chr(x)
        if 0x20 <= x < 0x7f and ch not in '"\\':
            if after_escape and ch in '0123456789abcdefABCDEF':
                out.append('" "')
            out.append(ch)
            after_escape = False
        else:
            out.append('\\x%02x' % x)
            after_escape = True
    out.append('"')
    return ''.join(out)


def method_name(rng, taken):
    first = 'ABCDEFGHJKLMNOPQRSTUVWXYZabcdefghijklmnopqrstuvwxyz'
    rest = 'ABCDEFGHIJKLMNOPQRSTUVWXYZabcdefghijklmnopqrstuvwxyz0123456789_'
    while True:
        style = rng.randrange(4)
        if style == 0:
            n = rng.choice(CAPS) + rng.choice(CAPS) + (str(rng.randrange(10)) if rng.randrange(2) else '')
        elif style == 1:
            n = rng.choice('ABCDEFGHJKLMNOPQRSTUVWXYZ')          # one-letter name (not I: <complex.h>)
        else:
            ln = rng.choice([2, 3, 6, 7, 8, 9, 14, 15, 16, 17, 24, 30]) if style == 2 else rng.randrange(2, 31)
            n = rng.choice(first) + ''.join(rng.choice(rest) for _ in range(ln - 1))
        if len(n) >= 2 and not (any(c.islower() for c in n) and any(c.isupper() for c in n)):
            continue      # mixed case keeps clear of keywords and of libc / predefined macros (linux, unix, EOF...)
        if '__' in n or n in KEYWORDS or n in RESERVED or n in taken:
            continue
        return n


def generate(seed, count):
    rng = random.Random(seed * 1000003 + 18)
    L = []
    L.append('// Generated by verif/gen_consts.py --seed %d --count %d. Do not edit.' % (seed, count))
    L.append('#pragma once')
    L.append('#include <array>\n#include <cstdint>\n#include <string>\n#include <vector>')
    L.append('#include <nop/rpc/interface.h>\n#include <nop/serializer.h>\n#include <nop/table.h>')
    L.append('#define GEN_CONSTS_SEED %dull' % seed)
    L.append('#define GEN_CONSTS_COUNT %d' % count)
    L.append('namespace gc {')
    tables, ifaces, methods = [], [], []

    forced = list(FORCED_LEN)
    for i in range(count):
        name = make_name(rng, i, forced)
        n_entries = rng.randrange(1, 5)
        ids = rng.sample([0, 1, 2, 3, 5, 8, 100, 127, 128, 255, 256, 65535, 65536, 1 << 32, (1 << 64) - 1], n_entries)
        fields = []
        members = []
        for j, eid in enumerate(ids):
            et = rng.choice(ENTRY_TYPES)
            deleted = rng.randrange(6) == 0
            fields.append('  nop::Entry<%s, %dull%s> e%d;' % (et, eid, ', nop::DeletedEntry' if deleted else '', j))
            members.append('e%d' % j)
        L.append('struct T%d {' % i)
        L.extend(fields)
        L.append('  NOP_TABLE_NS(%s, T%d, %s);' % (c_literal(name), i, ', '.join(members)))
        L.append('};')
        h = siphash24(name + b'\0', TABLE_K0, TABLE_K1)
        tables.append((i, 'gc::T%d' % i, name, h))

    for bits, prefix, macro in ((64, 'I', 'NOP_INTERFACE'), (32, 'J', 'NOP_INTERFACE32')):
        forced = list(FORCED_LEN)
        for i in range(count):
            name = make_name(rng, i + (2 if bits == 32 else 0), forced)
            ih = siphash24(name + b'\0', IFACE_K0, IFACE_K1)
            non_ascii = any(x >= 0x80 for x in name)
            while True:
                taken = set()
                ms = []
                for _ in range(rng.randrange(1, 5)):
                    mn = method_name(rng, taken)
                    taken.add(mn)
                    sel = siphash24(mn.encode('ascii') + b'\0', ih, IFACE_K1)
                    if bits == 32:
                        sel &= 0xffffffff
                    ms.append((mn, rng.choice(SIGNATURES), sel))
                if len(set(m[2] for m in ms)) == len(ms):   # the library static_asserts unique selectors
                    break
            ty = '%s%d' % (prefix, i)
            # every 5th interface: its first method name is also an object-like rename macro while the interface is
            # declared (as <windows.h> does for SendMessage); the selector hashes the name AS WRITTEN
            renamed = ms[0][0] if i % 5 == 2 else None
            if renamed:
                L.append('#define %s %sW_' % (renamed, renamed))
            L.append('struct %s : nop::Interface<%s> {' % (ty, ty))
            L.append('  %s(%s);' % (macro, c_literal(name)))
            for mn, sig, _ in ms:
                L.append('  NOP_METHOD(%s, %s);' % (mn, sig))
            L.append('  NOP_INTERFACE_API(%s);' % ', '.join(m[0] for m in ms))
            L.append('};')
            if renamed:
                L.append('#undef %s' % renamed)
            idx = len(ifaces)
            ifaces.append((idx, 'gc::' + ty, bits, name, ih))
            for mn, _, sel in ms:
                methods.append((idx, 'gc::' + ty, bits, mn, sel, non_ascii, (mn + 'W_') if mn == renamed else mn))
    L.append('}  // namespace gc')

    def flag(b):
        return 1 if any(x >= 0x80 for x in b) else 0
    L.append('// X(index, type, "name", non_ascii, expected EntryList::Hash = siphash24(name + NUL, table keys))')
    L.append('#define GEN_TABLES(X) \\')
    for i, ty, name, h in tables:
        L.append('  X(%d, %s, %s, %d, 0x%016xull) \\' % (i, ty, c_literal(name), flag(name), h))
    L.append('  /* end */')
    L.append('// X(index, type, selector_bits, "name", non_ascii, expected interface hash)')
    L.append('#define GEN_INTERFACES(X) \\')
    for idx, ty, bits, name, h in ifaces:
        L.append('  X(%d, %s, %d, %s, %d, 0x%016xull) \\' % (idx, ty, bits, c_literal(name), flag(name), h))
    L.append('  /* end */')
    L.append('// X(interface_index, type, selector_bits, Method, "Method", expected selector, interface name non_ascii)')
    L.append('#define GEN_METHODS(X) \\')
    for idx, ty, bits, mn, sel, na, cpp_id in methods:
        L.append('  X(%d, %s, %d, %s, "%s", 0x%016xull, %d) \\' % (idx, ty, bits, cpp_id, mn, sel, 1 if na else 0))
    L.append('  /* end */')
    L.append('')
    return '\n'.join(L)


def main():
    ap = argparse.ArgumentParser()
    ap.add_argument('--seed', type=int, default=1)
    ap.add_argument('--count', type=int, default=40)
    ap.add_argument('--out', required=True)
    a = ap.parse_args()
    if a.count < 1:
        sys.exit('--count must be >= 1')
    self_check()
    text = generate(a.seed, a.count)
    d = os.path.dirname(os.path.abspath(a.out))
    os.makedirs(d, exist_ok=True)
    old = open(a.out).read() if os.path.exists(a.out) else None
    if old != text:
        tmp = a.out + '.tmp'
        with open(tmp, 'w') as f:
            f.write(text)
        os.replace(tmp, a.out)
    print('gen_consts: seed=%d tables=%d interfaces=%d -> %s' % (a.seed, a.count, 2 * a.count, a.out))


if __name__ == '__main__':
    main()
