"""Property table: which jobs decide which property, evidence wording."""
import os

ROOT = os.path.dirname(os.path.dirname(os.path.abspath(__file__)))

SAN = ['-fsanitize=address,undefined', '-fno-sanitize-recover=undefined']

# One-TU harnesses: name -> source, flags.
SINGLES = {
    'endian': dict(src='harness/endian.cc', flags=['-O2']),
}
SETUP_EXTRA = []


def single_jobs(name, nshards_quick=1, nshards_thorough=1, extra=None):
    def f(b, prop, tier, seed):
        spec = SINGLES[name]
        bn = b.build_single(name, os.path.join(ROOT, spec['src']), spec['flags'], spec.get('link_flags'))
        if not bn:
            return None
        n = nshards_thorough if tier == 'thorough' else nshards_quick
        return [_job('single:' + name, bn, ['--prop', prop, '--tier', tier, '--seed', str(seed), '--shard', '%d/%d' % (i, n)] + (extra or []),
                     '%s%02d' % (name, i)) for i in range(n)]
    return f


def _job(target, binary, args, unit, **kw):
    from driver import Job
    return Job(target, binary, args, unit, **kw)


def codec_jobs(b, prop, tier, seed):
    jobs = []
    bins = b.build_codec('curated', 1)
    if not bins:
        return None
    for i, bn in enumerate(bins):
        t = 'codec:curated:%d' % i
        jobs.append(_job(t, bn, ['--prop', prop, '--tier', tier, '--seed', str(seed)], 'curated%02d' % i))
    if tier == 'thorough':
        rb = b.build_codec('random', seed)
        if not rb:
            return None
        for i, bn in enumerate(rb):
            t = 'codec:random:%d' % i
            jobs.append(_job(t, bn, ['--prop', prop, '--tier', tier, '--seed', str(seed)], 'random%02d' % i))
    return jobs


GEN = ('Cases per type: a deterministic must-hit list derived from the schema (one value per integer class of every field, '
       'empty/one/many per container, every alternative and the empty state of every sum type), then rapidcheck-generated choice '
       'tapes decoded into values (curated pool of ~140 C++ types; thorough adds a seeded random type pool). ')

PROPS = {
    'C01': dict(level='exploration', jobs=codec_jobs,
                rule=GEN + 'Each case writes 1-4 values back to back with a library writer and reads them with a library reader; all 11x9 '
                'writer/reader pairings for small must-hit cases, 4 sampled pairings otherwise. Non-trivial = the first value has a non-fixint '
                'integer field or a non-empty container, or the stream carries >= 2 values; distinct by hash of (type, value text, stream length).',
                assumptions=['Meta<T> mirrors (field-by-field) between C++ objects and dynamic values are correct', 'little-endian 64-bit host']),
    'C03': dict(level='exploration', jobs=codec_jobs,
                rule=GEN + 'Library bytes are compared byte for byte with an independent encoder written from docs/format.md (padding content '
                'excepted). Plus an exhaustive integer side-car (all 8/16-bit values, +-300 around every class boundary for wider types). '
                'Non-trivial = encoding has an integer field in a non-fixint class or a table with an omitted empty entry.',
                assumptions=['reference encoder kit/refcodec.h follows docs/format.md', 'variant index is an INT32-class field (base/variant.h diagram)']),
    'C05': dict(level='fault_enumeration', jobs=codec_jobs,
                rule=GEN + 'For each value every cut position 0<=k<len of its encoding is tried on every library reader that can carry the type '
                '(source ending after k bytes, and bounded limit k over the full buffer); table types additionally get reference encodings with '
                'deleted/unknown entries and surplus padding. Non-trivial = a value for which some cut lies strictly inside the message (1<k<len-1).',
                assumptions=['cuts are exhaustive for encodings <= 2 KiB (FdReader <= 300 B), 64 sampled cuts above']),
    'C06': dict(level='fault_enumeration', jobs=codec_jobs,
                rule=GEN + 'For each value every capacity 0..GetSize+1 (sampled above 512) of BufferWriter, PedanticBufferWriter, ConstexprBufferWriter, '
                'BoundedWriter over each (limit sweep and backing-capacity sweep) and LogWriter. Non-trivial = GetSize >= 3 and a capacity strictly '
                'between 0 and GetSize was exercised.',
                assumptions=['buffers are exactly-sized heap blocks, so ASan reports a one-byte overrun']),
    'C10': dict(level='fault_enumeration', jobs=codec_jobs,
                rule=GEN + 'For each value the clean call log of Write and Read over a logging writer/reader (plain and under BoundedWriter/BoundedReader) is '
                'recorded, then every call index k x 7 error codes is injected. Non-trivial = composite type and a fault at k >= 2.',
                assumptions=['the logging reader/writer issues errors only where scripted']),
    'C11': dict(level='exploration', jobs=codec_jobs,
                rule=GEN + 'Each case builds a history of 0-4 steps (assign, successful read, read of a mutated encoding) on one object and then reads a final '
                'encoding (valid 2/3, mutated 1/3) into it and into a fresh object; lifetime-tracking elements count constructions/destructions. '
                'Non-trivial = prior state differs from both the default and the decoded value, or was left by a failed read.',
                assumptions=['after a failed final read only the status is compared (members not reached keep prior contents by design)']),
    'C02': dict(level='exploration', jobs=codec_jobs,
                rule=GEN + 'Valid encodings receive 1-3 structure-aware mutations (truncate, class/value/prefix overrides, inflated lengths, entry-size deltas, '
                'byte flips, splices, table entry permutation/duplication) or are replaced by random bytes, then are read through BufferReader, '
                'PedanticBufferReader and BoundedReader over them (several limits) under ASan+UBSan with an allocation meter; afterwards the object is '
                'inspected, reused for a valid read and destroyed. Non-trivial = rejected after a nested element was accepted, or accepted non-empty, or an inflated length.',
                assumptions=['allocation budget 4096 + (64+4*max element size)*input length bytes']),
    'C04': dict(level='exploration', jobs=codec_jobs,
                rule=GEN + 'Differential test against an independent decoder written from docs/format.md on mutated encodings (accept/reject, value, consumed; '
                'error category on single-defect inputs) plus exhaustive sweeps of all 256 byte values at the prefix of every field of a few values per type. '
                'Non-trivial = accepted non-canonical encoding or rejected single-defect input; distinct by input bytes.',
                assumptions=['reference decoder kit/refcodec.h follows docs/format.md', 'bool accepts only 0x00/0x01', 'variant index is an INT32-class field']),
    'C15': dict(level='exploration', jobs=codec_jobs,
                rule=GEN + 'Handle-bearing types only: push log vs in-order traversal, encoded references vs returned references (generated, up to 2^63-1), '
                'resolution order, wrong type tags, scripted resolver/push errors. Non-trivial = handles at >= 2 depths or inside a table entry.',
                assumptions=[]),
}

PROPS['C20'] = dict(level='exploration', jobs=single_jobs('endian', 4, 16),
                    rule='All 8- and 16-bit patterns exhaustively; 32-bit types (incl. float): prime-stride sweep of 2^32 (4.2M values per type) in quick, all 2^32 '
                    'in thorough; 64-bit types (incl. double): byte-lane patterns, boundaries, NaN payloads and rapidcheck-generated words. Each value checks '
                    'From/To Little/Big and the four round trips against a memcpy/byte-reversal oracle. Non-trivial = byte image is not a palindrome.',
                    assumptions=['host endianness from __BYTE_ORDER__', 'built without UBSan: the shift-or idiom left-shifts into the sign bit (undefined before C++20, not a value error)'])


def table_jobs(b, prop, tier, seed):
    jobs = []
    pools = [(1, 16)] if tier == 'quick' else [(1, 16), (seed + 100, 24)]
    for ps, nv in pools:
        bn = b.build_tables(ps, nv)
        if not bn:
            return None
        n = 8
        for i in range(n):
            jobs.append(_job('tables:%d:%d' % (ps, nv), bn, ['--prop', prop, '--tier', tier, '--seed', str(seed), '--shard', '%d/%d' % (i, n)], 'tables_%d_%02d' % (ps, i)))
    return jobs


SETUP_EXTRA.append(lambda b: b.build_tables(1, 16))

TGEN = ('Program generator verif/gen_tables.py: families of table definitions sharing one hash (NOP_TABLE_NS / NOP_TABLE_HASH / NOP_TABLE) obtained by a random walk '
        'of evolution steps (add id, remove id, mark deleted, reorder, swap in a fungible type; ids never reused) over a pool of 7 entry ids with 1-3 fungible C++ '
        'types each; every state of the walk is a version (16 versions quick; thorough adds a 24-version pool from VERIF_SEED); some versions are also nested in a '
        'structure, a vector and another table\'s entry. ')
PROPS['C07'] = dict(level='exploration', jobs=table_jobs,
                    rule=TGEN + 'All ordered (writer, reader) pairs within a family x rapidcheck-generated assignments of empty/non-empty entry values (values drawn from the '
                    'tightest fungible alternative so every alternative can hold them) x 5 readers, with trailing data on the stream and a destination pre-filled with unrelated '
                    'entries. Oracle: model mapping by id. Non-trivial = reader lacks or has deleted an id the writer wrote AND knows an id the writer lacks, or the common ids '
                    'appear in a different order, with at least one non-empty entry.',
                    assumptions=['reference model of table evolution is docs/format.md "Table Container" plus nop/table.h rules 1-4'])
PROPS['C08'] = dict(level='exploration', jobs=table_jobs,
                    rule=TGEN + 'Valid encodings of generated table values receive one framing mutation (hash change, entry size shrunk / grown with or without padding, entries '
                    'permuted, recognised active entry duplicated, skipped id duplicated, byte corrupted inside an entry value, entry count changed); differential against the '
                    'reference decoder plus the named categories (InvalidTableHash, DuplicateTableEntry, rejection of undersized entries, acceptance and exact consumption of '
                    'padded / permuted tables) and agreement of 4 readers. Non-trivial = the mutation hit an entry that is not the last one.',
                    assumptions=['duplicates of deleted/unknown ids carry no accept/reject expectation (counted under excluded)'])
