"""Property table: which jobs decide which property, evidence wording."""
import os

ROOT = os.path.dirname(os.path.dirname(os.path.abspath(__file__)))

SAN = ['-fsanitize=address,undefined', '-fno-sanitize-recover=undefined']

# One-TU harnesses: name -> source, flags.
SINGLES = {
    'endian': dict(src='harness/endian.cc', flags=['-O2']),
    'variant': dict(src='harness/variant.cc', flags=SAN + ['-O1']),
    'optres': dict(src='harness/optres.cc', flags=SAN + ['-O1']),
    'bounded': dict(src='harness/bounded.cc', flags=SAN + ['-O1']),
    'uhandle': dict(src='harness/uhandle.cc', flags=SAN + ['-O1']),
    'rw': dict(src='harness/rw.cc', flags=SAN + ['-O1']),
    'threads': dict(src='harness/threads.cc', flags=['-fsanitize=thread', '-O1']),
    'threads_asan': dict(src='harness/threads.cc', flags=SAN + ['-O1']),
}
SETUP_EXTRA = []


def single_jobs(name, nshards_quick=1, nshards_thorough=1, extra=None):
    def f(b, prop, tier, seed):
        spec = SINGLES[name]
        bn = b.build_single(name, os.path.join(ROOT, spec['src']), spec['flags'], spec.get('link_flags'))
        if not bn:
            return None
        n = nshards_thorough if tier == 'thorough' else nshards_quick
        ex = list(extra or [])
        # the pre-built quick binaries finish in a few seconds: the quick tier spends three times the thorough tier's
        # per-shard scale on random sequences (still well under a minute)
        if tier == 'quick' and '--scale' in ex:
            k = ex.index('--scale') + 1
            ex[k] = str(int(ex[k]) * 3)
        return [_job('single:' + name, bn, ['--prop', prop, '--tier', tier, '--seed', str(seed), '--shard', '%d/%d' % (i, n)] + ex,
                     '%s%02d' % (name, i)) for i in range(n)]
    return f


def _job(target, binary, args, unit, **kw):
    from driver import Job
    return Job(target, binary, args, unit, **kw)


def codec_jobs(b, prop, tier, seed):
    jobs = []
    bins = b.build_codec('curated', 1)
    if not bins:
        return None
    for i, bn in enumerate(bins):
        t = 'codec:curated:%d' % i
        jobs.append(_job(t, bn, ['--prop', prop, '--tier', tier, '--seed', str(seed)], 'curated%02d' % i))
    if tier == 'thorough':
        rb = b.build_codec('random', seed)
        if not rb:
            return None
        for i, bn in enumerate(rb):
            t = 'codec:random:%d' % i
            jobs.append(_job(t, bn, ['--prop', prop, '--tier', tier, '--seed', str(seed)], 'random%02d' % i))
    return jobs


GEN = ('Cases per type: a deterministic must-hit list derived from the schema (one value per integer class of every field, '
       'empty/one/many per container, every alternative and the empty state of every sum type), then rapidcheck-generated choice '
       'tapes decoded into values (curated pool of ~140 C++ types; thorough adds a seeded random type pool). ')

PROPS = {
    'C01': dict(level='exploration', jobs=codec_jobs,
                rule=GEN + 'Each case writes 1-4 values back to back with a library writer and reads them with a library reader; all 11x9 '
                'writer/reader pairings for small must-hit cases, 4 sampled pairings otherwise. Non-trivial = the first value has a non-fixint '
                'integer field or a non-empty container, or the stream carries >= 2 values; distinct by hash of (type, value text, stream length).',
                assumptions=['Meta<T> mirrors (field-by-field) between C++ objects and dynamic values are correct', 'little-endian 64-bit host']),
    'C03': dict(level='exploration', jobs=codec_jobs,
                rule=GEN + 'Library bytes are compared byte for byte with an independent encoder written from docs/format.md (padding content '
                'excepted). Plus an exhaustive integer side-car (all 8/16-bit values, +-300 around every class boundary for wider types). '
                'Non-trivial = encoding has an integer field in a non-fixint class or a table with an omitted empty entry.',
                assumptions=['reference encoder kit/refcodec.h follows docs/format.md', 'variant index is an INT32-class field (base/variant.h diagram)']),
    'C05': dict(level='fault_enumeration', jobs=codec_jobs,
                rule=GEN + 'For each value every cut position 0<=k<len of its encoding is tried on every library reader that can carry the type '
                '(source ending after k bytes, and bounded limit k over the full buffer); table types additionally get reference encodings with '
                'deleted/unknown entries and surplus padding. Non-trivial = a value for which some cut lies strictly inside the message (1<k<len-1).',
                assumptions=['cuts are exhaustive for encodings <= 2 KiB (FdReader <= 300 B), 64 sampled cuts above']),
    'C06': dict(level='fault_enumeration', jobs=codec_jobs,
                rule=GEN + 'For each value every capacity 0..GetSize+1 (sampled above 512) of BufferWriter, PedanticBufferWriter, ConstexprBufferWriter, '
                'BoundedWriter over each (limit sweep and backing-capacity sweep) and LogWriter. Non-trivial = GetSize >= 3 and a capacity strictly '
                'between 0 and GetSize was exercised.',
                assumptions=['buffers are exactly-sized heap blocks, so ASan reports a one-byte overrun']),
    'C10': dict(level='fault_enumeration', jobs=codec_jobs,
                rule=GEN + 'For each value the clean call log of Write and Read over a logging writer/reader (plain and under BoundedWriter/BoundedReader) is '
                'recorded, then every call index k x 7 error codes is injected. Non-trivial = composite type and a fault at k >= 2.',
                assumptions=['the logging reader/writer issues errors only where scripted']),
    'C11': dict(level='exploration', jobs=codec_jobs,
                rule=GEN + 'Each case builds a history of 0-4 steps (assign, successful read, read of a mutated encoding) on one object and then reads a final '
                'encoding (valid 2/3, mutated 1/3) into it and into a fresh object; lifetime-tracking elements count constructions/destructions. '
                'Non-trivial = prior state differs from both the default and the decoded value, or was left by a failed read.',
                assumptions=['after a failed final read only the status is compared (members not reached keep prior contents by design)']),
    'C02': dict(level='exploration', jobs=codec_jobs,
                rule=GEN + 'Valid encodings receive 1-3 structure-aware mutations (truncate, class/value/prefix overrides, inflated lengths, entry-size deltas, '
                'byte flips, splices, table entry permutation/duplication) or are replaced by random bytes, then are read through BufferReader, '
                'PedanticBufferReader and BoundedReader over them (several limits) under ASan+UBSan with an allocation meter; afterwards the object is '
                'inspected, reused for a valid read and destroyed. Non-trivial = rejected after a nested element was accepted, or accepted non-empty, or an inflated length.',
                assumptions=['allocation budget 4096 + (64+4*max element size)*input length bytes']),
    'C04': dict(level='exploration', jobs=codec_jobs,
                rule=GEN + 'Differential test against an independent decoder written from docs/format.md on mutated encodings (accept/reject, value, consumed; '
                'error category on single-defect inputs) plus exhaustive sweeps of all 256 byte values at the prefix of every field of a few values per type. '
                'Non-trivial = accepted non-canonical encoding or rejected single-defect input; distinct by input bytes.',
                assumptions=['reference decoder kit/refcodec.h follows docs/format.md', 'bool accepts only 0x00/0x01', 'variant index is an INT32-class field']),
    'C15': dict(level='exploration', jobs=codec_jobs,
                rule=GEN + 'Handle-bearing types only: push log vs in-order traversal, encoded references vs returned references (generated, up to 2^63-1), '
                'resolution order, wrong type tags, scripted resolver/push errors. Non-trivial = handles at >= 2 depths or inside a table entry.',
                assumptions=[]),
}

PROPS['C20'] = dict(level='exploration', jobs=single_jobs('endian', 4, 16),
                    rule='All 8- and 16-bit patterns exhaustively; 32-bit types (incl. float): prime-stride sweep of 2^32 (4.2M values per type) in quick, all 2^32 '
                    'in thorough; 64-bit types (incl. double): byte-lane patterns, boundaries, NaN payloads and rapidcheck-generated words. Each value checks '
                    'From/To Little/Big and the four round trips against a memcpy/byte-reversal oracle. Non-trivial = byte image is not a palindrome.',
                    assumptions=['host endianness from __BYTE_ORDER__', 'built without UBSan: the shift-or idiom left-shifts into the sign bit (undefined before C++20, not a value error)'])


def table_jobs(b, prop, tier, seed):
    jobs = []
    pools = [(1, 18)] if tier == 'quick' else [(1, 18), (seed + 100, 32)]
    for ps, nv in pools:
        bn = b.build_tables(ps, nv)
        if not bn:
            return None
        n = 8
        for i in range(n):
            jobs.append(_job('tables:%d:%d' % (ps, nv), bn, ['--prop', prop, '--tier', tier, '--seed', str(seed), '--shard', '%d/%d' % (i, n)], 'tables_%d_%02d' % (ps, i)))
    return jobs


SETUP_EXTRA.append(lambda b: b.build_tables(1, 18))

TGEN = ('Program generator verif/gen_tables.py: families of table definitions sharing one hash (NOP_TABLE_NS / NOP_TABLE_HASH / NOP_TABLE) obtained by a random walk '
        'of evolution steps (add id, remove id, mark deleted, reorder, swap in a fungible type; ids never reused) over a pool of 7 entry ids with 1-3 fungible C++ '
        'types each; every state of the walk is a version (3 families x 6 versions quick; thorough adds a 32-version pool from VERIF_SEED); some versions are also nested in a '
        'structure, a vector and another table\'s entry. ')
PROPS['C07'] = dict(level='exploration', jobs=table_jobs,
                    rule=TGEN + 'All ordered (writer, reader) pairs within a family x rapidcheck-generated assignments of empty/non-empty entry values (values drawn from the '
                    'tightest fungible alternative so every alternative can hold them) x 5 readers, with trailing data on the stream and a destination pre-filled with unrelated '
                    'entries. Oracle: model mapping by id. Non-trivial = reader lacks or has deleted an id the writer wrote AND knows an id the writer lacks, or the common ids '
                    'appear in a different order, with at least one non-empty entry.',
                    assumptions=['reference model of table evolution is docs/format.md "Table Container" plus nop/table.h rules 1-4'])
PROPS['C08'] = dict(level='exploration', jobs=table_jobs,
                    rule=TGEN + 'Valid encodings of generated table values receive one framing mutation (hash change, entry size shrunk / grown with or without padding, entries '
                    'permuted, recognised active entry duplicated, skipped id duplicated, byte corrupted inside an entry value, entry count changed); differential against the '
                    'reference decoder plus the named categories (InvalidTableHash, DuplicateTableEntry, rejection of undersized entries, acceptance and exact consumption of '
                    'padded / permuted tables) and agreement of 4 readers. Non-trivial = the mutation hit an entry that is not the last one.',
                    assumptions=['duplicates of deleted/unknown ids carry no accept/reject expectation (counted under excluded)'])


def fungible_jobs(b, prop, tier, seed):
    jobs = []
    pools = [(1, 88, 3)] if tier == 'quick' else [(1, 88, 3), (seed + 1000, 300, 4)]
    for ps, cnt, depth in pools:
        bn = b.build_fungible(ps, cnt, depth)
        if not bn:
            return None
        n = 8 if cnt <= 88 else 16
        for i in range(n):
            jobs.append(_job('fungible:%d:%d:%d' % (ps, cnt, depth), bn, ['--prop', prop, '--tier', tier, '--seed', str(seed), '--shard', '%d/%d' % (i, n)], 'fung_%d_%02d' % (ps, i)))
    return jobs


SETUP_EXTRA.append(lambda b: b.build_fungible(1, 88, 3))

PROPS['C09'] = dict(level='exploration', jobs=fungible_jobs,
                    rule='Program generator verif/gen_fungible.py: type A from the type grammar (depth <= 3 quick / 4 thorough), B derived by applying at every node at most one '
                    'documented fungibility rule (expected fungible iff the two reference schemas are wire-compatible) or a near-miss edit (no expectation); 88 pairs quick, +300 '
                    'from VERIF_SEED in thorough. Static checks per pair: reflexive, symmetric, trait true => schemas wire-compatible, documented pairs true, Protocol<A> admits B. '
                    'Dynamic check whenever the trait is true: rapidcheck-generated values of A that fit B are written as A, read as B (must succeed, same value, all bytes consumed) '
                    'and re-encoded as B (same bytes up to MAP order), and the same with A and B swapped. Non-trivial = trait true for A != B and a value with a non-empty container.',
                    assumptions=['pairs for which IsFungible<A,B> does not compile are outside the domain and counted under excluded'])


def c15_jobs(b, prop, tier, seed):
    a = codec_jobs(b, prop, tier, seed)
    u = single_jobs('uhandle', 2, 8, ['--scale', '20'])(b, prop, tier, seed)
    if a is None or u is None:
        return None
    return a + u


PROPS['C15']['jobs'] = c15_jobs
PROPS['C15']['rule'] += (' Part (b): model-based operation sequences over several UniqueHandle<CountingPolicy> objects (construct, default, move-construct, move-assign incl. self and '
                         'from temporaries, release, close, get, bool, destroy): exhaustive up to length 4 (quick) / 5 (thorough) on 2 slots plus rapidcheck sequences up to 60 ops on 4 slots; '
                         'the close log must equal the model after every step. Non-trivial there = a move-assignment over a non-empty handle.')

OPSEQ = ('Model-based operation sequences: each op is applied to the real libnop objects and to an explicit model, the invariant is checked after every step; all sequences up to a bounded '
         'length over a reduced alphabet are enumerated, longer sequences come from rapidcheck-generated choice tapes (shrunk on failure). ')
PROPS['C12'] = dict(level='exploration', jobs=single_jobs('variant', 4, 16, ['--scale', '40']),
                    rule=OPSEQ + 'Slots of Variant<Tracked<1>,Tracked<2>,int,string>, Variant<Tracked<2>,Tracked<1>> and Variant<Tracked<1>,string>; 20 op kinds (construct, copy/move construct and assign '
                    'incl. self and across Variant types, element/convertible/EmptyVariant assignment, Become in and out of range with and without arguments, Visit, get, destroy, armed throwing constructor). '
                    'Exhaustive to length 3 (quick) / 4 (thorough) on 3 slot pairs, random sequences up to 60 ops. Non-trivial = an assignment between different alternatives or a throwing constructor.',
                    assumptions=['state after a throwing element constructor: unchanged or empty are both accepted', 'payload of a moved-from std::string is not checked'])
PROPS['C13'] = dict(level='exploration', jobs=single_jobs('optres', 4, 16, ['--scale', '40']),
                    rule=OPSEQ + '14 slots of Optional / Entry / Result / Result<E,void> / Status over lifetime-tracking and trivial element types; all constructors, assignments (incl. self, converting, '
                    'from error / None), clear, take, observers, destroy, armed throwing constructor. Plus all 576 operand-state x operator cases of the Optional comparisons for three element types and '
                    'GetErrorMessage for every ErrorStatus. Non-trivial = assignment over a non-empty target from a non-empty source, a move-assignment, or a throwing constructor.',
                    assumptions=['state after a throwing element constructor: either outcome accepted', 'move-construction sources are not required to be emptied (only move-assignment is promised)'])
PROPS['C16'] = dict(level='exploration', jobs=single_jobs('bounded', 4, 16, ['--scale', '20']),
                    rule=OPSEQ + 'BoundedReader<LogReader> / BoundedWriter<LogWriter> with limits {0,1,2,7,8,64,2^64-1,random}, wrapped objects with their own capacity and an optional scripted failure; '
                    'ops Ensure/Prepare, byte and block Read/Write (widths 1/2/4/8, counts 0..9), Skip, ReadPadding/WritePadding with sizes 0, rem-1, rem, rem+1, 2^63, 2^64-rem, 2^64-1. '
                    'Non-trivial = a call landing exactly on the limit and one crossing it, or a wrapped failure followed by further calls.',
                    assumptions=[])
PROPS['C17'] = dict(level='exploration', jobs=single_jobs('rw', 8, 16, ['--scale', '16']),
                    rule=OPSEQ + '17 reader configurations (Buffer, Pedantic, Stream over stringstream and ifstream, Fd, BoundedReader over each with limit =,<,> source) and 10 writer configurations '
                    '(Buffer, Pedantic, Constexpr, Stream, Fd, BoundedWriter over each) are driven with the same Read/Skip/Ensure resp. Prepare/Write/Skip sequences for 13+ element types and compared '
                    'with a cursor model up to and including the first failing call; plus 54 constexpr constants serialized at compile time and compared byte for byte with run-time serialization. '
                    'Non-trivial = the sequence reaches a first failing call after a successful multi-byte call.',
                    assumptions=['FdReader/FdWriter have no Skip: Skip ops are no-ops for them'])
def c19_jobs(b, prop, tier, seed):
    t = single_jobs('threads', 8, 16, ['--scale', '6'])(b, prop, tier, seed)
    # The same programs without ThreadSanitizer (ASan+UBSan): the sequential-model oracle alone. clang 14's TSan runtime can
    # deadlock inside ReportRace on some races; such a job is cut off by its timeout (INCOMPLETE, never a verdict) while the
    # other shards and this build still report.
    a = single_jobs('threads_asan', 4, 8, ['--scale', '6'])(b, prop, tier, seed)
    if t is None or a is None:
        return None
    for j in t:
        j.timeout = 420 if tier == 'quick' else 3600
    return t + a


PROPS['C19'] = dict(level='exploration', jobs=c19_jobs,
                    rule='Programs for 2-8 threads generated from rapidcheck tapes in the main thread (round trips over 8 types, table cross-version reads, Variant/Optional bursts with tracked elements, '
                    'RPC calls on a thread-owned connection, ThreadLocal construct/Initialize/Get/modify/Clear on 7 shared (T,Slot) instantiations); each program runs R=5 (quick) / 50 (thorough) times '
                    'behind a start barrier with hash-derived yield/spin perturbation under ThreadSanitizer; every thread log must equal the sequential model run. '
                    'Non-trivial = two threads touch the same ThreadLocal (T,Slot) with a Clear or re-Initialize, or two threads run RPC/table traffic concurrently.',
                    assumptions=['the harness only perturbs the schedule; TSan happens-before detection compensates for unsynchronised sharing, not for lock-protected logical sharing',
                                 'Get() on an empty ThreadLocal is never generated (dereferences an empty Optional)'])


def siphash_jobs(b, prop, tier, seed):
    jobs = []
    pools = [(1, 40)] if tier == 'quick' else [(1, 40), (seed + 7, 100)]
    for ps, cnt in pools:
        bn = b.build_siphash(ps, cnt)
        if not bn:
            return None
        n = 2 if tier == 'quick' else 8
        for i in range(n):
            jobs.append(_job('siphash:%d:%d' % (ps, cnt), bn, ['--prop', prop, '--tier', tier, '--seed', str(seed), '--shard', '%d/%d' % (i, n)], 'siphash_%d_%02d' % (ps, i)))
    return jobs


SETUP_EXTRA.append(lambda b: b.build_siphash(1, 40))
PROPS['C18'] = dict(level='exploration', jobs=siphash_jobs,
                    rule='Independent SipHash-2-4 (written from the paper, self-checked against the 64 official vectors) vs nop::SipHash::Compute for every length 0..600 x rapidcheck-generated contents and '
                    '128-bit keys, through BlockReader<uint8_t> and through const char data (the form the macros use); 54 string literals forced to compile time vs run time vs reference; generated '
                    'declarations (verif/gen_consts.py: NOP_TABLE_NS tables, NOP_INTERFACE/NOP_INTERFACE32 interfaces with NOP_METHODs, names incl. UTF-8) whose EntryList hash, wire hash, interface hash '
                    'and selectors are compared with values computed in Python under keys pinned as literals. Non-trivial = length >= 9 with length%8 != 0, or any byte >= 0x80.',
                    assumptions=['the Python and C++ reference implementations are independent of the library and of each other'])


def rpc_jobs(b, prop, tier, seed):
    jobs = []
    pools = [(1, 8)] if tier == 'quick' else [(1, 8), (seed + 50, 40)]
    for ps, cnt in pools:
        bn = b.build_rpc(ps, cnt)
        if not bn:
            return None
        n = min(cnt, 16)
        for i in range(n):
            jobs.append(_job('rpc:%d:%d' % (ps, cnt), bn, ['--prop', prop, '--tier', tier, '--seed', str(seed), '--shard', '%d/%d' % (i, n)], 'rpc_%d_%02d' % (ps, i)))
    return jobs


SETUP_EXTRA.append(lambda b: b.build_rpc(1, 8))
PROPS['C14'] = dict(level='exploration', jobs=rpc_jobs,
                    rule='Program generator verif/gen_ifaces.py: interfaces with 1-6 methods over 21 argument/return types (scalars, strings, containers, structures, tables, Optional, Variant, '
                    'Result-derived returns), NOP_INTERFACE and NOP_INTERFACE32, hashed and manual selectors, member-function bindings with the instance as passthrough or lambda/free-function '
                    'bindings, partial bindings, handler and call-site types that are fungible substitutes of the protocol types, C-string call sites (8 interfaces quick, +40 from VERIF_SEED thorough). '
                    'Cases: rapidcheck histories of 1-8 steps on one connection through the unmodified SimpleMethodSender/SimpleMethodReceiver (Invoke of bound and unbound methods, truncated / '
                    'field-mutated / selector-mutated requests); oracle = handler log + reference decoder. Non-trivial = >= 2 successful calls to different methods, or successful and failed requests mixed.',
                    assumptions=['after a failed dispatch the connection is re-synchronised (framing is promised across successful calls only)', 'void returns and lambda bindings with passthrough arguments do not compile on the unchanged tree and are outside the domain'])


def c10_jobs(b, prop, tier, seed):
    a = codec_jobs(b, prop, tier, seed)
    r = rpc_jobs(b, prop, tier, seed)
    if a is None or r is None:
        return None
    return a + r


PROPS['C10']['jobs'] = c10_jobs
PROPS['C10']['rule'] += (' Plus the RPC layer: for generated interfaces every primitive-call index of the request writer, reply reader (SimpleMethodSender::SendMethod), '
                         'request reader and reply writer (dispatcher) is failed once with a rotating error code.')


def fuzz_jobs(prop):
    def f(b, p, tier, seed):
        base = codec_jobs(b, p, tier, seed)
        fz = b.build_codec('curated', 1, fuzz=True)
        cb = b.build_codec('curated', 1)
        if base is None or not fz or not cb:
            return None
        import subprocess
        jobs = list(base)
        runs = 40000 if tier == 'quick' else 3000000
        per_shard = 1 if tier == 'quick' else 6
        for i, bn in enumerate(fz):
            # number of types in this shard
            out = subprocess.run([cb[i], '--prop', p, '--list', '1'], capture_output=True, text=True).stdout
            ntypes = max(1, len([l for l in out.splitlines() if l.strip()]))
            for k in range(per_shard):
                ti = (seed * 7 + i * 3 + k * 5) % ntypes
                env = {'FUZZ_TYPE': str(ti), 'FUZZ_PROP': p}
                args = ['-runs=%d' % runs, '-seed=%d' % (seed * 1000 + i * 16 + k + 1), '-max_len=512', '-timeout=30', '-rss_limit_mb=3000', '-print_final_stats=1',
                        '-max_total_time=%d' % (60 if tier == 'quick' else 900)]
                jobs.append(_job('codec:curated:%d' % i, bn, args, 'fuzz%02d_%d' % (i, ti), env=env, fuzz=True, replay_binary=cb[i], timeout=3000))
        return jobs
    return f


PROPS['C02']['jobs'] = fuzz_jobs('C02')
PROPS['C04']['jobs'] = fuzz_jobs('C04')
PROPS['C02']['rule'] += (' Plus coverage-guided fuzzing (libFuzzer, ASan+UBSan): one process per (destination type, oracle), first byte selects reader kind and limit, seed corpus = reference '
                         'encodings of the must-hit values; 8 type-workers x 40k executions in quick, 48 x 3M in thorough (wall-clock ceiling ends a campaign, it never produces a verdict).')
PROPS['C04']['rule'] += (' Plus coverage-guided differential fuzzing (libFuzzer): arbitrary byte strings decoded by the library and by the reference decoder, per destination type.')
SETUP_EXTRA.append(lambda b: b.build_codec('curated', 1, fuzz=True))


# Additions made during the sensitivity audit (DESIGN.md section 6), appended to the evidence wording.
_ADDED = {
    'C01': ' Also: the three Serializer/Deserializer forms rotate over the buffer kinds; an FdReader over a pipe fed in two bursts; 20-33 KB payloads for growable sequences; '
           'values are written through a const reference.',
    'C02': ' Also: Bounded<StreamReader> with limits near the input length; table types through call-counting readers (non-termination); after a failed read every bounded logical '
           'buffer must hold an in-range size member; a bounded reader must not consume more of the wrapped reader than its limit.',
    'C06': ' Also: the same capacity sweep of the REMAINING space of a writer that already holds one copy of the value; GetSize(x), change x in place, Write(x) through one Serializer object.',
    'C09': ' Also: the trait on function signatures built from each pair (reference / rvalue / return / 4-5 argument forms) must agree with the trait on the pair; Protocol<A> admission is '
           'probed with SFINAE and must equal the trait.',
    'C10': ' Also: an 8th error per call index cycling through all 18 ErrorStatus codes; 9-13 KB payloads for growable integral sequences.',
    'C11': ' Also: priors with an out-of-range logical-buffer size member; histories and final reads that use messages of a newer writer (deleted and unknown entries on the wire).',
    'C12': ' Also: a 140-alternative Variant probed at indices 0, 1, 63, 126-129, 139; converting construction / assignment of Variant<bool,std::string> and Variant<bool,int,std::string>.',
    'C13': ' Also: the aliasing assignment x = x.get(); comparisons on Entry/Entry, Optional/Entry and Optional<Optional<int>> operands; Result<E,bool> assignments in all state pairs.',
    'C14': ' Also: a second interface bound in the same table (shared name prefix, re-used method names); handlers returning a reference to an argument; re-entrant dispatch of the same '
           'method; tables with exactly one binding; integral call-site conversions; 64-bit-class selectors against 32-bit interfaces; nop::Status<T> returns with scripted errors.',
    'C15': ' Also: nop::FileHandle values; multi-byte type tags at the tail of table entries; negative references; wrong type tags incl. 0 and 2^64-1; UniqueFileHandle over real descriptors incl. fd 0.',
    'C17': ' Also: StreamWriter over a sink that accepts exactly C bytes; a BoundedWriter whose window is wider than the wrapped buffer.',
    'C18': ' Also: Compute(std::string) / Compute(std::vector<signed char>); Compute(BlockReader(array)) at compile time; the empty name, a name starting with NUL, names of 63-254 bytes; method names that are '
           'object-like macros while the interface is declared.',
    'C19': ' Also: thread-owned writers padding with thread-specific values, FdWriter/FdReader traffic, a snapshot of all signal dispositions around every threaded run, GetErrorMessage() text stability, '
           'GetInterfaceName() of two interfaces, ten ThreadLocal slot tags.',
    'C20': ' Also: conversions used as initialisers of static constants; the library header is included before any other header.',
}
for _k, _v in _ADDED.items():
    PROPS[_k]['rule'] += _v
