// Choice tape and schema-directed value generation.
//
// Every random decision of a case is drawn from a "tape" of 64-bit words. The tape is produced
// by rapidcheck (vector<uint64_t>, so rapidcheck's shrinking of vectors and integers applies), by
// libFuzzer (bytes reinterpreted as words) or read back from a replay file; decoding a tape is
// a pure function, an exhausted tape yields zeros, and zero always selects the simplest
// alternative so that shrinking the tape shrinks the case.
#pragma once
#include "core.h"
#include "refcodec.h"
#include <set>

namespace vk {

struct Tape {
  const uint64_t* t; size_t n; size_t i = 0;
  bool prng = false; uint64_t state = 0;
  Tape(const std::vector<uint64_t>& v) : t(v.data()), n(v.size()) {}
  Tape(const uint64_t* p, size_t n_) : t(p), n(n_) {}
  // After this call an exhausted tape continues with a generator seeded from the tape's own
  // content (still a pure function of the tape) instead of zeros. Used for the auxiliary choices
  // of a case (which reader, which mutation) so that short tapes do not always pick choice 0.
  void continue_pseudo_randomly() { prng = true; state = fnv1a(t, n * sizeof(uint64_t)) ^ (0x9e3779b97f4a7c15ull * (i + 1)); }
  uint64_t next() {
    if (i < n) return t[i++];
    if (!prng) return 0;
    state = state * 6364136223846793005ull + 1442695040888963407ull;
    return (state >> 11) ^ (state << 53);
  }
  uint64_t below(uint64_t k) { return k ? next() % k : 0; }
  bool chance(uint64_t num, uint64_t den) { return below(den) < num; }  // 0 => true
  bool exhausted() const { return i >= n; }
};

struct GenCfg {
  bool big = false;        // allow lengths that push the length prefix to U16/U32 class
  int budget = 400;        // soft cap on generated nodes
  long max_len = 12;       // ordinary container length bound
};

inline const std::vector<int64_t>& int_boundaries() {
  static const std::vector<int64_t> b = {
    0, 1, -1, 2, 63, 64, -64, -65, 127, 128, -128, -129, 255, 256, 32767, 32768, -32768, -32769, 65535, 65536,
    2147483647ll, 2147483648ll, -2147483648ll, -2147483649ll, 4294967295ll, 4294967296ll,
    INT64_MAX, INT64_MIN, INT64_MAX - 1, INT64_MIN + 1, 100, -100, 1000, -1000, 70000, -70000, 5000000000ll, -5000000000ll};
  return b;
}
inline bool int_fits(int64_t v, int bits, bool sgn) {
  if (sgn) { if (bits >= 64) return true; int64_t lo = -(1ll << (bits - 1)), hi = (1ll << (bits - 1)) - 1; return v >= lo && v <= hi; }
  if (v < 0) return false;
  if (bits >= 64) return true;
  return (uint64_t)v <= mask_bits(bits);
}
inline uint64_t gen_int(Tape& t, int bits, bool sgn) {
  switch (t.below(6)) {
    case 0: return norm_int(t.below(4), bits, sgn);
    case 1: case 2: {
      auto& b = int_boundaries();
      for (int tries = 0; tries < 4; tries++) {
        int64_t v = b[t.below(b.size())];
        if (int_fits(v, bits, sgn)) return norm_int((uint64_t)v, bits, sgn);
      }
      return 0; }
    case 3: {  // extremes of the type
      uint64_t k = t.below(4);
      if (!sgn) return norm_int(~0ull - k, bits, false);
      if (k & 1) return norm_int((1ull << (bits - 1)) + (k >> 1), bits, true);   // min, min+1
      return norm_int((1ull << (bits - 1)) - 1 - (k >> 1), bits, true);          // max, max-1
    }
    case 4: {  // near a power of two
      int sh = (int)t.below(bits);
      int64_t d = (int64_t)t.below(5) - 2;
      uint64_t v = (1ull << sh) + (uint64_t)d;
      if (sgn && t.below(2)) v = 0 - v;
      return norm_int(v, bits, sgn);
    }
    default: return norm_int(t.next() * 0x9e3779b97f4a7c15ull + t.next(), bits, sgn);
  }
}
inline uint64_t gen_float_bits(Tape& t, bool dbl) {
  static const uint32_t f32[] = {0x00000000u, 0x3fc00000u, 0x80000000u, 0x7f800000u, 0xff800000u, 0x7fc00000u, 0x7fc12345u, 0xffc00001u,
                                 0x7f800001u, 0x7fa00000u, 0x00000001u, 0x807fffffu, 0x7f7fffffu, 0x00800000u, 0xc2f6e979u};
  static const uint64_t f64[] = {0x0ull, 0x3ff8000000000000ull, 0x8000000000000000ull, 0x7ff0000000000000ull, 0xfff0000000000000ull,
                                 0x7ff8000000000000ull, 0x7ff8000000012345ull, 0xfff8000000000001ull, 0x7ff0000000000001ull,
                                 0x7ff4000000000000ull, 0x1ull, 0x800fffffffffffffull, 0x7fefffffffffffffull, 0x0010000000000000ull, 0xc05edd2f1a9fbe77ull};
  uint64_t c = t.below(3);
  if (c < 2) { uint64_t i = t.below(15); return dbl ? f64[i] : f32[i]; }
  uint64_t r = t.next() * 0x9e3779b97f4a7c15ull ^ t.next();
  return dbl ? r : (r & 0xffffffffu);
}

inline void lcg_fill(std::string& out, size_t n, uint64_t seed) {
  out.resize(n);
  uint64_t x = seed * 6364136223846793005ull + 1442695040888963407ull;
  for (size_t i = 0; i < n; i++) { x = x * 6364136223846793005ull + 1442695040888963407ull; out[i] = char(x >> 56); }
}

// Number of elements for a growable container whose elements occupy `ebytes` payload bytes each
// (0 when unknown / non-scalar).
inline long gen_len(Tape& t, const GenCfg& c, size_t ebytes, long fixed, long maxc, int& budget) {
  if (fixed >= 0) return fixed;
  long n;
  uint64_t ch = t.below(16);
  if (ch == 0) n = 0;
  else if (ch == 1) n = 1;
  else if (ch <= 10) n = (long)t.below(5);
  else if (ch <= 13) n = (long)t.below((uint64_t)c.max_len + 1);
  else if (ch == 14 && ebytes) {  // byte length around the fixint / U8 / U16 class edges
    static const long edges[] = {127, 128, 129, 255, 256, 257};
    n = (edges[t.below(6)] + (long)ebytes - 1) / (long)ebytes;
    if (t.below(2) && n > 0) n -= 1;
  } else if (ch == 15 && ebytes && c.big) {
    static const long edges[] = {65535, 65536, 65537, 70001};
    n = (edges[t.below(4)] + (long)ebytes - 1) / (long)ebytes;
  } else n = (long)t.below(24);
  if (maxc >= 0) {
    uint64_t m = t.below(4);
    if (m == 1) n = maxc; else if (m == 2 && maxc > 0) n = maxc - 1;
    if (n > maxc) n = maxc ? n % (maxc + 1) : 0;
  }
  if (!ebytes && n > budget) n = budget > 0 ? budget : 0;
  return n;
}

inline Value gen_value(const Schema& s, Tape& t, const GenCfg& c, int& budget) {
  Value v;
  budget--;
  switch (s.k) {
    case K::Bool: v.u = t.below(2); break;
    case K::Int: v.u = gen_int(t, s.bits, s.sgn); break;
    case K::F32: v.u = gen_float_bits(t, false); break;
    case K::F64: v.u = gen_float_bits(t, true); break;
    case K::Str: case K::Bin: {
      size_t es = s.bits / 8;
      long n = gen_len(t, c, es, s.fixed, s.maxc, budget);
      size_t nb = (size_t)n * es;
      if (nb <= 16) { v.bytes.resize(nb); for (size_t i = 0; i < nb; i += 8) { uint64_t w = t.next(); for (size_t j = 0; j < 8 && i + j < nb; j++) v.bytes[i + j] = char(w >> (8 * j)); } }
      else lcg_fill(v.bytes, nb, t.next());
      if (s.boolean) for (auto& ch : v.bytes) ch &= 1;   // only valid bool object representations are ever written
      break; }
    case K::Seq: {
      long n = gen_len(t, c, 0, s.fixed, s.maxc, budget);
      if (s.fixed < 0 && budget <= 0) n = 0;
      for (long i = 0; i < n; i++) v.kids.push_back(gen_value(*s.kids[0], t, c, budget));
      break; }
    case K::Tup: case K::Stu:
      for (auto& m : s.kids) v.kids.push_back(gen_value(*m, t, c, budget));
      break;
    case K::Map: {
      long n = gen_len(t, c, 0, -1, -1, budget);
      if (budget <= 0) n = 0;
      std::set<std::string> seen;
      for (long i = 0; i < n; i++) {
        Value k; bool fresh = false;
        for (int tries = 0; tries < 3 && !fresh; tries++) { k = gen_value(*s.kids[0], t, c, budget); fresh = seen.insert(to_text(*s.kids[0], k)).second; }
        if (!fresh) break;
        v.kids.push_back(std::move(k));
        v.kids.push_back(gen_value(*s.kids[1], t, c, budget));
      }
      break; }
    case K::Opt:
      if (t.below(4) == 0) v.tag = 0; else { v.tag = 1; v.kids.push_back(gen_value(*s.kids[0], t, c, budget)); }
      break;
    case K::Res: {
      uint64_t ch = t.below(4);
      if (ch == 0) { v.tag = 1; v.u = 0; }
      else if (ch == 1) { v.tag = 1; v.u = gen_int(t, s.bits, s.sgn); }
      else { v.tag = 2; v.kids.push_back(gen_value(*s.kids[0], t, c, budget)); }
      break; }
    case K::Var: {
      long idx = (long)t.below(s.kids.size() + 1) - 1;
      v.tag = (int)idx;
      if (idx >= 0) v.kids.push_back(gen_value(*s.kids[idx], t, c, budget));
      break; }
    case K::Hnd:
      if (t.below(4) == 0) { v.tag = 0; v.u = 0; } else { v.tag = 1; v.u = 1 + t.below(1000); }
      break;
    case K::Tab:
      for (auto& e : s.entries) {
        Value ev;
        if (e.active && t.below(3) != 0) { ev.tag = 1; ev.kids.push_back(gen_value(*e.type, t, c, budget)); }
        v.kids.push_back(std::move(ev));
      }
      break;
  }
  return v;
}
inline Value gen_value(const Schema& s, Tape& t, const GenCfg& c = GenCfg()) { int b = c.budget; return gen_value(s, t, c, b); }

// The simplest value of a schema (all-zero tape).
inline Value zero_value(const Schema& s) { std::vector<uint64_t> e; Tape t(e); return gen_value(s, t); }

// Deterministic must-hit list: one value per integer class of every field, empty/one/many for
// every container, every alternative and the empty state of each sum type. One-at-a-time
// composition keeps the list linear in the size of the schema.
inline std::vector<Value> variants(const Schema& s, int cap = 48) {
  std::vector<Value> out;
  auto push = [&](Value v) { if ((int)out.size() < cap) out.push_back(std::move(v)); };
  switch (s.k) {
    case K::Bool: { Value a, b; a.u = 0; b.u = 1; push(a); push(b); break; }
    case K::Int: for (int64_t b : int_boundaries()) if (int_fits(b, s.bits, s.sgn)) { Value v; v.u = norm_int((uint64_t)b, s.bits, s.sgn); push(v); } break;
    case K::F32: for (uint32_t b : {0x0u, 0x3fc00000u, 0x7fc12345u, 0xff800000u, 0x7f800001u, 0x00000001u}) { Value v; v.u = b; push(v); } break;
    case K::F64: for (uint64_t b : {0x0ull, 0x3ff8000000000000ull, 0x7ff8000000012345ull, 0xfff0000000000000ull, 0x7ff0000000000001ull, 0x1ull}) { Value v; v.u = b; push(v); } break;
    case K::Str: case K::Bin: {
      size_t es = s.bits / 8;
      std::vector<long> lens;
      if (s.fixed >= 0) lens = {s.fixed};
      else { lens = {0, 1, 3, (long)((127 + es - 1) / es), (long)(128 / es + (128 % es ? 1 : 0)), (long)((255 + es - 1) / es), (long)(256 / es + 1)}; }
      for (long n : lens) {
        if (s.maxc >= 0 && n > s.maxc) n = s.maxc;
        Value v; lcg_fill(v.bytes, (size_t)n * es, (uint64_t)n + 7);
        if (n == 3 && es == 1) v.bytes = std::string("a\0\xff", 3);
        if (s.boolean) for (auto& ch : v.bytes) ch &= 1;
        push(v);
      }
      break; }
    case K::Seq: {
      auto ev = variants(*s.kids[0], cap);
      std::vector<long> lens;
      if (s.fixed >= 0) lens = {s.fixed}; else { lens = {0, 1, 3}; if (s.maxc >= 0) lens.push_back(s.maxc); }
      for (long n : lens) {
        if (s.maxc >= 0 && n > s.maxc) n = s.maxc;
        Value v; for (long i = 0; i < n; i++) v.kids.push_back(ev[(size_t)i % ev.size()]);
        push(v);
      }
      if (s.fixed != 0 && !(s.maxc == 0)) for (auto& e : ev) { Value v; long n = s.fixed >= 0 ? s.fixed : 1; for (long i = 0; i < n; i++) v.kids.push_back(i == 0 ? e : ev[0]); push(v); }
      break; }
    case K::Tup: case K::Stu: {
      std::vector<std::vector<Value>> kv;
      for (auto& m : s.kids) kv.push_back(variants(*m, cap));
      Value base; for (auto& k : kv) base.kids.push_back(k[0]);
      push(base);
      for (size_t i = 0; i < kv.size(); i++) for (size_t j = 1; j < kv[i].size(); j++) { Value v = base; v.kids[i] = kv[i][j]; push(v); }
      break; }
    case K::Map: {
      auto kv = variants(*s.kids[0], cap), vv = variants(*s.kids[1], cap);
      push(Value());
      { Value v; v.kids.push_back(kv[0]); v.kids.push_back(vv[0]); push(v); }
      { Value v; std::set<std::string> seen; for (size_t i = 0; i < kv.size() && i < 6; i++) if (seen.insert(to_text(*s.kids[0], kv[i])).second) { v.kids.push_back(kv[i]); v.kids.push_back(vv[i % vv.size()]); } push(v); }
      for (size_t j = 1; j < vv.size(); j++) { Value v; v.kids.push_back(kv[j % kv.size()]); v.kids.push_back(vv[j]); push(v); }
      break; }
    case K::Opt: { Value e; e.tag = 0; push(e); for (auto& x : variants(*s.kids[0], cap)) { Value v; v.tag = 1; v.kids.push_back(x); push(v); } break; }
    case K::Res: {
      { Value e; e.tag = 1; e.u = 0; push(e); }
      for (int64_t b : {1ll, -1ll, 127ll, 128ll, 255ll, 256ll, -129ll, 65536ll, 2147483647ll}) if (int_fits(b, s.bits, s.sgn)) { Value v; v.tag = 1; v.u = norm_int((uint64_t)b, s.bits, s.sgn); push(v); }
      for (auto& x : variants(*s.kids[0], cap)) { Value v; v.tag = 2; v.kids.push_back(x); push(v); }
      break; }
    case K::Var: {
      { Value e; e.tag = -1; push(e); }
      for (size_t i = 0; i < s.kids.size(); i++) { auto xs = variants(*s.kids[i], cap); for (size_t j = 0; j < xs.size() && (j < 3 || i == 0); j++) { Value v; v.tag = (int)i; v.kids.push_back(xs[j]); push(v); } }
      break; }
    case K::Hnd: { Value e; e.tag = 0; push(e); Value a; a.tag = 1; a.u = 5; push(a); Value b; b.tag = 1; b.u = 700; push(b); break; }
    case K::Tab: {
      std::vector<std::vector<Value>> kv;
      for (auto& e : s.entries) kv.push_back(variants(*e.type, cap));
      Value all, none;
      for (size_t i = 0; i < s.entries.size(); i++) { Value ev; none.kids.push_back(ev); if (s.entries[i].active) { ev.tag = 1; ev.kids.push_back(kv[i][0]); } all.kids.push_back(ev); }
      push(none); push(all);
      for (size_t i = 0; i < s.entries.size(); i++) {
        if (!s.entries[i].active) continue;
        { Value v = all; v.kids[i] = Value(); push(v); }
        { Value v = none; v.kids[i].tag = 1; v.kids[i].kids.push_back(kv[i][0]); push(v); }
        for (size_t j = 1; j < kv[i].size(); j++) { Value v = all; v.kids[i].kids[0] = kv[i][j]; push(v); }
      }
      break; }
  }
  if (out.empty()) out.push_back(zero_value(s));
  return out;
}

// Classification used by evidence: does the encoding of this value exercise anything beyond
// single-byte fixints and empty containers?
struct Shape {
  bool nonfix_int = false;       // some integer field (value, length, count, id, ...) in a non-fixint class
  bool nonempty_container = false;
  bool omitted_entry = false;    // table with an empty active entry
  bool has_handle = false;
  int depth = 0;
  int len_class = 0;             // widest class used by a length/count field
};
inline Shape shape_of(const Schema& s, const Value& v) {
  Shape sh;
  Encoded e = ref_encode(s, v);
  for (auto& f : e.fields) {
    if (f.kind != F::Prefix && !f.fixint) sh.nonfix_int = true;
    if ((f.kind == F::Len || f.kind == F::Count) && f.value > 0) sh.nonempty_container = true;
    if ((f.kind == F::Len || f.kind == F::Count || f.kind == F::EntrySize) && !f.fixint) sh.len_class = std::max(sh.len_class, (int)f.len - 1);
    sh.depth = std::max(sh.depth, f.depth);
  }
  sh.has_handle = e.handles > 0;
  std::function<void(const Schema&, const Value&)> walk = [&](const Schema& a, const Value& x) {
    if (a.k == K::Tab) for (size_t i = 0; i < a.entries.size(); i++) { if (a.entries[i].active && !x.kids[i].tag) sh.omitted_entry = true; if (x.kids[i].tag) walk(*a.entries[i].type, x.kids[i].kids[0]); }
    else if (a.k == K::Seq) for (auto& e2 : x.kids) walk(*a.kids[0], e2);
    else if (a.k == K::Tup || a.k == K::Stu) for (size_t i = 0; i < a.kids.size(); i++) walk(*a.kids[i], x.kids[i]);
    else if (a.k == K::Map) for (size_t i = 0; i + 1 < x.kids.size(); i += 2) { walk(*a.kids[0], x.kids[i]); walk(*a.kids[1], x.kids[i + 1]); }
    else if (a.k == K::Opt && x.tag) walk(*a.kids[0], x.kids[0]);
    else if (a.k == K::Res && x.tag == 2) walk(*a.kids[0], x.kids[0]);
    else if (a.k == K::Var && x.tag >= 0) walk(*a.kids[x.tag], x.kids[0]);
  };
  walk(s, v);
  return sh;
}

}  // namespace vk
