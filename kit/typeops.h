// Type-erased access to one C++ protocol type: make objects, assign/get dynamic values, run the
// library's Serializer/Deserializer over any reader/writer kind. All property logic is written
// against this interface so that it is compiled once, not per type.
#pragma once
#include <memory>
#include "io.h"
#include "meta.h"

namespace vk {

constexpr int kUnsupported = -1000;
constexpr int kNonTermination = -2000;   // the reader call budget was exceeded (see CountingReader)   // reader/writer kind cannot carry this type (no Skip / no handle channel / float via constexpr)

struct Obj {
  virtual ~Obj() {}
  virtual void assign(const Value&) = 0;
  virtual Value get() const = 0;
  virtual size_t get_size() = 0;
  virtual int write(WriterBox&) = 0;   // ErrorStatus as int, 0 = success
  // One Serializer object: GetSize(current value), assign v2 to the SAME object, Write it (buffer kinds only).
  virtual int size_assign_write(WriterBox&, const Value& v2, size_t* first_size) = 0;
  virtual int read(ReaderBox&) = 0;
};

struct TypeOps {
  std::string name;       // C++ spelling
  SchemaP schema;
  bool has_handle = false, has_table = false, has_float = false, unbounded = false;
  size_t elem_max = 0;    // max sizeof of an element of a growable container nested in T (allocation budget)
  std::function<std::unique_ptr<Obj>()> make;
  bool supports_reader(int k) const {
    if (k == R_CPed || k == R_CBuf) return has_table && !has_handle;   // only instantiated where input-driven loops can rewind
    if (has_handle && !rk_has_handles(k)) return false;
    if (has_table && !rk_has_skip(k)) return false;
    return true;
  }
  bool supports_writer(int k) const {
    if (has_handle && !wk_has_handles(k)) return false;
    if (has_table && !wk_has_skip(k)) return false;
    if (has_float && wk_constexpr(k)) return false;
    return true;
  }
};

// Which of the three Serializer / Deserializer forms the buffer kinds go through: 0 Serializer<W*>, 1
// Serializer<std::unique_ptr<W>>, 2 Serializer<W> (the writer state is copied in and back out). Set by a property
// body from its tape; 0 otherwise.
inline int& serializer_form() { static int f = 0; return f; }

template <typename T>
struct ObjOf : Obj {
  using M = MetaOf<T>;
  Holder<T> h;
  void assign(const Value& v) override { M::from_value(v, h.get()); }
  Value get() const override { return M::to_value(const_cast<Holder<T>&>(h).get()); }
  size_t get_size() override { nop::Serializer<LogWriter> s; return s.GetSize(h.get()); }

  int write(WriterBox& w) override {
    const T& obj = h.get();   // values are written through a const reference (a const char[N] must stay an array, not become a C string)
    switch (w.kind) {
      case W_Log: return st(nop::Serializer<LogWriter*>(&w.log).Write(obj));
      case W_BLog: return st(nop::Serializer<nop::BoundedWriter<LogWriter>*>(&w.blog).Write(obj));
      default: break;
    }
    if constexpr (!M::kHandle) {
      switch (w.kind) {
        case W_Buf:
          // the three forms of Serializer (pointer, owning unique_ptr, by value) over the same writer state
          switch (serializer_form()) {
            case 1: { nop::Serializer<std::unique_ptr<nop::BufferWriter>> s{std::make_unique<nop::BufferWriter>(w.buf)}; int r = st(s.Write(obj)); w.buf = s.writer(); return r; }
            case 2: { nop::Serializer<nop::BufferWriter> s{w.buf}; int r = st(s.Write(obj)); w.buf = s.writer(); return r; }
            default: return st(nop::Serializer<nop::BufferWriter*>(&w.buf).Write(obj));
          }
        case W_Ped:
          switch (serializer_form()) {
            case 1: { nop::Serializer<std::unique_ptr<nop::PedanticBufferWriter>> s{std::make_unique<nop::PedanticBufferWriter>(w.ped)}; int r = st(s.Write(obj)); w.ped = s.writer(); return r; }
            case 2: { nop::Serializer<nop::PedanticBufferWriter> s{w.ped}; int r = st(s.Write(obj)); w.ped = s.writer(); return r; }
            default: return st(nop::Serializer<nop::PedanticBufferWriter*>(&w.ped).Write(obj));
          }
        case W_Str: return st(nop::Serializer<SStreamWriter*>(w.str.get()).Write(obj));
        case W_BBuf: return st(nop::Serializer<nop::BoundedWriter<nop::BufferWriter>*>(&w.bbuf).Write(obj));
        case W_BPed: return st(nop::Serializer<nop::BoundedWriter<nop::PedanticBufferWriter>*>(&w.bped).Write(obj));
        case W_BStr: return st(nop::Serializer<nop::BoundedWriter<SStreamWriter>*>(&w.bstr).Write(obj));
        default: break;
      }
      if constexpr (!M::kFloat) {
        switch (w.kind) {
          case W_Cex: return st(nop::Serializer<nop::ConstexprBufferWriter*>(&w.cex).Write(obj));
          case W_BCex: return st(nop::Serializer<nop::BoundedWriter<nop::ConstexprBufferWriter>*>(&w.bcex).Write(obj));
          default: break;
        }
      }
      if constexpr (!M::kTable) {
        if (w.kind == W_Fd) return st(nop::Serializer<nop::FdWriter*>(w.fd.get()).Write(obj));
      }
    }
    return kUnsupported;
  }

  int size_assign_write(WriterBox& w, const Value& v2, size_t* first_size) override {
    if constexpr (!M::kHandle) {
      if (w.kind == W_Buf) { nop::Serializer<nop::BufferWriter*> s(&w.buf); *first_size = s.GetSize(h.get()); assign(v2); return st(s.Write(h.get())); }
      if (w.kind == W_Ped) { nop::Serializer<nop::PedanticBufferWriter*> s(&w.ped); *first_size = s.GetSize(h.get()); assign(v2); return st(s.Write(h.get())); }
    }
    (void)v2; (void)first_size;
    return kUnsupported;
  }
  int read(ReaderBox& r) override {
    T* obj = &h.get();
    switch (r.kind) {
      case R_Log: return st(nop::Deserializer<LogReader*>(&r.log).Read(obj));
      case R_BLog: return st(nop::Deserializer<nop::BoundedReader<LogReader>*>(&r.blog).Read(obj));
      default: break;
    }
    if constexpr (!M::kHandle) {
      switch (r.kind) {
        case R_Buf:
          switch (serializer_form()) {
            case 1: { nop::Deserializer<std::unique_ptr<nop::BufferReader>> d{std::make_unique<nop::BufferReader>(r.buf)}; int x = st(d.Read(obj)); r.buf = d.reader(); return x; }
            case 2: { nop::Deserializer<nop::BufferReader> d{r.buf}; int x = st(d.Read(obj)); r.buf = d.reader(); return x; }
            default: return st(nop::Deserializer<nop::BufferReader*>(&r.buf).Read(obj));
          }
        case R_Ped:
          switch (serializer_form()) {
            case 1: { nop::Deserializer<std::unique_ptr<nop::PedanticBufferReader>> d{std::make_unique<nop::PedanticBufferReader>(r.ped)}; int x = st(d.Read(obj)); r.ped = d.reader(); return x; }
            case 2: { nop::Deserializer<nop::PedanticBufferReader> d{r.ped}; int x = st(d.Read(obj)); r.ped = d.reader(); return x; }
            default: return st(nop::Deserializer<nop::PedanticBufferReader*>(&r.ped).Read(obj));
          }
        case R_Str: return st(nop::Deserializer<SStreamReader*>(r.str.get()).Read(obj));
        case R_FStr: return st(nop::Deserializer<FStreamReader*>(r.fstr.get()).Read(obj));
        case R_BBuf: return st(nop::Deserializer<nop::BoundedReader<nop::BufferReader>*>(&r.bbuf).Read(obj));
        case R_BPed: return st(nop::Deserializer<nop::BoundedReader<nop::PedanticBufferReader>*>(&r.bped).Read(obj));
        case R_BStr: return st(nop::Deserializer<nop::BoundedReader<SStreamReader>*>(&r.bstr).Read(obj));
        default: break;
      }
      if constexpr (!M::kTable) {
        if (r.kind == R_Fd) return st(nop::Deserializer<nop::FdReader*>(r.fd.get()).Read(obj));
      } else {
        try {
          if (r.kind == R_CPed) return st(nop::Deserializer<CountingReader<nop::PedanticBufferReader>*>(&r.cped).Read(obj));
          if (r.kind == R_CBuf) return st(nop::Deserializer<CountingReader<nop::BufferReader>*>(&r.cbuf).Read(obj));
        } catch (const CallBudgetExceeded&) { return kNonTermination; }
      }
    }
    return kUnsupported;
  }
};

template <typename T>
TypeOps make_ops(const char* name, bool unbounded = false, size_t elem_max = 0) {
  using M = MetaOf<T>;
  TypeOps o;
  o.name = name;
  o.schema = M::schema();
  o.has_handle = M::kHandle; o.has_table = M::kTable; o.has_float = M::kFloat;
  o.unbounded = unbounded || has_unbounded(*o.schema);
  o.elem_max = elem_max ? elem_max : M::kElemMax;
  o.make = [] { return std::unique_ptr<Obj>(new ObjOf<T>()); };
  return o;
}

// Each shard translation unit defines this.
std::vector<TypeOps> shard_types();

}  // namespace vk
