#include "rcdrv.h"
#include <rapidcheck.h>
#include <sstream>

namespace vk {

TapeRun rc_tapes(uint64_t seed, int cases, int max_size, double scale, const TapeProp& prop) {
  TapeRun out;
  rc::detail::TestParams params;
  params.seed = seed;
  params.maxSuccess = cases;
  params.maxSize = max_size;
  params.maxDiscardRatio = 10;
  rc::detail::TestMetadata md;
  md.id = "tape";
  md.description = "tape";
  auto gen = rc::gen::scale(scale, rc::gen::container<std::vector<uint64_t>>(rc::gen::arbitrary<uint64_t>()));
  auto result = rc::detail::checkTestable(
      [&] {
        const auto tape = *gen;
        out.cases++;
        std::string m = prop(tape);
        if (!m.empty()) {
          out.tape = tape;
          out.message = m;
          RC_FAIL(m);
        }
      },
      md, params);
  if (result.template is<rc::detail::SuccessResult>()) {
    out.ok = true;
    out.successes = result.template get<rc::detail::SuccessResult>().numSuccess;
  } else if (result.template is<rc::detail::FailureResult>()) {
    out.ok = false;
    const auto& f = result.template get<rc::detail::FailureResult>();
    out.successes = f.numSuccess;
    out.rc_description = f.description;
  } else {
    // GaveUp / Error: not a verdict about the property; report as a harness problem.
    out.ok = false;
    std::ostringstream os;
    if (result.template is<rc::detail::GaveUpResult>()) os << "rapidcheck gave up: " << result.template get<rc::detail::GaveUpResult>().description;
    else os << "rapidcheck error: " << result.template get<rc::detail::Error>().description;
    out.message = "HARNESS: " + os.str();
  }
  return out;
}

std::string tape_text(const std::vector<uint64_t>& t) {
  std::ostringstream os;
  for (size_t i = 0; i < t.size(); i++) { if (i) os << ' '; os << t[i]; }
  return os.str();
}
std::vector<uint64_t> tape_parse(const std::string& s) {
  std::vector<uint64_t> t;
  std::istringstream is(s);
  uint64_t x;
  while (is >> x) t.push_back(x);
  return t;
}

}  // namespace vk
