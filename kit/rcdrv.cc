#include "rcdrv.h"
#include <rapidcheck.h>
#include <sstream>

namespace vk {

TapeRun rc_tapes(uint64_t seed, int cases, int max_size, double scale, const TapeProp& prop) {
  TapeRun out;
  rc::detail::TestParams params;
  params.seed = seed;
  params.maxSuccess = cases;
  params.maxSize = max_size;
  params.maxDiscardRatio = 10;
  rc::detail::TestMetadata md;
  md.id = "tape";
  md.description = "tape";
  // Only the LENGTH of the tape is stretched by `scale`; the words themselves are generated at the
  // unscaled size (scaling them too pushes arbitrary<uint64_t> past its range and biases the bits).
  auto gen = rc::gen::scale(scale, rc::gen::container<std::vector<uint64_t>>(rc::gen::scale(1.0 / scale, rc::gen::arbitrary<uint64_t>())));
  long shrink_calls = 0;
  const long kMaxShrinkCalls = 4000;
  auto result = rc::detail::checkTestable(
      [&] {
        const auto tape = *gen;
        out.cases++;
        // Bound the shrinking effort: after the first failure at most kMaxShrinkCalls further
        // candidates are evaluated; later candidates are reported as passing, which ends the
        // shrink search with the smallest failing tape found so far.
        if (!out.tape.empty() || !out.message.empty()) {
          if (++shrink_calls > kMaxShrinkCalls) return;
        }
        std::string m = prop(tape);
        if (!m.empty()) {
          out.tape = tape;
          out.message = m;
          RC_FAIL(m);
        }
      },
      md, params);
  if (result.template is<rc::detail::SuccessResult>()) {
    out.ok = true;
    out.successes = result.template get<rc::detail::SuccessResult>().numSuccess;
  } else if (result.template is<rc::detail::FailureResult>()) {
    out.ok = false;
    const auto& f = result.template get<rc::detail::FailureResult>();
    out.successes = f.numSuccess;
    out.rc_description = f.description;
  } else {
    // GaveUp / Error: not a verdict about the property; report as a harness problem.
    out.ok = false;
    std::ostringstream os;
    if (result.template is<rc::detail::GaveUpResult>()) os << "rapidcheck gave up: " << result.template get<rc::detail::GaveUpResult>().description;
    else os << "rapidcheck error: " << result.template get<rc::detail::Error>().description;
    out.message = "HARNESS: " + os.str();
  }
  return out;
}

std::string tape_text(const std::vector<uint64_t>& t) {
  std::ostringstream os;
  for (size_t i = 0; i < t.size(); i++) { if (i) os << ' '; os << t[i]; }
  return os.str();
}
std::vector<uint64_t> tape_parse(const std::string& s) {
  std::vector<uint64_t> t;
  std::istringstream is(s);
  uint64_t x;
  while (is >> x) t.push_back(x);
  return t;
}

}  // namespace vk
