// Per-run report: counters, label histogram, samples, failures -> JSON fragment for ./check.
#pragma once
#include <exception>
#include <unistd.h>
#include <cstdint>
#include <cstdio>
#include <cstdlib>
#include <map>
#include <set>
#include <string>
#include <unordered_set>
#include <vector>
#include <unistd.h>

namespace vk {

inline std::string json_escape(const std::string& s) {
  std::string o;
  for (unsigned char c : s) {
    if (c == '"') o += "\\\""; else if (c == '\\') o += "\\\\"; else if (c == '\n') o += "\\n"; else if (c == '\t') o += "\\t";
    else if (c < 0x20 || c >= 0x7f) { char b[8]; snprintf(b, sizeof b, "\\u%04x", c); o += b; } else o += (char)c;
  }
  return o;
}

struct Failure {
  std::string message;     // what went wrong
  std::string case_text;   // replayable text form of the case (written to the replay file)
  std::string key;         // fingerprint used to match known findings
};

struct Report {
  std::string property, tier, unit;   // unit: shard / sub-check name
  uint64_t seed = 0;
  long evaluations = 0;
  std::unordered_set<uint64_t> nontrivial;   // hashes of distinct non-trivial cases
  std::map<std::string, long> labels;
  std::vector<std::string> samples;
  size_t max_samples = 8;
  std::vector<Failure> failures;
  std::map<std::string, long> excluded;      // cases excluded from (part of) the oracle, by reason
  std::map<std::string, std::string> notes;
  bool exhaustive = false;
  std::string out_path;
  // The case currently executing, kept so that a sanitizer abort can still be reported.
  std::string current_case;
  std::string current_detail;   // free text describing what the case is doing right now

  void label(const std::string& l, long n = 1) { labels[l] += n; }
  void exclude(const std::string& why, long n = 1) { excluded[why] += n; }
  // Distinct non-trivial cases are counted through their hashes; the set is capped so that a long campaign
  // does not grow without bound (beyond the cap the count is a lower bound, noted in the labels).
  static constexpr size_t kNontrivCap = 1500000;
  void nontriv(uint64_t h) {
    if (nontrivial.size() < kNontrivCap) nontrivial.insert(h);
    else labels["nontrivial-beyond-hash-cap(not-deduplicated)"]++;
  }
  void sample(const std::string& s) {
    if (samples.size() < max_samples) samples.push_back(s.size() > 600 ? s.substr(0, 600) + "..." : s);
  }
  void fail(const std::string& msg, const std::string& case_text, const std::string& key) {
    if (failures.size() < 20) failures.push_back({msg, case_text, key});
  }
  bool ok() const { return failures.empty(); }

  void merge_counts_from(const Report& o) {
    evaluations += o.evaluations;
    for (auto h : o.nontrivial) nontrivial.insert(h);
    for (auto& l : o.labels) labels[l.first] += l.second;
    for (auto& l : o.excluded) excluded[l.first] += l.second;
    for (auto& s : o.samples) sample(s);
    for (auto& f : o.failures) failures.push_back(f);
  }

  std::string to_json(const char* status) const {
    std::string j = "{";
    auto kv = [&](const std::string& k, const std::string& v, bool str = true) { j += "\"" + k + "\":" + (str ? "\"" + json_escape(v) + "\"" : v) + ","; };
    kv("property", property); kv("tier", tier); kv("unit", unit); kv("status", status);
    kv("seed", std::to_string(seed), false);
    kv("evaluations", std::to_string(evaluations), false);
    kv("distinct_nontrivial", std::to_string(nontrivial.size()), false);
    kv("exhaustive", exhaustive ? "true" : "false", false);
    j += "\"nontrivial_hashes\":[";
    { size_t i = 0; for (auto h : nontrivial) { if (i++) j += ","; j += std::to_string(h); if (i > 200000) break; } }
    j += "],";
    j += "\"labels\":{"; { bool f = true; for (auto& l : labels) { if (!f) j += ","; f = false; j += "\"" + json_escape(l.first) + "\":" + std::to_string(l.second); } } j += "},";
    j += "\"excluded\":{"; { bool f = true; for (auto& l : excluded) { if (!f) j += ","; f = false; j += "\"" + json_escape(l.first) + "\":" + std::to_string(l.second); } } j += "},";
    j += "\"notes\":{"; { bool f = true; for (auto& l : notes) { if (!f) j += ","; f = false; j += "\"" + json_escape(l.first) + "\":\"" + json_escape(l.second) + "\""; } } j += "},";
    j += "\"samples\":["; for (size_t i = 0; i < samples.size(); i++) { if (i) j += ","; j += "\"" + json_escape(samples[i]) + "\""; } j += "],";
    j += "\"failures\":[";
    for (size_t i = 0; i < failures.size(); i++) {
      if (i) j += ",";
      j += "{\"message\":\"" + json_escape(failures[i].message) + "\",\"case\":\"" + json_escape(failures[i].case_text) + "\",\"key\":\"" + json_escape(failures[i].key) + "\"}";
    }
    j += "]}";
    return j;
  }
  void write(const char* status = "done") const {
    if (out_path.empty()) { fprintf(stdout, "%s\n", to_json(status).c_str()); return; }
    std::string tmp = out_path + ".tmp";
    FILE* f = fopen(tmp.c_str(), "w");
    if (!f) return;
    std::string j = to_json(status);
    fwrite(j.data(), 1, j.size(), f); fclose(f);
    rename(tmp.c_str(), out_path.c_str());
  }
};

// One report per process; sanitizer death callback dumps it with the case that was running.
inline Report*& global_report() { static Report* r = nullptr; return r; }

}  // namespace vk

extern "C" void __sanitizer_set_death_callback(void (*)(void));
namespace vk {
inline void on_sanitizer_death() {
  Report* r = global_report();
  if (!r) return;
  static bool once = false; if (once) return; once = true;
  r->fail("sanitizer-abort: while executing [" + r->current_detail + "] (sanitizer report is in the job log)", r->current_case, "sanitizer");
  r->write("sanitizer-abort");
}
// std::terminate (an exception escaping a noexcept function, a second exception during unwinding ...): the case
// that was running is recorded as a failure and the process exits like a failed replay.
inline void on_terminate() {
  Report* r = global_report();
  static bool once = false;
  if (r && !once) {
    once = true;
    r->fail("terminate: std::terminate was called while executing [" + r->current_detail + "] (an exception escaped a noexcept function?)", r->current_case, "terminate");
    r->write("terminated");
  }
  fprintf(stderr, "std::terminate called\n");
  _exit(1);
}
inline void install_report(Report* r) {
  global_report() = r;
  std::set_terminate(on_terminate);
#if defined(__has_feature)
#if __has_feature(address_sanitizer) || __has_feature(thread_sanitizer)
  __sanitizer_set_death_callback(on_sanitizer_death);
#endif
#endif
}

// Minimal argv helper shared by all harness mains.
struct Args {
  std::string prop, tier = "quick", out, replay, unit;
  uint64_t seed = 1;
  int shard = 0, nshards = 1;
  long scale = 1;         // multiplies case counts (thorough)
  std::map<std::string, std::string> kv;
  static Args parse(int argc, char** argv) {
    Args a;
    for (int i = 1; i < argc; i++) {
      std::string k = argv[i];
      auto val = [&]() { return i + 1 < argc ? std::string(argv[++i]) : std::string(); };
      if (k == "--prop") a.prop = val(); else if (k == "--tier") a.tier = val(); else if (k == "--out") a.out = val();
      else if (k == "--replay") a.replay = val(); else if (k == "--seed") a.seed = strtoull(val().c_str(), nullptr, 10);
      else if (k == "--shard") { std::string v = val(); sscanf(v.c_str(), "%d/%d", &a.shard, &a.nshards); }
      else if (k == "--unit") a.unit = val();
      else if (k == "--scale") a.scale = atol(val().c_str());
      else if (k.rfind("--", 0) == 0) a.kv[k.substr(2)] = val();
    }
    if (a.seed == 0) a.seed = 0x5eed;
    return a;
  }
  std::string get(const std::string& k, const std::string& d = "") const { auto it = kv.find(k); return it == kv.end() ? d : it->second; }
  long geti(const std::string& k, long d) const { auto it = kv.find(k); return it == kv.end() ? d : atol(it->second.c_str()); }
};

}  // namespace vk
