// Meta<T>: field-by-field mirror between C++ protocol types and the dynamic Schema/Value model.
// Contains no encoding knowledge beyond "which constructor is this" (integral sequence => BIN
// follows from the documented rule in format.md and is decided from std::is_integral).
#pragma once
#include <new>
#include "core.h"

#include <array>
#include <functional>
#include <map>
#include <string>
#include <tuple>
#include <unordered_map>
#include <vector>

#include <nop/base/array.h>
#include <nop/base/enum.h>
#include <nop/base/handle.h>
#include <nop/types/file_handle.h>
#include <nop/base/map.h>
#include <nop/base/optional.h>
#include <nop/base/pair.h>
#include <nop/base/reference_wrapper.h>
#include <nop/base/result.h>
#include <nop/base/string.h>
#include <nop/base/table.h>
#include <nop/base/tuple.h>
#include <nop/base/variant.h>
#include <nop/base/vector.h>
#include <nop/structure.h>
#include <nop/table.h>
#include <nop/value.h>

#include "tracked.h"

namespace vk {

template <typename T, typename Enable = void>
struct Meta;  // schema(), to_value(), from_value(), kHandle, kTable, kFloat

template <typename... Ts>
constexpr size_t cmax(Ts... xs) { size_t m = 0; ((m = (size_t)xs > m ? (size_t)xs : m), ...); return m; }

template <typename T>
using MetaOf = Meta<std::remove_cv_t<std::remove_reference_t<T>>>;

// Holder: storage for a top-level object of type T (reference_wrapper needs a referent).
template <typename T>
struct Holder { T v{}; T& get() { return v; } };
template <typename U>
struct Holder<std::reference_wrapper<U>> { U target{}; std::reference_wrapper<U> v{target}; std::reference_wrapper<U>& get() { return v; } };

// ---- scalars ---------------------------------------------------------------------------------
template <>
struct Meta<bool> {
  static constexpr bool kHandle = false, kTable = false, kFloat = false;
  static constexpr size_t kElemMax = 0;
  static SchemaP schema() { return s_bool(); }
  static Value to_value(const bool& b) { Value v; unsigned char raw; std::memcpy(&raw, &b, 1); v.u = raw; return v; }
  static void from_value(const Value& v, bool& b) { b = v.u != 0; }
};
template <typename T>
struct Meta<T, std::enable_if_t<std::is_integral<T>::value && !std::is_same<T, bool>::value>> {
  static constexpr bool kHandle = false, kTable = false, kFloat = false;
  static constexpr size_t kElemMax = 0;
  static constexpr bool kSigned = std::is_same<T, char>::value ? false : std::is_signed<T>::value;
  static SchemaP schema() { return s_int(sizeof(T) * 8, kSigned); }
  static Value to_value(const T& x) { Value v; v.u = kSigned ? (uint64_t)(int64_t)x : (uint64_t)(std::make_unsigned_t<T>)x; return v; }
  static void from_value(const Value& v, T& x) { x = (T)v.u; }
};
template <typename T>
struct Meta<T, std::enable_if_t<std::is_enum<T>::value>> {
  using U = std::underlying_type_t<T>;
  static constexpr bool kHandle = false, kTable = false, kFloat = false;
  static constexpr size_t kElemMax = 0;
  static SchemaP schema() { return Meta<U>::schema(); }
  static Value to_value(const T& x) { return Meta<U>::to_value((U)x); }
  static void from_value(const Value& v, T& x) { U u; Meta<U>::from_value(v, u); x = (T)u; }
};
template <>
struct Meta<float> {
  static constexpr bool kHandle = false, kTable = false, kFloat = true;
  static constexpr size_t kElemMax = 0;
  static SchemaP schema() { return s_f32(); }
  static Value to_value(const float& f) { Value v; uint32_t b; std::memcpy(&b, &f, 4); v.u = b; return v; }
  static void from_value(const Value& v, float& f) { uint32_t b = (uint32_t)v.u; std::memcpy(&f, &b, 4); }
};
template <>
struct Meta<double> {
  static constexpr bool kHandle = false, kTable = false, kFloat = true;
  static constexpr size_t kElemMax = 0;
  static SchemaP schema() { return s_f64(); }
  static Value to_value(const double& f) { Value v; std::memcpy(&v.u, &f, 8); return v; }
  static void from_value(const Value& v, double& f) { std::memcpy(&f, &v.u, 8); }
};

// ---- strings ---------------------------------------------------------------------------------
template <typename C, typename Tr, typename A>
struct Meta<std::basic_string<C, Tr, A>> {
  using S = std::basic_string<C, Tr, A>;
  static constexpr bool kHandle = false, kTable = false, kFloat = false;
  static constexpr size_t kElemMax = sizeof(C);
  static SchemaP schema() { return s_str(sizeof(C)); }
  static Value to_value(const S& s) { Value v; v.bytes.assign((const char*)s.data(), s.size() * sizeof(C)); return v; }
  static void from_value(const Value& v, S& s) { s.resize(v.bytes.size() / sizeof(C)); if (!v.bytes.empty()) std::memcpy(&s[0], v.bytes.data(), s.size() * sizeof(C)); }
};

// ---- sequences -------------------------------------------------------------------------------
namespace detail {
template <typename E>
constexpr bool is_bin_elem = std::is_integral<E>::value;

template <typename E>
SchemaP seq_schema(long fixed, long maxc) {
  if constexpr (is_bin_elem<E>) { Schema s = *s_bin(sizeof(E), std::is_same<E, char>::value ? false : std::is_signed<E>::value, fixed, maxc); s.boolean = std::is_same<E, bool>::value; return mk(s); }
  else return s_seq(MetaOf<E>::schema(), fixed, maxc);
}
template <typename E>
Value seq_to_value(const E* p, size_t n) {
  Value v;
  if constexpr (is_bin_elem<E>) { v.bytes.assign((const char*)p, n * sizeof(E)); }
  else { for (size_t i = 0; i < n; i++) v.kids.push_back(MetaOf<E>::to_value(p[i])); }
  return v;
}
template <typename E>
size_t seq_count(const Value& v) { if constexpr (is_bin_elem<E>) return v.bytes.size() / sizeof(E); else return v.kids.size(); }
template <typename E>
void seq_from_value(const Value& v, E* p, size_t n) {
  if constexpr (is_bin_elem<E>) { if (n) std::memcpy((void*)p, v.bytes.data(), std::min(n * sizeof(E), v.bytes.size())); }
  else { for (size_t i = 0; i < n && i < v.kids.size(); i++) MetaOf<E>::from_value(v.kids[i], p[i]); }
}
}  // namespace detail

template <typename E, typename A>
struct Meta<std::vector<E, A>> {
  static_assert(!std::is_same<E, bool>::value, "vector<bool> is not in the pool");
  static constexpr bool kHandle = MetaOf<E>::kHandle, kTable = MetaOf<E>::kTable, kFloat = MetaOf<E>::kFloat;
  static constexpr size_t kElemMax = cmax(sizeof(E), MetaOf<E>::kElemMax);
  static SchemaP schema() { return detail::seq_schema<E>(-1, -1); }
  static Value to_value(const std::vector<E, A>& x) { return detail::seq_to_value<E>(x.data(), x.size()); }
  static void from_value(const Value& v, std::vector<E, A>& x) { x.clear(); x.resize(detail::seq_count<E>(v)); detail::seq_from_value<E>(v, x.data(), x.size()); }
};
template <typename E, std::size_t N>
struct Meta<std::array<E, N>> {
  static constexpr bool kHandle = MetaOf<E>::kHandle, kTable = MetaOf<E>::kTable, kFloat = MetaOf<E>::kFloat;
  static constexpr size_t kElemMax = MetaOf<E>::kElemMax;
  static SchemaP schema() { return detail::seq_schema<E>((long)N, -1); }
  static Value to_value(const std::array<E, N>& x) { return detail::seq_to_value<E>(x.data(), N); }
  static void from_value(const Value& v, std::array<E, N>& x) { detail::seq_from_value<E>(v, x.data(), N); }
};
template <typename E, std::size_t N>
struct Meta<E[N]> {
  static constexpr bool kHandle = MetaOf<E>::kHandle, kTable = MetaOf<E>::kTable, kFloat = MetaOf<E>::kFloat;
  static constexpr size_t kElemMax = MetaOf<E>::kElemMax;
  static SchemaP schema() { return detail::seq_schema<E>((long)N, -1); }
  static Value to_value(const E (&x)[N]) { return detail::seq_to_value<E>(&x[0], N); }
  static void from_value(const Value& v, E (&x)[N]) { detail::seq_from_value<E>(v, &x[0], N); }
};

// Logical buffer helper used by generated Meta specialisations: array storage + size member.
template <typename Buf, typename Size>
struct LBufMeta {
  using E = typename nop::ArrayTraits<Buf>::ElementType;
  static constexpr long Cap = nop::ArrayTraits<Buf>::Length;
  static constexpr size_t kElemMax = MetaOf<E>::kElemMax;
  static SchemaP schema(bool unbounded = false) {
    return with_lbuf(detail::seq_schema<E>(-1, Cap), sizeof(Size) * 8, std::is_signed<Size>::value, unbounded);
  }
  static Value to_value(const Buf& b, const Size& n) {
    size_t cnt = (n < 0) ? 0 : (size_t)n;
    const bool bad = n < 0 || cnt > (size_t)Cap;
    if (cnt > (size_t)Cap) cnt = (size_t)Cap;
    Value v = detail::seq_to_value<E>(&b[0], cnt);
    // an out-of-range size member is reported through the raw-size hook (see from_value), so that a
    // check can tell "logically empty" from "size member invalid"
    if (bad) v.tag = n < 0 ? -1 : (cnt + 1 > 0x7fffffff ? 0x7fffffff : (int)std::min<unsigned long long>((unsigned long long)n, 0x7fffffffull));
    return v;
  }
  static void from_value(const Value& v, Buf& b, Size& n) {
    size_t cnt = detail::seq_count<E>(v);
    detail::seq_from_value<E>(v, &b[0], std::min(cnt, (size_t)Cap));
    n = (Size)cnt;
    // Test hook of the model, not of libnop: a non-zero tag forces the raw size member (used to
    // build objects whose size member is negative or above capacity; Write must reject those).
    if (v.tag != 0) n = (Size)v.tag;
  }
};

// ---- pair / tuple ----------------------------------------------------------------------------
template <typename A, typename B>
struct Meta<std::pair<A, B>> {
  static constexpr bool kHandle = MetaOf<A>::kHandle || MetaOf<B>::kHandle, kTable = MetaOf<A>::kTable || MetaOf<B>::kTable, kFloat = MetaOf<A>::kFloat || MetaOf<B>::kFloat;
  static constexpr size_t kElemMax = cmax(MetaOf<A>::kElemMax, MetaOf<B>::kElemMax);
  static SchemaP schema() { return s_tup({MetaOf<A>::schema(), MetaOf<B>::schema()}); }
  static Value to_value(const std::pair<A, B>& x) { Value v; v.kids.push_back(MetaOf<A>::to_value(x.first)); v.kids.push_back(MetaOf<B>::to_value(x.second)); return v; }
  static void from_value(const Value& v, std::pair<A, B>& x) { MetaOf<A>::from_value(v.kids[0], x.first); MetaOf<B>::from_value(v.kids[1], x.second); }
};
template <typename... Ts>
struct Meta<std::tuple<Ts...>> {
  static constexpr bool kHandle = (MetaOf<Ts>::kHandle || ... || false), kTable = (MetaOf<Ts>::kTable || ... || false), kFloat = (MetaOf<Ts>::kFloat || ... || false);
  static constexpr size_t kElemMax = cmax(MetaOf<Ts>::kElemMax..., 0);
  static SchemaP schema() { return s_tup({MetaOf<Ts>::schema()...}); }
  template <std::size_t... Is>
  static Value tv(const std::tuple<Ts...>& x, std::index_sequence<Is...>) { Value v; (v.kids.push_back(MetaOf<Ts>::to_value(std::get<Is>(x))), ...); return v; }
  template <std::size_t... Is>
  static void fv(const Value& v, std::tuple<Ts...>& x, std::index_sequence<Is...>) { (MetaOf<Ts>::from_value(v.kids[Is], std::get<Is>(x)), ...); }
  static Value to_value(const std::tuple<Ts...>& x) { return tv(x, std::index_sequence_for<Ts...>{}); }
  static void from_value(const Value& v, std::tuple<Ts...>& x) { fv(v, x, std::index_sequence_for<Ts...>{}); }
};

// ---- maps ------------------------------------------------------------------------------------
template <typename M, bool Ordered>
struct MapMeta {
  using Kt = typename M::key_type;
  using Vt = typename M::mapped_type;
  static constexpr bool kHandle = MetaOf<Kt>::kHandle || MetaOf<Vt>::kHandle, kTable = MetaOf<Kt>::kTable || MetaOf<Vt>::kTable, kFloat = MetaOf<Kt>::kFloat || MetaOf<Vt>::kFloat;
  static constexpr size_t kElemMax = cmax(sizeof(std::pair<Kt, Vt>) + 64, MetaOf<Kt>::kElemMax, MetaOf<Vt>::kElemMax);
  static SchemaP schema() { return s_map(MetaOf<Kt>::schema(), MetaOf<Vt>::schema(), Ordered); }
  static Value to_value(const M& m) { Value v; for (auto& e : m) { v.kids.push_back(MetaOf<Kt>::to_value(e.first)); v.kids.push_back(MetaOf<Vt>::to_value(e.second)); } return v; }
  static void from_value(const Value& v, M& m) {
    m.clear();
    for (size_t i = 0; i + 1 < v.kids.size(); i += 2) { Kt k{}; Vt x{}; MetaOf<Kt>::from_value(v.kids[i], k); MetaOf<Vt>::from_value(v.kids[i + 1], x); m.emplace(std::move(k), std::move(x)); }
  }
};
template <typename Kt, typename Vt, typename C, typename A>
struct Meta<std::map<Kt, Vt, C, A>> : MapMeta<std::map<Kt, Vt, C, A>, true> {};
template <typename Kt, typename Vt, typename H, typename E, typename A>
struct Meta<std::unordered_map<Kt, Vt, H, E, A>> : MapMeta<std::unordered_map<Kt, Vt, H, E, A>, false> {};

// ---- reference_wrapper -----------------------------------------------------------------------
template <typename U>
struct Meta<std::reference_wrapper<U>> {
  static constexpr bool kHandle = MetaOf<U>::kHandle, kTable = MetaOf<U>::kTable, kFloat = MetaOf<U>::kFloat;
  static constexpr size_t kElemMax = MetaOf<U>::kElemMax;
  static SchemaP schema() { return MetaOf<U>::schema(); }
  static Value to_value(const std::reference_wrapper<U>& r) { return MetaOf<U>::to_value(r.get()); }
  static void from_value(const Value& v, std::reference_wrapper<U>& r) { MetaOf<U>::from_value(v, r.get()); }
};

// ---- Optional / Entry / Result / Variant / Handle ---------------------------------------------
template <typename T>
struct Meta<nop::Optional<T>> {
  static constexpr bool kHandle = MetaOf<T>::kHandle, kTable = MetaOf<T>::kTable, kFloat = MetaOf<T>::kFloat;
  static constexpr size_t kElemMax = MetaOf<T>::kElemMax;
  static SchemaP schema() { return s_opt(MetaOf<T>::schema()); }
  static Value to_value(const nop::Optional<T>& o) { Value v; if (!o.empty()) { v.tag = 1; v.kids.push_back(MetaOf<T>::to_value(o.get())); } return v; }
  static void from_value(const Value& v, nop::Optional<T>& o) { if (!v.tag) { o.clear(); return; } T t{}; MetaOf<T>::from_value(v.kids[0], t); o = std::move(t); }
};
template <typename E, typename T>
struct Meta<nop::Result<E, T>> {
  using U = std::underlying_type_t<E>;
  static constexpr bool kHandle = MetaOf<T>::kHandle, kTable = MetaOf<T>::kTable, kFloat = MetaOf<T>::kFloat;
  static constexpr size_t kElemMax = MetaOf<T>::kElemMax;
  static SchemaP schema() { return s_res(sizeof(U) * 8, std::is_signed<U>::value, MetaOf<T>::schema()); }
  static Value to_value(const nop::Result<E, T>& r) {
    Value v;
    if (r.has_value()) { v.tag = 2; v.kids.push_back(MetaOf<T>::to_value(r.get())); }
    else { v.tag = 1; v.u = Meta<U>::to_value((U)r.error()).u; }
    return v;
  }
  static void from_value(const Value& v, nop::Result<E, T>& r) {
    if (v.tag == 2) { T t{}; MetaOf<T>::from_value(v.kids[0], t); r = std::move(t); }
    else { U u; Meta<U>::from_value(v, u); r = (E)u; }
  }
};
template <typename... Ts>
struct Meta<nop::Variant<Ts...>> {
  using V = nop::Variant<Ts...>;
  static constexpr bool kHandle = (MetaOf<Ts>::kHandle || ... || false), kTable = (MetaOf<Ts>::kTable || ... || false), kFloat = (MetaOf<Ts>::kFloat || ... || false);
  static constexpr size_t kElemMax = cmax(MetaOf<Ts>::kElemMax..., 0);
  static SchemaP schema() { return s_var({MetaOf<Ts>::schema()...}); }
  static Value to_value(const V& x) {
    Value v; v.tag = x.index();
    x.Visit([&](const auto& e) {
      using E = std::decay_t<decltype(e)>;
      if constexpr (!std::is_same<E, nop::EmptyVariant>::value) v.kids.push_back(MetaOf<E>::to_value(e));
    });
    return v;
  }
  template <std::size_t I>
  static void set(const Value& v, V& x) {
    if constexpr (I < sizeof...(Ts)) {
      // Become + in-place fill: element-typed assignment is ambiguous for nested Variants.
      if ((int)I == v.tag) { using E = std::tuple_element_t<I, std::tuple<Ts...>>; x.Become((std::int32_t)I); MetaOf<E>::from_value(v.kids[0], *x.template get<I>()); }
      else set<I + 1>(v, x);
    }
  }
  static void from_value(const Value& v, V& x) { if (v.tag < 0) { x = nop::EmptyVariant{}; return; } set<0>(v, x); }
};
template <typename P>
struct Meta<nop::Handle<P>> {
  static constexpr bool kHandle = true, kTable = false, kFloat = false;
  static constexpr size_t kElemMax = 0;
  static SchemaP schema() { return s_hnd(P::HandleType()); }
  static Value to_value(const nop::Handle<P>& h) { Value v; if (h) { v.tag = 1; v.u = (uint64_t)(int64_t)h.get(); } return v; }
  static void from_value(const Value& v, nop::Handle<P>& h) { if (v.tag) h = nop::Handle<P>{(typename P::Type)v.u}; else h = nop::Handle<P>{}; }
};

// Handle policy used by the pools: int payload, -1 empty, configurable wire type tag.
template <std::uint64_t TypeTag>
struct TestHandlePolicy {
  using Type = int;
  static constexpr int Default() { return -1; }
  static bool IsValid(const int& v) { return v >= 0; }
  static void Close(int* v) { *v = -1; }
  static int Release(int* v) { int t = *v; *v = -1; return t; }
  static constexpr std::uint64_t HandleType() { return TypeTag; }
};

template <int Tag>
struct Meta<Tracked<Tag>> {
  static constexpr bool kHandle = false, kTable = false, kFloat = false;
  static constexpr size_t kElemMax = 0;
  static SchemaP schema() { Schema s = *s_stu({s_int(32, true)}); s.label = "Tracked"; return mk(s); }
  static Value to_value(const Tracked<Tag>& x) { x.check_alive("inspect"); Value v; Value p; p.u = (uint64_t)(int64_t)x.payload; v.kids.push_back(p); return v; }
  static void from_value(const Value& v, Tracked<Tag>& x) { x.check_alive("assign"); x.payload = (std::int32_t)v.kids[0].u; }
};

// Table entry helpers for generated Meta specialisations.
template <typename T, std::uint64_t Id>
inline Value entry_to_value(const nop::Entry<T, Id, nop::ActiveEntry>& e) { Value v; if (!e.empty()) { v.tag = 1; v.kids.push_back(MetaOf<T>::to_value(e.get())); } return v; }
template <typename T, std::uint64_t Id>
inline Value entry_to_value(const nop::Entry<T, Id, nop::DeletedEntry>&) { return Value(); }
template <typename T, std::uint64_t Id>
inline void entry_from_value(const Value& v, nop::Entry<T, Id, nop::ActiveEntry>& e) { if (!v.tag) { e.clear(); return; }
  // engage the entry in place: for T = Optional<U> the assignment `e = t` is the CONVERTING assignment and an empty
  // t would leave the entry itself empty (an engaged entry holding an empty optional is a different value)
  // (re-constructed rather than assigned, so that the mirror does not depend on Optional's assignment operators)
  using E = nop::Entry<T, Id, nop::ActiveEntry>;
  e.~E();
  new (&e) E(nop::InPlace{});
  MetaOf<T>::from_value(v.kids[0], e.get());
}
template <typename T, std::uint64_t Id>
inline void entry_from_value(const Value&, nop::Entry<T, Id, nop::DeletedEntry>&) {}
template <typename T, std::uint64_t Id, typename Kind>
inline TabEntry entry_schema(const nop::Entry<T, Id, Kind>*) { TabEntry e; e.id = Id; e.active = std::is_same<Kind, nop::ActiveEntry>::value; e.type = MetaOf<T>::schema(); return e; }

}  // namespace vk
