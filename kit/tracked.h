// Lifetime-tracking element type. Every constructor registers `this` in a live set, the
// destructor removes it; double destruction, construction over a live object, and use of a dead
// object are recorded as errors. Optional "throw on the n-th copy/move construction".
#pragma once
#include "kit/allocmeter.h"
#include <cstdint>
#include <set>
#include <string>
#include <stdexcept>
#include <nop/structure.h>

namespace vk {

struct TrackerState {
  std::set<const void*> live;
  long errors = 0;
  std::string first_error;
  long constructed = 0, destroyed = 0;
  long throw_countdown = -1;   // >0: the n-th copy/move/converting construction from now throws
  void error(const std::string& what) { if (!errors++) first_error = what; }
  void reset() { live.clear(); errors = 0; first_error.clear(); constructed = destroyed = 0; throw_countdown = -1; }
};
inline TrackerState& tracker() { static thread_local TrackerState s; return s; }

struct TrackedThrow : std::runtime_error { TrackedThrow() : std::runtime_error("tracked: scripted throw") {} };

template <int Tag>
struct Tracked {
  // First member: ties the object's leading bytes to its address. A container that scribbles over a live
  // value (e.g. by storing into another member of the union that holds it) before destroying it shows here.
  std::uint64_t guard = make_guard(this);
  std::int32_t payload = 0;
  static std::uint64_t make_guard(const void* p) { return 0x7ac4ed0b1ec7f00dull ^ (std::uint64_t)(std::uintptr_t)p; }
  bool intact() const { return guard == make_guard(this); }

  void born() {
    auto& t = tracker();
    AllocMeter::Pause hold;   // the live set is the harness's bookkeeping, not an allocation of the library
    if (!t.live.insert(this).second) t.error("constructed over a live object");
    t.constructed++;
  }
  static void maybe_throw() {
    auto& t = tracker();
    if (t.throw_countdown > 0 && --t.throw_countdown == 0) { t.throw_countdown = -1; throw TrackedThrow(); }
  }
  void check_alive(const char* what) const {
    if (!tracker().live.count(this)) tracker().error(std::string("use of dead object: ") + what);
    else if (!intact()) tracker().error(std::string("live object was overwritten from outside (leading bytes changed): ") + what);
  }

  Tracked() { born(); }
  explicit Tracked(std::int32_t p) : payload(p) { born(); }
  Tracked(const Tracked& o) : payload(o.payload) { o.check_alive("copy source"); maybe_throw(); born(); }
  Tracked(Tracked&& o) noexcept(false) : payload(o.payload) { o.check_alive("move source"); maybe_throw(); born(); }
  template <int Other, typename = std::enable_if_t<Other != Tag>>
  explicit Tracked(const Tracked<Other>& o) : payload(o.payload) { o.check_alive("convert source"); maybe_throw(); born(); }
  Tracked& operator=(const Tracked& o) { check_alive("assign target"); o.check_alive("assign source"); payload = o.payload; return *this; }
  Tracked& operator=(Tracked&& o) { check_alive("move-assign target"); o.check_alive("move-assign source"); payload = o.payload; return *this; }
  ~Tracked() {
    auto& t = tracker();
    if (!t.live.erase(this)) t.error("destroyed an object that is not alive (double destruction)");
    else if (!intact()) t.error("destructor ran on an object whose leading bytes were overwritten while it was alive");
    t.destroyed++;
  }
  bool operator==(const Tracked& o) const { return payload == o.payload; }
  bool operator!=(const Tracked& o) const { return payload != o.payload; }
  bool operator<(const Tracked& o) const { return payload < o.payload; }
  NOP_STRUCTURE(Tracked, payload);
};

}  // namespace vk
