// Dynamic description of protocol types (Schema) and values (Value), independent of libnop's
// templates. Everything the oracles know about the wire format is derived from these.
#pragma once
#include <cstdint>
#include <cstring>
#include <map>
#include <memory>
#include <sstream>
#include <string>
#include <vector>
#include <algorithm>

namespace vk {

using Bytes = std::vector<uint8_t>;

// ErrorStatus numbering of nop/status.h, duplicated here on purpose (the oracle does not
// include libnop). io.h static_asserts that the numbers agree.
enum Err : int {
  E_None = 0, E_UnexpectedEncodingType = 1, E_UnexpectedHandleType = 2, E_UnexpectedVariantType = 3,
  E_InvalidContainerLength = 4, E_InvalidMemberCount = 5, E_InvalidStringLength = 6,
  E_InvalidTableHash = 7, E_InvalidHandleReference = 8, E_InvalidHandleValue = 9,
  E_InvalidInterfaceMethod = 10, E_DuplicateTableEntry = 11, E_ReadLimitReached = 12,
  E_WriteLimitReached = 13, E_StreamError = 14, E_ProtocolError = 15, E_IOError = 16,
  E_SystemError = 17, E_DebugError = 18
};
inline const char* err_name(int e) {
  static const char* n[] = {"None", "UnexpectedEncodingType", "UnexpectedHandleType", "UnexpectedVariantType",
    "InvalidContainerLength", "InvalidMemberCount", "InvalidStringLength", "InvalidTableHash",
    "InvalidHandleReference", "InvalidHandleValue", "InvalidInterfaceMethod", "DuplicateTableEntry",
    "ReadLimitReached", "WriteLimitReached", "StreamError", "ProtocolError", "IOError", "SystemError", "DebugError"};
  return (e >= 0 && e <= 18) ? n[e] : "?";
}

enum class K : uint8_t { Bool, Int, F32, F64, Str, Bin, Seq, Tup, Stu, Map, Opt, Res, Var, Hnd, Tab };

struct Schema;
using SchemaP = std::shared_ptr<const Schema>;

struct TabEntry {
  uint64_t id = 0;
  bool active = true;     // false: Entry<T, Id, DeletedEntry>
  SchemaP type;
};

struct Schema {
  K k = K::Bool;
  // Int: bits/sgn (char = 8/unsigned). Str: bits = char size in bits. Bin: bits = element size
  // in bits, sgn = element signedness (display only). Res: bits/sgn describe the error enum.
  int bits = 0;
  bool sgn = false;
  // Bin/Seq: exact element count (std::array, T[N]) or -1.
  long fixed = -1;
  // Bin/Seq: maximum element count (logical buffer capacity) or -1.
  long maxc = -1;
  // Logical buffers only: width/signedness of the size member (restricts legal counts).
  int size_bits = 0;
  bool size_sgn = false;
  bool unbounded = false;  // NOP_UNBOUNDED_BUFFER
  bool boolean = false;    // Bin whose elements are bool: generated element bytes are 0/1 only
  bool ordered = true;    // Map: std::map (true) / std::unordered_map (false)
  uint64_t hash = 0;      // Tab
  uint64_t htype = 0;     // Hnd: policy handle type
  std::vector<SchemaP> kids;       // Seq: [elem]; Tup/Stu: members; Map: [key,val]; Opt: [T]; Res: [T]; Var: alts
  std::vector<TabEntry> entries;   // Tab
  std::string label;      // C++ spelling, for reports only
};

inline SchemaP mk(Schema s) { return std::make_shared<const Schema>(std::move(s)); }
inline SchemaP s_bool() { Schema s; s.k = K::Bool; s.label = "bool"; return mk(s); }
inline SchemaP s_int(int bits, bool sgn, const char* label = "") { Schema s; s.k = K::Int; s.bits = bits; s.sgn = sgn; s.label = label; return mk(s); }
inline SchemaP s_f32() { Schema s; s.k = K::F32; s.label = "float"; return mk(s); }
inline SchemaP s_f64() { Schema s; s.k = K::F64; s.label = "double"; return mk(s); }
inline SchemaP s_str(int csize) { Schema s; s.k = K::Str; s.bits = csize * 8; return mk(s); }
inline SchemaP s_bin(int esize, bool sgn, long fixed = -1, long maxc = -1) { Schema s; s.k = K::Bin; s.bits = esize * 8; s.sgn = sgn; s.fixed = fixed; s.maxc = maxc; return mk(s); }
inline SchemaP s_seq(SchemaP e, long fixed = -1, long maxc = -1) { Schema s; s.k = K::Seq; s.kids = {e}; s.fixed = fixed; s.maxc = maxc; return mk(s); }
inline SchemaP s_tup(std::vector<SchemaP> m) { Schema s; s.k = K::Tup; s.kids = std::move(m); return mk(s); }
inline SchemaP s_stu(std::vector<SchemaP> m) { Schema s; s.k = K::Stu; s.kids = std::move(m); return mk(s); }
inline SchemaP s_map(SchemaP k, SchemaP v, bool ordered) { Schema s; s.k = K::Map; s.kids = {k, v}; s.ordered = ordered; return mk(s); }
inline SchemaP s_opt(SchemaP t) { Schema s; s.k = K::Opt; s.kids = {t}; return mk(s); }
inline SchemaP s_res(int ebits, bool esgn, SchemaP t) { Schema s; s.k = K::Res; s.bits = ebits; s.sgn = esgn; s.kids = {t}; return mk(s); }
inline SchemaP s_var(std::vector<SchemaP> a) { Schema s; s.k = K::Var; s.kids = std::move(a); return mk(s); }
inline SchemaP s_hnd(uint64_t htype) { Schema s; s.k = K::Hnd; s.htype = htype; return mk(s); }
inline SchemaP s_tab(uint64_t hash, std::vector<TabEntry> e) { Schema s; s.k = K::Tab; s.hash = hash; s.entries = std::move(e); return mk(s); }

inline bool is_integral_elem(const Schema& s) { return s.k == K::Int || s.k == K::Bool; }

// Builds the schema of a sequence container whose element schema is `e`: integral elements make
// it a BIN container, everything else an ARY container (format.md, "Array Container").
inline SchemaP s_sequence(SchemaP e, long fixed = -1, long maxc = -1) {
  if (e->k == K::Int) return s_bin(e->bits / 8, e->sgn, fixed, maxc);
  return s_seq(e, fixed, maxc);
}
inline SchemaP with_lbuf(SchemaP seq, int size_bits, bool size_sgn, bool unbounded) {
  Schema s = *seq; s.size_bits = size_bits; s.size_sgn = size_sgn; s.unbounded = unbounded; return mk(s);
}

// ---------------------------------------------------------------------------------------------
// Value: dynamic value tree.
//   Bool/Int: u (two's complement, sign- or zero-extended to 64 bits)
//   F32/F64: u = bit pattern
//   Str/Bin: bytes = raw little-endian payload
//   Seq/Tup/Stu: kids
//   Map: kids = k0,v0,k1,v1,...
//   Opt: tag 0 empty / 1 present (kids[0])
//   Res: tag 1 error (u = code, 0 == None == empty state) / 2 value (kids[0])
//   Var: tag = active index or -1, kids[0] if tag >= 0
//   Hnd: tag 0 empty / 1 valid, u = handle payload (the resource it denotes)
//   Tab: kids per schema entry; each kid has tag 0 empty / 1 present with kids[0]
struct Value {
  uint64_t u = 0;
  int tag = 0;
  std::string bytes;
  std::vector<Value> kids;
  bool operator==(const Value& o) const { return u == o.u && tag == o.tag && bytes == o.bytes && kids == o.kids; }
  bool operator!=(const Value& o) const { return !(*this == o); }
};

inline uint64_t mask_bits(int bits) { return bits >= 64 ? ~0ull : ((1ull << bits) - 1); }
inline uint64_t norm_int(uint64_t u, int bits, bool sgn) {
  u &= mask_bits(bits);
  if (sgn && bits < 64 && (u >> (bits - 1)) & 1) u |= ~mask_bits(bits);
  return u;
}

inline void hex_to(std::ostream& os, const uint8_t* p, size_t n) {
  static const char* d = "0123456789abcdef";
  for (size_t i = 0; i < n; i++) { os << d[p[i] >> 4] << d[p[i] & 15]; }
}
inline std::string hex(const Bytes& b) { std::ostringstream os; hex_to(os, b.data(), b.size()); return os.str(); }
inline std::string hex(const std::string& b) { std::ostringstream os; hex_to(os, (const uint8_t*)b.data(), b.size()); return os.str(); }
inline Bytes unhex(const std::string& s) {
  Bytes b; auto v = [](char c) { return c <= '9' ? c - '0' : (c | 32) - 'a' + 10; };
  for (size_t i = 0; i + 1 < s.size(); i += 2) b.push_back(uint8_t(v(s[i]) << 4 | v(s[i + 1])));
  return b;
}

inline void text_to(std::ostream& os, const Schema& s, const Value& v, int depth = 0) {
  auto abbrev = [&](const std::string& b) {
    if (b.size() <= 24) { os << hex(b); return; }
    os << hex(b.substr(0, 12)) << ".." << hex(b.substr(b.size() - 4)) << "(" << b.size() << "B)";
  };
  switch (s.k) {
    case K::Bool: os << (v.u ? "true" : "false"); break;
    case K::Int: if (s.sgn) os << (int64_t)v.u; else os << v.u; break;
    case K::F32: os << "f32:0x" << std::hex << v.u << std::dec; break;
    case K::F64: os << "f64:0x" << std::hex << v.u << std::dec; break;
    case K::Str: os << "str" << s.bits / 8 << ":"; abbrev(v.bytes); break;
    case K::Bin: os << "bin" << s.bits / 8 << ":"; abbrev(v.bytes); break;
    case K::Seq: {
      os << "[";
      size_t n = v.kids.size();
      for (size_t i = 0; i < n; i++) {
        if (n > 8 && i == 4) { os << " ..(" << n << ")"; i = n - 2; continue; }
        if (i) os << " ";
        text_to(os, *s.kids[0], v.kids[i], depth + 1);
      }
      os << "]"; break; }
    case K::Tup: case K::Stu: {
      os << (s.k == K::Tup ? "(" : "{");
      for (size_t i = 0; i < v.kids.size() && i < s.kids.size(); i++) { if (i) os << " "; text_to(os, *s.kids[i], v.kids[i], depth + 1); }
      os << (s.k == K::Tup ? ")" : "}"); break; }
    case K::Map: {
      os << "map{";
      size_t n = v.kids.size() / 2;
      for (size_t i = 0; i < n; i++) {
        if (n > 6 && i == 3) { os << " ..(" << n << ")"; i = n - 2; continue; }
        if (i) os << " ";
        text_to(os, *s.kids[0], v.kids[2 * i], depth + 1); os << "=>"; text_to(os, *s.kids[1], v.kids[2 * i + 1], depth + 1);
      }
      os << "}"; break; }
    case K::Opt: if (v.tag) { os << "some:"; text_to(os, *s.kids[0], v.kids[0], depth + 1); } else os << "nil"; break;
    case K::Res: if (v.tag == 2) { os << "ok:"; text_to(os, *s.kids[0], v.kids[0], depth + 1); } else os << "err:" << (int64_t)v.u; break;
    case K::Var: if (v.tag >= 0) { os << "var" << v.tag << ":"; text_to(os, *s.kids[v.tag], v.kids[0], depth + 1); } else os << "var-1"; break;
    case K::Hnd: if (v.tag) os << "hnd:" << (int64_t)v.u; else os << "hnd:empty"; break;
    case K::Tab: {
      os << "tab{";
      for (size_t i = 0; i < s.entries.size() && i < v.kids.size(); i++) {
        if (i) os << " ";
        os << s.entries[i].id << (s.entries[i].active ? "" : "(del)") << ":";
        if (v.kids[i].tag) text_to(os, *s.entries[i].type, v.kids[i].kids[0], depth + 1); else os << "-";
      }
      os << "}"; break; }
  }
}
inline std::string to_text(const Schema& s, const Value& v) { std::ostringstream os; text_to(os, s, v); return os.str(); }

inline void schema_text_to(std::ostream& os, const Schema& s) {
  switch (s.k) {
    case K::Bool: os << "bool"; break;
    case K::Int: os << (s.sgn ? "i" : "u") << s.bits; break;
    case K::F32: os << "f32"; break;
    case K::F64: os << "f64"; break;
    case K::Str: os << "str" << s.bits / 8; break;
    case K::Bin: os << "bin<" << (s.sgn ? "i" : "u") << s.bits; if (s.fixed >= 0) os << ";=" << s.fixed; if (s.maxc >= 0) os << ";<=" << s.maxc << (s.size_sgn ? ",i" : ",u") << s.size_bits; os << ">"; break;
    case K::Seq: os << "seq<"; schema_text_to(os, *s.kids[0]); if (s.fixed >= 0) os << ";=" << s.fixed; if (s.maxc >= 0) os << ";<=" << s.maxc << (s.size_sgn ? ",i" : ",u") << s.size_bits; os << ">"; break;
    case K::Tup: case K::Stu: os << (s.k == K::Tup ? "tup<" : "stu<"); for (size_t i = 0; i < s.kids.size(); i++) { if (i) os << ","; schema_text_to(os, *s.kids[i]); } os << ">"; break;
    case K::Map: os << (s.ordered ? "map<" : "umap<"); schema_text_to(os, *s.kids[0]); os << ","; schema_text_to(os, *s.kids[1]); os << ">"; break;
    case K::Opt: os << "opt<"; schema_text_to(os, *s.kids[0]); os << ">"; break;
    case K::Res: os << "res<" << (s.sgn ? "i" : "u") << s.bits << ","; schema_text_to(os, *s.kids[0]); os << ">"; break;
    case K::Var: os << "var<"; for (size_t i = 0; i < s.kids.size(); i++) { if (i) os << ","; schema_text_to(os, *s.kids[i]); } os << ">"; break;
    case K::Hnd: os << "hnd<" << s.htype << ">"; break;
    case K::Tab: os << "tab<#" << std::hex << s.hash << std::dec; for (auto& e : s.entries) { os << "," << e.id << (e.active ? ":" : "(del):"); schema_text_to(os, *e.type); } os << ">"; break;
  }
}
inline std::string schema_text(const Schema& s) { std::ostringstream os; schema_text_to(os, s); return os.str(); }

inline bool has_kind(const Schema& s, K k) {
  if (s.k == k) return true;
  for (auto& c : s.kids) if (has_kind(*c, k)) return true;
  for (auto& e : s.entries) if (has_kind(*e.type, k)) return true;
  return false;
}
inline bool has_unbounded(const Schema& s) {
  if (s.unbounded) return true;
  for (auto& c : s.kids) if (has_unbounded(*c)) return true;
  for (auto& e : s.entries) if (has_unbounded(*e.type)) return true;
  return false;
}
inline bool has_unordered(const Schema& s) {
  if (s.k == K::Map && !s.ordered) return true;
  for (auto& c : s.kids) if (has_unordered(*c)) return true;
  for (auto& e : s.entries) if (has_unordered(*e.type)) return true;
  return false;
}

inline uint64_t fnv1a(const void* p, size_t n, uint64_t h = 1469598103934665603ull) {
  const uint8_t* b = (const uint8_t*)p;
  for (size_t i = 0; i < n; i++) { h ^= b[i]; h *= 1099511628211ull; }
  return h;
}
inline uint64_t hash_str(const std::string& s) { return fnv1a(s.data(), s.size()); }

// Handles in a value, in encounter (encoding) order.
inline void collect_handles(const Schema& s, const Value& v, std::vector<const Value*>& out) {
  switch (s.k) {
    case K::Hnd: out.push_back(&v); break;
    case K::Seq: for (auto& e : v.kids) collect_handles(*s.kids[0], e, out); break;
    case K::Tup: case K::Stu: for (size_t i = 0; i < s.kids.size() && i < v.kids.size(); i++) collect_handles(*s.kids[i], v.kids[i], out); break;
    case K::Map: for (size_t i = 0; i + 1 < v.kids.size(); i += 2) { collect_handles(*s.kids[0], v.kids[i], out); collect_handles(*s.kids[1], v.kids[i + 1], out); } break;
    case K::Opt: if (v.tag) collect_handles(*s.kids[0], v.kids[0], out); break;
    case K::Res: if (v.tag == 2) collect_handles(*s.kids[0], v.kids[0], out); break;
    case K::Var: if (v.tag >= 0) collect_handles(*s.kids[v.tag], v.kids[0], out); break;
    case K::Tab: for (size_t i = 0; i < s.entries.size() && i < v.kids.size(); i++) if (s.entries[i].active && v.kids[i].tag) collect_handles(*s.entries[i].type, v.kids[i].kids[0], out); break;
    default: break;
  }
}

}  // namespace vk
