// Reference encoder / decoder for the libnop wire format, written from docs/format.md and the
// format diagrams at the top of include/nop/base/*.h. It never calls into libnop.
#pragma once
#include "core.h"
#include <functional>
#include <set>

namespace vk {

// ----- prefix bytes (docs/format.md "Prefix Definitions") -------------------------------------
enum : uint8_t {
  P_U8 = 0x80, P_U16 = 0x81, P_U32 = 0x82, P_U64 = 0x83, P_I8 = 0x84, P_I16 = 0x85, P_I32 = 0x86, P_I64 = 0x87,
  P_F32 = 0x88, P_F64 = 0x89, P_RES_MIN = 0x8a, P_RES_MAX = 0xb4, P_TAB = 0xb5, P_ERR = 0xb6, P_HND = 0xb7,
  P_VAR = 0xb8, P_STU = 0xb9, P_ARY = 0xba, P_MAP = 0xbb, P_BIN = 0xbc, P_STR = 0xbd, P_NIL = 0xbe, P_EXT = 0xbf
};

// What an integer field in an encoding is used for.
enum class F : uint8_t { Value, ErrCode, Len, Count, MemberCount, VarIndex, HType, HRef, Hash, EntryCount, EntryId, EntrySize, Prefix };
inline const char* fkind_name(F f) {
  static const char* n[] = {"value", "errcode", "len", "count", "membercount", "varindex", "htype", "href", "hash", "entrycount", "entryid", "entrysize", "prefix"};
  return n[(int)f];
}

struct Field {
  F kind; size_t off = 0, len = 0; int bits = 64; bool sgn = false; int depth = 0;
  K owner = K::Int;        // kind of the schema node the field belongs to
  uint64_t value = 0;      // logical value written (two's complement)
  bool fixint = true;      // encoded as a single-byte fixint
};

// Integer encoding classes.
enum Cls : int { C_MIN = -1, C_FIX = 0, C_U8, C_U16, C_U32, C_U64, C_I8, C_I16, C_I32, C_I64 };
inline int cls_width(int c) { switch (c) { case C_U8: case C_I8: return 1; case C_U16: case C_I16: return 2; case C_U32: case C_I32: return 4; case C_U64: case C_I64: return 8; default: return 0; } }
inline bool cls_signed(int c) { return c >= C_I8; }
inline uint8_t cls_prefix(int c) { return uint8_t(0x80 + (c - C_U8)); }
inline const char* cls_name(int c) { static const char* n[] = {"FIX", "U8", "U16", "U32", "U64", "I8", "I16", "I32", "I64"}; return c < 0 ? "MIN" : n[c]; }

inline int min_cls_unsigned(uint64_t u) { return u < 128 ? C_FIX : u < 256 ? C_U8 : u < 65536 ? C_U16 : u < (1ull << 32) ? C_U32 : C_U64; }
inline int min_cls_signed(int64_t v) {
  return (v >= -64 && v <= 127) ? C_FIX : (v >= -128 && v <= 127) ? C_I8 : (v >= -32768 && v <= 32767) ? C_I16
       : (v >= -2147483648ll && v <= 2147483647ll) ? C_I32 : C_I64;
}

// A change applied to the n-th integer/prefix field emitted by ref_encode (traversal order).
struct Override {
  enum What { None, ForceClass, SetValue, SetPrefixByte, EntrySizeDelta, RawFix, RawBytes } what = None;
  Bytes raw;                // RawBytes: replaces the whole field encoding
  int cls = C_MIN;          // ForceClass
  uint64_t value = 0;       // SetValue / SetPrefixByte / RawFix (raw single byte)
  long delta = 0;           // EntrySizeDelta: added to the declared entry size
  bool pad = false;         // EntrySizeDelta with delta > 0: also append that many padding bytes
};

struct EncodeOpts {
  std::map<size_t, Override> overrides;   // key: field ordinal
  std::vector<int64_t> refs;              // handle references to use, in encounter order
  bool has_refs = false;
  uint8_t pad_byte = 0x00;
};

struct Encoded {
  Bytes bytes;
  std::vector<Field> fields;
  std::vector<std::pair<size_t, size_t>> padding;  // [off, off+len) ranges whose content is unspecified
  size_t handles = 0;
};

namespace detail {

inline void put_le(Bytes& out, uint64_t u, int n) { for (int i = 0; i < n; i++) out.push_back(uint8_t(u >> (8 * i))); }

struct Enc {
  Encoded r;
  const EncodeOpts& o;
  size_t next_ref = 0;
  size_t ord_base = 0;   // ordinal of this (sub-)encoder's first field
  size_t pending_slack = 0;  // bytes by which GetSize over-estimates handles not yet absorbed by an entry's padding
  explicit Enc(const EncodeOpts& opts) : o(opts) {}

  const Override* ov() {
    auto it = o.overrides.find(ord_base + r.fields.size());
    return it == o.overrides.end() ? nullptr : &it->second;
  }
  void prefix(uint8_t p, K owner, int depth) {
    const Override* v = ov();
    Field f; f.kind = F::Prefix; f.off = r.bytes.size(); f.len = 1; f.owner = owner; f.depth = depth; f.value = p;
    if (v && v->what == Override::SetPrefixByte) p = uint8_t(v->value);
    r.bytes.push_back(p);
    r.fields.push_back(f);
  }
  // Emits integer `u` (two's complement) for a field whose documented class is (bits, sgn).
  void integer(F kind, uint64_t u, int bits, bool sgn, K owner, int depth) {
    const Override* v = ov();
    Field f; f.kind = kind; f.off = r.bytes.size(); f.bits = bits; f.sgn = sgn; f.owner = owner; f.depth = depth;
    if (v && v->what == Override::SetValue) u = v->value;
    f.value = u;
    if (v && v->what == Override::RawFix) { r.bytes.push_back(uint8_t(v->value)); f.len = 1; r.fields.push_back(f); return; }
    if (v && v->what == Override::RawBytes) { r.bytes.insert(r.bytes.end(), v->raw.begin(), v->raw.end()); f.len = v->raw.size(); r.fields.push_back(f); return; }
    int c = sgn ? min_cls_signed((int64_t)u) : min_cls_unsigned(u);
    if (v && v->what == Override::ForceClass) c = v->cls;
    if (c == C_FIX) { r.bytes.push_back(uint8_t(u)); }
    else { r.bytes.push_back(cls_prefix(c)); put_le(r.bytes, u, cls_width(c)); f.fixint = false; }
    f.len = r.bytes.size() - f.off;
    if (kind == F::HRef && f.len < 9) pending_slack += 9 - f.len;
    r.fields.push_back(f);
  }
  void raw(const std::string& b) { r.bytes.insert(r.bytes.end(), b.begin(), b.end()); }
  int64_t ref_for(const Value& h) {
    size_t i = next_ref++;
    r.handles++;
    if (!h.tag) return -1;   // empty handle: kEmptyHandleReference
    if (o.has_refs && i < o.refs.size()) return o.refs[i];
    return (int64_t)i;
  }
};

// Upper bound libnop documents for the encoded size: exact, except that every handle reference
// is counted as a full I64 (base/handle.h) and table entries are sized with that estimate.
inline size_t usize(uint64_t u) { int c = min_cls_unsigned(u); return 1 + cls_width(c); }
inline size_t ssize(int64_t v) { int c = min_cls_signed(v); return 1 + cls_width(c); }
inline size_t size_upper(const Schema& s, const Value& v) {
  switch (s.k) {
    case K::Bool: return 1;
    case K::Int: return s.sgn ? ssize((int64_t)v.u) : usize(v.u);
    case K::F32: return 5;
    case K::F64: return 9;
    case K::Str: case K::Bin: return 1 + usize(v.bytes.size()) + v.bytes.size();
    case K::Seq: { size_t n = 1 + usize(v.kids.size()); for (auto& e : v.kids) n += size_upper(*s.kids[0], e); return n; }
    case K::Tup: case K::Stu: { size_t n = 1 + usize(s.kids.size()); for (size_t i = 0; i < s.kids.size(); i++) n += size_upper(*s.kids[i], v.kids[i]); return n; }
    case K::Map: { size_t n = 1 + usize(v.kids.size() / 2); for (size_t i = 0; i + 1 < v.kids.size(); i += 2) n += size_upper(*s.kids[0], v.kids[i]) + size_upper(*s.kids[1], v.kids[i + 1]); return n; }
    case K::Opt: return v.tag ? size_upper(*s.kids[0], v.kids[0]) : 1;
    case K::Res: return v.tag == 2 ? size_upper(*s.kids[0], v.kids[0]) : 1 + (s.sgn ? ssize((int64_t)v.u) : usize(v.u));
    case K::Var: return 1 + ssize(v.tag) + (v.tag >= 0 ? size_upper(*s.kids[v.tag], v.kids[0]) : 1);
    case K::Hnd: return 1 + usize(s.htype) + 9;
    case K::Tab: {
      size_t n = 1 + usize(s.hash), cnt = 0;
      for (size_t i = 0; i < s.entries.size(); i++) {
        if (!s.entries[i].active || !v.kids[i].tag) continue;
        cnt++;
        size_t es = size_upper(*s.entries[i].type, v.kids[i].kids[0]);
        n += usize(s.entries[i].id) + usize(es) + es;
      }
      return n + usize(cnt); }
  }
  return 0;
}

inline void enc(Enc& e, const Schema& s, const Value& v, int depth) {
  switch (s.k) {
    case K::Bool: e.integer(F::Value, v.u ? 1 : 0, 8, false, K::Bool, depth); break;
    case K::Int: e.integer(F::Value, v.u, s.bits, s.sgn, K::Int, depth); break;
    case K::F32: e.prefix(P_F32, s.k, depth); put_le(e.r.bytes, v.u, 4); break;
    case K::F64: e.prefix(P_F64, s.k, depth); put_le(e.r.bytes, v.u, 8); break;
    case K::Str: e.prefix(P_STR, s.k, depth); e.integer(F::Len, v.bytes.size(), 64, false, s.k, depth); e.raw(v.bytes); break;
    case K::Bin: e.prefix(P_BIN, s.k, depth); e.integer(F::Len, v.bytes.size(), 64, false, s.k, depth); e.raw(v.bytes); break;
    case K::Seq:
      e.prefix(P_ARY, s.k, depth); e.integer(F::Count, v.kids.size(), 64, false, s.k, depth);
      for (auto& x : v.kids) enc(e, *s.kids[0], x, depth + 1);
      break;
    case K::Tup:
      e.prefix(P_ARY, s.k, depth); e.integer(F::Count, s.kids.size(), 64, false, s.k, depth);
      for (size_t i = 0; i < s.kids.size(); i++) enc(e, *s.kids[i], v.kids[i], depth + 1);
      break;
    case K::Stu:
      e.prefix(P_STU, s.k, depth); e.integer(F::MemberCount, s.kids.size(), 64, false, s.k, depth);
      for (size_t i = 0; i < s.kids.size(); i++) enc(e, *s.kids[i], v.kids[i], depth + 1);
      break;
    case K::Map:
      e.prefix(P_MAP, s.k, depth); e.integer(F::Count, v.kids.size() / 2, 64, false, s.k, depth);
      for (size_t i = 0; i + 1 < v.kids.size(); i += 2) { enc(e, *s.kids[0], v.kids[i], depth + 1); enc(e, *s.kids[1], v.kids[i + 1], depth + 1); }
      break;
    case K::Opt:
      if (v.tag) enc(e, *s.kids[0], v.kids[0], depth); else e.prefix(P_NIL, s.k, depth);
      break;
    case K::Res:
      if (v.tag == 2) enc(e, *s.kids[0], v.kids[0], depth);
      else { e.prefix(P_ERR, s.k, depth); e.integer(F::ErrCode, v.u, s.bits, s.sgn, s.k, depth); }
      break;
    case K::Var:
      e.prefix(P_VAR, s.k, depth); e.integer(F::VarIndex, (uint64_t)(int64_t)v.tag, 32, true, s.k, depth);
      if (v.tag >= 0 && (size_t)v.tag < s.kids.size()) enc(e, *s.kids[v.tag], v.kids[0], depth + 1);
      else e.prefix(P_NIL, s.k, depth + 1);
      break;
    case K::Hnd: {
      e.prefix(P_HND, s.k, depth); e.integer(F::HType, s.htype, 64, false, s.k, depth);
      int64_t ref = e.ref_for(v);
      e.integer(F::HRef, (uint64_t)ref, 64, true, s.k, depth);
      break; }
    case K::Tab: {
      e.prefix(P_TAB, s.k, depth); e.integer(F::Hash, s.hash, 64, false, s.k, depth);
      size_t cnt = 0;
      for (size_t i = 0; i < s.entries.size(); i++) if (s.entries[i].active && v.kids[i].tag) cnt++;
      e.integer(F::EntryCount, cnt, 64, false, s.k, depth);
      for (size_t i = 0; i < s.entries.size(); i++) {
        if (!s.entries[i].active || !v.kids[i].tag) continue;
        e.integer(F::EntryId, s.entries[i].id, 64, false, s.k, depth);
        const Override* ovr = e.ov();
        // Encode the entry's value first (into a sub-encoder that continues the field ordinals
        // after the size field) so that the declared size is consistent with the bytes that
        // follow, including any padding introduced further inside.
        Enc sub(e.o);
        sub.next_ref = e.next_ref; sub.ord_base = e.ord_base + e.r.fields.size() + 1;
        enc(sub, *s.entries[i].type, v.kids[i].kids[0], depth + 1);
        e.next_ref = sub.next_ref; e.r.handles += sub.r.handles;
        size_t used = sub.r.bytes.size();
        // GetSize counts every handle reference as a full I64 (9 bytes): the documented over-estimate.
        size_t slack = sub.pending_slack;   // handles inside nested entries were already padded there
        size_t declared = used + slack;
        long delta = 0; bool pad = false;
        if (ovr && ovr->what == Override::EntrySizeDelta) { delta = ovr->delta; pad = ovr->pad; }
        uint64_t written = (uint64_t)((long)declared + delta);
        {
          Field f; f.kind = F::EntrySize; f.off = e.r.bytes.size(); f.bits = 64; f.sgn = false; f.owner = s.k; f.depth = depth; f.value = written;
          int c = min_cls_unsigned(written);
          if (ovr && ovr->what == Override::ForceClass) c = ovr->cls;
          if (ovr && ovr->what == Override::SetValue) { written = ovr->value; f.value = written; c = min_cls_unsigned(written); }
          if (c == C_FIX) e.r.bytes.push_back(uint8_t(written)); else { e.r.bytes.push_back(cls_prefix(c)); put_le(e.r.bytes, written, cls_width(c)); f.fixint = false; }
          f.len = e.r.bytes.size() - f.off;
          e.r.fields.push_back(f);
        }
        size_t start = e.r.bytes.size();
        for (auto f : sub.r.fields) { f.off += start; e.r.fields.push_back(f); }
        for (auto pr : sub.r.padding) e.r.padding.push_back({pr.first + start, pr.second});
        e.r.bytes.insert(e.r.bytes.end(), sub.r.bytes.begin(), sub.r.bytes.end());
        size_t padn = slack;
        if (delta > 0 && pad) padn += (size_t)delta;
        if (padn) { e.r.padding.push_back({e.r.bytes.size(), padn}); e.r.bytes.insert(e.r.bytes.end(), padn, e.o.pad_byte); }
      }
      break; }
  }
}

}  // namespace detail

inline Encoded ref_encode(const Schema& s, const Value& v, const EncodeOpts& o = EncodeOpts()) {
  detail::Enc e(o);
  detail::enc(e, s, v, 0);
  return std::move(e.r);
}
inline size_t ref_size_upper(const Schema& s, const Value& v) { return detail::size_upper(s, v); }

// Compares library bytes with reference bytes, ignoring the content of padding ranges.
inline bool bytes_equal_mod_padding(const Bytes& a, const Encoded& ref, size_t* first_diff = nullptr) {
  if (a.size() != ref.bytes.size()) { if (first_diff) *first_diff = std::min(a.size(), ref.bytes.size()); return false; }
  for (size_t i = 0; i < a.size(); i++) {
    if (a[i] == ref.bytes[i]) continue;
    bool pad = false;
    for (auto& p : ref.padding) if (i >= p.first && i < p.first + p.second) pad = true;
    if (!pad) { if (first_diff) *first_diff = i; return false; }
  }
  return true;
}

// ---------------------------------------------------------------------------------------------
// Reference decoder: the documented language.

struct DecodeOpts {
  // Handle reference -> payload resolution (models the reader's out-of-band table). A reference
  // that is not in the table resolves to InvalidHandleReference; -1 resolves to an empty handle.
  const std::map<int64_t, int64_t>* handles = nullptr;
  // Error to report for a resolvable-but-scripted-to-fail reference (harness use).
  const std::map<int64_t, int>* handle_errors = nullptr;
};

struct Decoded {
  bool ok = false;
  int err = E_None;
  size_t err_off = 0;      // offset at which the reference decoder gave up
  Value value;
  size_t consumed = 0;
  bool dup_map_keys = false;      // a MAP carried the same key twice (value comparison undefined)
  bool dup_skipped_ids = false;   // a table carried an unknown/deleted id twice (outside C08's statement)
  bool noncanonical = false;      // accepted, but some integer used a non-minimal class
  int nested_ok = 0;              // number of nested elements accepted before the end/failure
  int inflated = 0;               // a length/count exceeded what the input could hold
};

namespace detail {

struct Dec {
  const uint8_t* p; size_t n; size_t pos = 0;
  const DecodeOpts& o;
  Decoded& r;
  std::vector<size_t> limits;  // absolute end offsets of enclosing bounded frames
  Dec(const uint8_t* p_, size_t n_, const DecodeOpts& o_, Decoded& r_) : p(p_), n(n_), o(o_), r(r_) {}
  size_t lim() const { size_t l = n; for (size_t x : limits) l = std::min(l, x); return l; }
  bool fail(int e) { if (r.err == E_None) { r.err = e; r.err_off = pos; } return false; }
  bool need(uint64_t k) { if (k > lim() - pos) { if (k > n - pos) r.inflated++; return fail(E_ReadLimitReached); } return true; }
  bool byte(uint8_t* b) { if (!need(1)) return false; *b = p[pos++]; return true; }
  bool le(uint64_t* u, int w) { if (!need(w)) return false; uint64_t x = 0; for (int i = 0; i < w; i++) x |= (uint64_t)p[pos + i] << (8 * i); pos += w; *u = x; return true; }

  // Decodes an integer whose destination class is (bits, sgn), given its prefix byte.
  bool integer_payload(uint8_t pre, int bits, bool sgn, uint64_t* out) {
    if (pre < 0x80) { *out = pre; return true; }
    if (pre >= 0xc0) { if (!sgn) return fail(E_UnexpectedEncodingType); *out = (uint64_t)(int64_t)(int8_t)pre; return true; }
    if (pre < P_U8 || pre > P_I64) return fail(E_UnexpectedEncodingType);
    int c = C_U8 + (pre - P_U8);
    if (cls_signed(c) != sgn) return fail(E_UnexpectedEncodingType);
    int w = cls_width(c);
    if (w * 8 > bits) return fail(E_UnexpectedEncodingType);
    uint64_t u;
    if (!le(&u, w)) return false;
    if (sgn) u = norm_int(u, w * 8, true);
    // non-minimal class?
    int m = sgn ? min_cls_signed((int64_t)u) : min_cls_unsigned(u);
    if (m != c) r.noncanonical = true;
    *out = u; return true;
  }
  bool integer(int bits, bool sgn, uint64_t* out) { uint8_t pre; if (!byte(&pre)) return false; return integer_payload(pre, bits, sgn, out); }

  bool value(const Schema& s, Value* v) { uint8_t pre; if (!byte(&pre)) return false; return payload(s, pre, v); }

  // May `pre` start an encoding of s? (Match in the header diagrams.)
  static bool match(const Schema& s, uint8_t pre) {
    switch (s.k) {
      case K::Bool: return pre == 0 || pre == 1;
      case K::Int: {
        if (pre < 0x80) return true;
        if (pre >= 0xc0) return s.sgn;
        if (pre < P_U8 || pre > P_I64) return false;
        int c = C_U8 + (pre - P_U8);
        return cls_signed(c) == s.sgn && cls_width(c) * 8 <= s.bits; }
      case K::F32: return pre == P_F32;
      case K::F64: return pre == P_F64;
      case K::Str: return pre == P_STR;
      case K::Bin: return pre == P_BIN;
      case K::Seq: case K::Tup: return pre == P_ARY;
      case K::Stu: return pre == P_STU;
      case K::Map: return pre == P_MAP;
      case K::Opt: return pre == P_NIL || match(*s.kids[0], pre);
      case K::Res: return pre == P_ERR || match(*s.kids[0], pre);
      case K::Var: return pre == P_VAR;
      case K::Hnd: return pre == P_HND;
      case K::Tab: return pre == P_TAB;
    }
    return false;
  }

  bool payload(const Schema& s, uint8_t pre, Value* v) {
    if (!match(s, pre)) { pos--; fail(E_UnexpectedEncodingType); pos++; return false; }
    switch (s.k) {
      case K::Bool: v->u = pre; return true;
      case K::Int: return integer_payload(pre, s.bits, s.sgn, &v->u);
      case K::F32: return le(&v->u, 4);
      case K::F64: return le(&v->u, 8);
      case K::Str: {
        uint64_t len; if (!integer(64, false, &len)) return false;
        if (len % (s.bits / 8) != 0) return fail(E_InvalidStringLength);
        if (!need(len)) return false;
        v->bytes.assign((const char*)p + pos, len); pos += len; return true; }
      case K::Bin: {
        uint64_t len; if (!integer(64, false, &len)) return false;
        uint64_t es = s.bits / 8;
        if (s.fixed >= 0 && len != (uint64_t)s.fixed * es) return fail(E_InvalidContainerLength);
        if (len % es != 0) return fail(E_InvalidContainerLength);
        if (s.maxc >= 0 && !s.unbounded && len > (uint64_t)s.maxc * es) return fail(E_InvalidContainerLength);
        if (!need(len)) return false;
        v->bytes.assign((const char*)p + pos, len); pos += len; return true; }
      case K::Seq: {
        uint64_t cnt; if (!integer(64, false, &cnt)) return false;
        if (s.fixed >= 0 && cnt != (uint64_t)s.fixed) return fail(E_InvalidContainerLength);
        if (s.maxc >= 0 && !s.unbounded && cnt > (uint64_t)s.maxc) return fail(E_InvalidContainerLength);
        if (cnt > lim() - pos) r.inflated++;
        for (uint64_t i = 0; i < cnt; i++) { Value e; if (!value(*s.kids[0], &e)) return false; r.nested_ok++; v->kids.push_back(std::move(e)); }
        return true; }
      case K::Tup: {
        uint64_t cnt; if (!integer(64, false, &cnt)) return false;
        if (cnt != s.kids.size()) return fail(E_InvalidContainerLength);
        for (auto& m : s.kids) { Value e; if (!value(*m, &e)) return false; r.nested_ok++; v->kids.push_back(std::move(e)); }
        return true; }
      case K::Stu: {
        uint64_t cnt; if (!integer(64, false, &cnt)) return false;
        if (cnt != s.kids.size()) return fail(E_InvalidMemberCount);
        for (auto& m : s.kids) { Value e; if (!value(*m, &e)) return false; r.nested_ok++; v->kids.push_back(std::move(e)); }
        return true; }
      case K::Map: {
        uint64_t cnt; if (!integer(64, false, &cnt)) return false;
        if (cnt > lim() - pos) r.inflated++;
        std::set<std::string> seen;
        for (uint64_t i = 0; i < cnt; i++) {
          Value k, x;
          if (!value(*s.kids[0], &k)) return false;
          if (!value(*s.kids[1], &x)) return false;
          r.nested_ok++;
          std::string key = to_text(*s.kids[0], k);
          if (!seen.insert(key).second) { r.dup_map_keys = true; continue; }  // first one wins (emplace)
          v->kids.push_back(std::move(k)); v->kids.push_back(std::move(x));
        }
        return true; }
      case K::Opt:
        if (pre == P_NIL) { v->tag = 0; return true; }
        v->tag = 1; v->kids.resize(1); return payload(*s.kids[0], pre, &v->kids[0]);
      case K::Res:
        if (pre == P_ERR) { v->tag = 1; return integer(s.bits, s.sgn, &v->u); }
        v->tag = 2; v->kids.resize(1); return payload(*s.kids[0], pre, &v->kids[0]);
      case K::Var: {
        uint64_t idx; if (!integer(32, true, &idx)) return false;
        int64_t i = (int64_t)idx;
        if (i < -1 || i >= (int64_t)s.kids.size()) return fail(E_UnexpectedVariantType);
        v->tag = (int)i;
        if (i < 0) { uint8_t nil; if (!byte(&nil)) return false; if (nil != P_NIL) { pos--; fail(E_UnexpectedEncodingType); pos++; return false; } return true; }
        v->kids.resize(1);
        if (!value(*s.kids[i], &v->kids[0])) return false;
        r.nested_ok++; return true; }
      case K::Hnd: {
        uint64_t t; if (!integer(64, false, &t)) return false;
        if (t != s.htype) return fail(E_UnexpectedHandleType);
        uint64_t ref; if (!integer(64, true, &ref)) return false;
        int64_t rr = (int64_t)ref;
        if (o.handle_errors) { auto it = o.handle_errors->find(rr); if (it != o.handle_errors->end()) return fail(it->second); }
        if (rr == -1) { v->tag = 0; v->u = 0; return true; }
        if (!o.handles) return fail(E_InvalidHandleReference);
        auto it = o.handles->find(rr);
        if (it == o.handles->end()) return fail(E_InvalidHandleReference);
        v->u = (uint64_t)it->second; v->tag = 1; return true; }
      case K::Tab: {
        v->kids.assign(s.entries.size(), Value());
        uint64_t h; if (!integer(64, false, &h)) return false;
        if (h != s.hash) return fail(E_InvalidTableHash);
        uint64_t cnt; if (!integer(64, false, &cnt)) return false;
        if (cnt > lim() - pos) r.inflated++;
        std::set<uint64_t> skipped;
        for (uint64_t i = 0; i < cnt; i++) {
          uint64_t id; if (!integer(64, false, &id)) return false;
          long idx = -1;
          for (size_t j = 0; j < s.entries.size(); j++) if (s.entries[j].id == id) idx = (long)j;
          if (idx >= 0 && s.entries[idx].active) {
            if (v->kids[idx].tag) return fail(E_DuplicateTableEntry);
            uint64_t size; if (!integer(64, false, &size)) return false;
            // The value must decode inside its declared frame; the frame itself need not be
            // available yet (a bounded reader only limits, it does not pre-check).
            size_t start = pos;
            size_t frame_end = (size > (uint64_t)(SIZE_MAX - start)) ? SIZE_MAX : start + (size_t)size;
            if (size > lim() - pos) r.inflated++;
            limits.push_back(frame_end);
            v->kids[idx].tag = 1; v->kids[idx].kids.resize(1);
            bool okv = value(*s.entries[idx].type, &v->kids[idx].kids[0]);
            limits.pop_back();
            if (!okv) return false;
            r.nested_ok++;
            uint64_t padn = size - (pos - start);
            if (!need(padn)) return false;
            pos += padn;
          } else {
            if (!skipped.insert(id).second) r.dup_skipped_ids = true;
            uint64_t size; if (!integer(64, false, &size)) return false;
            if (!need(size)) return false;
            pos += size;
          }
        }
        return true; }
    }
    return false;
  }
};

}  // namespace detail

inline Decoded ref_decode(const Schema& s, const uint8_t* p, size_t n, const DecodeOpts& o = DecodeOpts()) {
  Decoded r;
  detail::Dec d(p, n, o, r);
  r.ok = d.value(s, &r.value);
  r.consumed = d.pos;
  if (r.ok) r.err = E_None;
  return r;
}
inline Decoded ref_decode(const Schema& s, const Bytes& b, const DecodeOpts& o = DecodeOpts()) { return ref_decode(s, b.data(), b.size(), o); }

// Canonical form for comparisons: all maps are sorted by the reference encoding of the key (both
// sides of a comparison are canonicalised, so container iteration order never matters).
inline void canon(const Schema& s, Value& v) {
  switch (s.k) {
    case K::Seq: for (auto& e : v.kids) canon(*s.kids[0], e); break;
    case K::Tup: case K::Stu: for (size_t i = 0; i < s.kids.size() && i < v.kids.size(); i++) canon(*s.kids[i], v.kids[i]); break;
    case K::Map: {
      for (size_t i = 0; i + 1 < v.kids.size(); i += 2) { canon(*s.kids[0], v.kids[i]); canon(*s.kids[1], v.kids[i + 1]); }
      std::vector<std::pair<Bytes, size_t>> keys;
      for (size_t i = 0; i + 1 < v.kids.size(); i += 2) keys.push_back({ref_encode(*s.kids[0], v.kids[i]).bytes, i});
      std::sort(keys.begin(), keys.end());
      std::vector<Value> out;
      for (auto& k : keys) { out.push_back(v.kids[k.second]); out.push_back(v.kids[k.second + 1]); }
      v.kids = std::move(out);
      break; }
    case K::Opt: if (v.tag) canon(*s.kids[0], v.kids[0]); break;
    case K::Res: if (v.tag == 2) canon(*s.kids[0], v.kids[0]); break;
    case K::Var: if (v.tag >= 0 && (size_t)v.tag < s.kids.size()) canon(*s.kids[v.tag], v.kids[0]); break;
    case K::Tab: for (size_t i = 0; i < s.entries.size() && i < v.kids.size(); i++) if (v.kids[i].tag) canon(*s.entries[i].type, v.kids[i].kids[0]); break;
    default: break;
  }
}
inline bool value_equal(const Schema& s, Value a, Value b) { canon(s, a); canon(s, b); return a == b; }

}  // namespace vk
