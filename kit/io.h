// I/O kit: the library's readers/writers behind one run-time switch, plus LogReader/LogWriter
// (bounds-checked, call-logging, fault-injecting, with a handle channel).
#pragma once
#include "kit/allocmeter.h"
#include "core.h"

#include <fcntl.h>
#include <sys/mman.h>
#include <unistd.h>
#include <fstream>
#include <sstream>

#include <nop/serializer.h>
#include <nop/status.h>
#include <nop/types/handle.h>
#include <nop/utility/bounded_reader.h>
#include <nop/utility/bounded_writer.h>
#include <nop/utility/buffer_reader.h>
#include <nop/utility/buffer_writer.h>
#include <nop/utility/constexpr_buffer_writer.h>
#include <nop/utility/fd_reader.h>
#include <nop/utility/fd_writer.h>
#include <nop/utility/pedantic_buffer_reader.h>
#include <nop/utility/pedantic_buffer_writer.h>
#include <nop/utility/stream_reader.h>
#include <nop/utility/stream_writer.h>

namespace vk {

static_assert((int)nop::ErrorStatus::UnexpectedEncodingType == E_UnexpectedEncodingType, "");
static_assert((int)nop::ErrorStatus::InvalidContainerLength == E_InvalidContainerLength, "");
static_assert((int)nop::ErrorStatus::DuplicateTableEntry == E_DuplicateTableEntry, "");
static_assert((int)nop::ErrorStatus::ReadLimitReached == E_ReadLimitReached, "");
static_assert((int)nop::ErrorStatus::WriteLimitReached == E_WriteLimitReached, "");
static_assert((int)nop::ErrorStatus::DebugError == E_DebugError, "");

template <typename S>
inline int st(const S& s) { return s.has_error() ? (int)s.error() : 0; }
// Status<void> has no has_value; success is "no error".

enum CallKind : uint8_t { CK_Ensure, CK_Read1, CK_ReadN, CK_SkipR, CK_GetHandle, CK_Prepare, CK_Write1, CK_WriteN, CK_SkipW, CK_PushHandle };
inline const char* call_name(uint8_t k) { static const char* n[] = {"Ensure", "Read1", "ReadN", "Skip", "GetHandle", "Prepare", "Write1", "WriteN", "Skip", "PushHandle"}; return n[k]; }
struct CallRec { uint8_t kind; uint64_t size; };

struct FaultPlan {
  long fail_at = -1;       // index of the primitive call that fails (-1: none)
  int err = E_IOError;
};

// ---- LogReader -------------------------------------------------------------------------------
struct LogReader {
  const uint8_t* data = nullptr;
  size_t n = 0, pos = 0;
  std::vector<CallRec> log;
  FaultPlan fault;
  bool failed = false;            // the scripted fault fired
  long calls_after_failure = 0;   // primitive calls issued after any call returned an error
  bool any_error = false;
  std::map<int64_t, int64_t> handles;       // reference -> payload
  std::map<int64_t, int> handle_errors;     // reference -> error to return
  std::vector<int64_t> resolved;            // references asked for, in order

  bool pre(uint8_t kind, uint64_t size, nop::ErrorStatus* e) {
    if (any_error) calls_after_failure++;
    { AllocMeter::Pause hold; log.push_back({kind, size}); }   // the harness's own bookkeeping is not the library's allocation
    if ((long)log.size() - 1 == fault.fail_at) { failed = true; any_error = true; *e = (nop::ErrorStatus)fault.err; return true; }
    return false;
  }
  nop::Status<void> lim() { any_error = true; return nop::ErrorStatus::ReadLimitReached; }

  nop::Status<void> Ensure(std::size_t size) {
    nop::ErrorStatus e; if (pre(CK_Ensure, size, &e)) return e;
    if (size > n - pos) return lim();
    return {};
  }
  nop::Status<void> Read(std::uint8_t* byte) {
    nop::ErrorStatus e; if (pre(CK_Read1, 1, &e)) return e;
    if (pos >= n) return lim();
    *byte = data[pos++];
    return {};
  }
  template <typename T, typename Enable = nop::EnableIfArithmetic<T>>
  nop::Status<void> Read(T* begin, T* end) {
    const std::size_t bytes = (end - begin) * sizeof(T);
    nop::ErrorStatus e; if (pre(CK_ReadN, bytes, &e)) return e;
    if (bytes > n - pos) return lim();
    if (bytes) std::memcpy(begin, data + pos, bytes);
    pos += bytes;
    return {};
  }
  nop::Status<void> Skip(std::size_t padding) {
    nop::ErrorStatus e; if (pre(CK_SkipR, padding, &e)) return e;
    if (padding > n - pos) return lim();
    pos += padding;
    return {};
  }
  template <typename HandleType>
  nop::Status<HandleType> GetHandle(nop::HandleReference ref) {
    nop::ErrorStatus e; if (pre(CK_GetHandle, (uint64_t)ref, &e)) return e;
    resolved.push_back(ref);
    auto he = handle_errors.find(ref);
    if (he != handle_errors.end()) { any_error = true; return (nop::ErrorStatus)he->second; }
    if (ref == nop::kEmptyHandleReference) return HandleType{};
    auto it = handles.find(ref);
    if (it == handles.end()) { any_error = true; return nop::ErrorStatus::InvalidHandleReference; }
    return HandleType{static_cast<typename HandleType::Type>(it->second)};
  }
};

// ---- LogWriter -------------------------------------------------------------------------------
struct PushRec { bool valid; int64_t payload; int64_t ref; size_t at; };
struct LogWriter {
  Bytes out;
  size_t cap = SIZE_MAX;
  std::vector<CallRec> log;
  FaultPlan fault;
  bool failed = false;
  long calls_after_failure = 0;
  bool any_error = false;
  std::vector<PushRec> pushed;
  std::vector<int64_t> refs_to_return;    // generated references (default: push index)
  std::map<size_t, int> push_errors;      // push ordinal -> error

  bool pre(uint8_t kind, uint64_t size, nop::ErrorStatus* e) {
    if (any_error) calls_after_failure++;
    { AllocMeter::Pause hold; log.push_back({kind, size}); }   // the harness's own bookkeeping is not the library's allocation
    if ((long)log.size() - 1 == fault.fail_at) { failed = true; any_error = true; *e = (nop::ErrorStatus)fault.err; return true; }
    return false;
  }
  nop::Status<void> lim() { any_error = true; return nop::ErrorStatus::WriteLimitReached; }
  nop::Status<void> Prepare(std::size_t size) {
    nop::ErrorStatus e; if (pre(CK_Prepare, size, &e)) return e;
    if (size > cap - out.size()) return lim();
    return {};
  }
  nop::Status<void> Write(std::uint8_t byte) {
    nop::ErrorStatus e; if (pre(CK_Write1, 1, &e)) return e;
    if (out.size() >= cap) return lim();
    out.push_back(byte);
    return {};
  }
  template <typename T, typename Enable = nop::EnableIfArithmetic<T>>
  nop::Status<void> Write(const T* begin, const T* end) {
    const std::size_t bytes = (end - begin) * sizeof(T);
    nop::ErrorStatus e; if (pre(CK_WriteN, bytes, &e)) return e;
    if (bytes > cap - out.size()) return lim();
    const uint8_t* p = reinterpret_cast<const uint8_t*>(begin);
    out.insert(out.end(), p, p + bytes);
    return {};
  }
  nop::Status<void> Skip(std::size_t padding, std::uint8_t value = 0x00) {
    nop::ErrorStatus e; if (pre(CK_SkipW, padding, &e)) return e;
    if (padding > cap - out.size()) return lim();
    out.insert(out.end(), padding, value);
    return {};
  }
  template <typename HandleType>
  nop::Status<nop::HandleReference> PushHandle(const HandleType& handle) {
    nop::ErrorStatus e; if (pre(CK_PushHandle, 0, &e)) return e;
    size_t ord = pushed.size();
    auto pe = push_errors.find(ord);
    bool valid = static_cast<bool>(handle);
    int64_t ref = !valid ? (int64_t)nop::kEmptyHandleReference : (ord < refs_to_return.size() ? refs_to_return[ord] : (int64_t)ord);
    { AllocMeter::Pause hold; pushed.push_back({valid, (int64_t)handle.get(), ref, out.size()}); }
    if (pe != push_errors.end()) { any_error = true; return (nop::ErrorStatus)pe->second; }
    return ref;
  }
};

// ---- call-counting wrapper -------------------------------------------------------------------
// Forwards every primitive call to a library reader and throws once a call budget is exceeded.
// Gives "Read terminates" (C02) a deterministic, clock-free oracle: an honest decode issues a
// bounded number of reader calls per input byte.
struct CallBudgetExceeded {};
template <typename R>
struct CountingReader {
  R* r = nullptr;
  uint64_t calls = 0, budget = ~0ull;
  void tick() { if (++calls > budget) throw CallBudgetExceeded(); }
  nop::Status<void> Ensure(std::size_t n) { tick(); return r->Ensure(n); }
  nop::Status<void> Read(std::uint8_t* b) { tick(); return r->Read(b); }
  template <typename T, typename Enable = nop::EnableIfArithmetic<T>>
  nop::Status<void> Read(T* b, T* e) { tick(); return r->Read(b, e); }
  nop::Status<void> Skip(std::size_t n) { tick(); return r->Skip(n); }
};

// ---- reader box ------------------------------------------------------------------------------
enum RK : int { R_Buf, R_Ped, R_Str, R_Fd, R_Log, R_BBuf, R_BPed, R_BStr, R_BLog, R_FStr, R_CPed, R_CBuf, R_COUNT };
inline const char* rk_name(int k) { static const char* n[] = {"BufferReader", "PedanticBufferReader", "StreamReader", "FdReader", "LogReader", "Bounded<BufferReader>", "Bounded<PedanticBufferReader>", "Bounded<StreamReader>", "Bounded<LogReader>", "StreamReader<ifstream>", "PedanticBufferReader(call-counted)", "BufferReader(call-counted)"}; return k >= 0 && k < R_COUNT ? n[k] : "?"; }
inline bool rk_bounded(int k) { return k >= R_BBuf && k <= R_BLog; }
inline bool rk_has_handles(int k) { return k == R_Log || k == R_BLog; }
inline bool rk_has_skip(int k) { return k != R_Fd; }

using SStreamReader = nop::StreamReader<std::stringstream>;
using SStreamWriter = nop::StreamWriter<std::stringstream>;
using FStreamReader = nop::StreamReader<std::ifstream>;

inline int make_memfd(const uint8_t* p, size_t n) {
  int fd = memfd_create("vk", 0);
  if (fd < 0) { perror("memfd_create"); abort(); }
  size_t off = 0;
  while (off < n) { ssize_t w = ::write(fd, p + off, n - off); if (w <= 0) { perror("write"); abort(); } off += (size_t)w; }
  lseek(fd, 0, SEEK_SET);
  return fd;
}

struct ReaderBox {
  int kind = R_Ped;
  size_t n = 0;
  std::unique_ptr<uint8_t[]> mem;   // exactly n bytes, so ASan sees a one-byte over-read
  nop::BufferReader buf;
  nop::PedanticBufferReader ped;
  std::unique_ptr<SStreamReader> str;
  std::unique_ptr<nop::FdReader> fd;
  int fdnum = -1;
  std::unique_ptr<FStreamReader> fstr;   // std::ifstream over a memfd (file streams accept seeks past EOF)
  int fstr_fd = -1;
  LogReader log;
  nop::BoundedReader<nop::BufferReader> bbuf;
  nop::BoundedReader<nop::PedanticBufferReader> bped;
  nop::BoundedReader<SStreamReader> bstr;
  nop::BoundedReader<LogReader> blog;
  CountingReader<nop::PedanticBufferReader> cped;
  CountingReader<nop::BufferReader> cbuf;
  size_t limit = 0;

  ReaderBox() = default;
  ReaderBox(const ReaderBox&) = delete;
  // limit is only used by the bounded kinds (SIZE_MAX => input length).
  void open(int k, const uint8_t* p, size_t len, size_t lim = SIZE_MAX) {
    kind = k; n = len; limit = (lim == SIZE_MAX) ? len : lim;
    mem.reset(new uint8_t[len]);
    if (len) std::memcpy(mem.get(), p, len);
    switch (k) {
      case R_Buf: buf = nop::BufferReader(mem.get(), len); break;
      case R_Ped: ped = nop::PedanticBufferReader(mem.get(), len); break;
      case R_Str: str.reset(new SStreamReader(std::string((const char*)mem.get(), len))); break;
      case R_Fd: fdnum = make_memfd(mem.get(), len); fd.reset(new nop::FdReader(fdnum)); break;
      case R_Log: log = LogReader(); log.data = mem.get(); log.n = len; break;
      case R_BBuf: buf = nop::BufferReader(mem.get(), len); bbuf = nop::BoundedReader<nop::BufferReader>(&buf, limit); break;
      case R_BPed: ped = nop::PedanticBufferReader(mem.get(), len); bped = nop::BoundedReader<nop::PedanticBufferReader>(&ped, limit); break;
      case R_BStr: str.reset(new SStreamReader(std::string((const char*)mem.get(), len))); bstr = nop::BoundedReader<SStreamReader>(str.get(), limit); break;
      case R_BLog: log = LogReader(); log.data = mem.get(); log.n = len; blog = nop::BoundedReader<LogReader>(&log, limit); break;
      case R_CPed: ped = nop::PedanticBufferReader(mem.get(), len); cped = CountingReader<nop::PedanticBufferReader>(); cped.r = &ped; cped.budget = 64 * ((uint64_t)len + 64); break;
      case R_CBuf: buf = nop::BufferReader(mem.get(), len); cbuf = CountingReader<nop::BufferReader>(); cbuf.r = &buf; cbuf.budget = 64 * ((uint64_t)len + 64); break;
      case R_FStr: {
        if (fstr_fd >= 0) ::close(fstr_fd);
        fstr_fd = make_memfd(mem.get(), len);
        char path[64]; snprintf(path, sizeof path, "/proc/self/fd/%d", fstr_fd);
        fstr.reset(new FStreamReader(path, std::ios::in | std::ios::binary));
        break; }
    }
  }
  ~ReaderBox() { fstr.reset(); if (fstr_fd >= 0) ::close(fstr_fd); }
  void open(int k, const Bytes& b, size_t lim = SIZE_MAX) { open(k, b.data(), b.size(), lim); }
  // FdReader over a descriptor supplied by the caller (e.g. the read end of a pipe); owned from now on.
  void open_fd(int rfd) { kind = R_Fd; n = 0; fdnum = rfd; fd.reset(new nop::FdReader(rfd)); }
  // Bytes consumed from the underlying source so far.
  size_t position() {
    switch (kind) {
      case R_Buf: case R_BBuf: case R_CBuf: return buf.capacity() - buf.remaining();
      case R_Ped: case R_BPed: case R_CPed: return ped.capacity() - ped.remaining();
      case R_Str: case R_BStr: { auto p = str->stream().rdbuf()->pubseekoff(0, std::ios_base::cur, std::ios_base::in); return p < 0 ? SIZE_MAX : (size_t)p; }
      case R_Fd: return (size_t)lseek(fdnum, 0, SEEK_CUR);
      case R_Log: case R_BLog: return log.pos;
      case R_FStr: { auto p = fstr->stream().rdbuf()->pubseekoff(0, std::ios_base::cur, std::ios_base::in); return p < 0 ? SIZE_MAX : (size_t)p; }
    }
    return 0;
  }
  // What the bounded wrapper itself counted.
  size_t bounded_count() {
    switch (kind) { case R_BBuf: return bbuf.size(); case R_BPed: return bped.size(); case R_BStr: return bstr.size(); case R_BLog: return blog.size(); }
    return 0;
  }
};

// ---- writer box ------------------------------------------------------------------------------
enum WK : int { W_Buf, W_Ped, W_Cex, W_Str, W_Fd, W_Log, W_BBuf, W_BPed, W_BCex, W_BStr, W_BLog, W_COUNT };
inline const char* wk_name(int k) { static const char* n[] = {"BufferWriter", "PedanticBufferWriter", "ConstexprBufferWriter", "StreamWriter", "FdWriter", "LogWriter", "Bounded<BufferWriter>", "Bounded<PedanticBufferWriter>", "Bounded<ConstexprBufferWriter>", "Bounded<StreamWriter>", "Bounded<LogWriter>"}; return k >= 0 && k < W_COUNT ? n[k] : "?"; }
inline bool wk_bounded(int k) { return k >= W_BBuf; }
inline bool wk_has_handles(int k) { return k == W_Log || k == W_BLog; }
inline bool wk_has_skip(int k) { return k != W_Fd; }
inline bool wk_constexpr(int k) { return k == W_Cex || k == W_BCex; }
inline bool wk_buffer(int k) { return k == W_Buf || k == W_Ped || k == W_Cex || k == W_BBuf || k == W_BPed || k == W_BCex; }

struct WriterBox {
  int kind = W_Ped;
  size_t cap = 0;                   // buffer capacity (buffer kinds) / LogWriter capacity
  size_t limit = 0;                 // bounded limit
  std::unique_ptr<uint8_t[]> mem;   // exactly cap bytes
  nop::BufferWriter buf;
  nop::PedanticBufferWriter ped;
  nop::ConstexprBufferWriter cex;
  std::unique_ptr<SStreamWriter> str;
  std::unique_ptr<nop::FdWriter> fd;
  int fdnum = -1;
  LogWriter log;
  nop::BoundedWriter<nop::BufferWriter> bbuf;
  nop::BoundedWriter<nop::PedanticBufferWriter> bped;
  nop::BoundedWriter<nop::ConstexprBufferWriter> bcex;
  nop::BoundedWriter<SStreamWriter> bstr;
  nop::BoundedWriter<LogWriter> blog;

  WriterBox() = default;
  WriterBox(const WriterBox&) = delete;
  void open(int k, size_t capacity, size_t lim = SIZE_MAX) {
    kind = k; cap = capacity; limit = lim;
    bool needs_mem = wk_buffer(k);
    if (needs_mem) { mem.reset(new uint8_t[capacity]); if (capacity) std::memset(mem.get(), 0xEE, capacity); }
    switch (k) {
      case W_Buf: buf = nop::BufferWriter(mem.get(), capacity); break;
      case W_Ped: ped = nop::PedanticBufferWriter(mem.get(), capacity); break;
      case W_Cex: cex = nop::ConstexprBufferWriter(mem.get(), capacity); break;
      case W_Str: str.reset(new SStreamWriter()); break;
      case W_Fd: fdnum = memfd_create("vkw", 0); fd.reset(new nop::FdWriter(fdnum)); break;
      case W_Log: log = LogWriter(); log.cap = capacity; break;
      case W_BBuf: buf = nop::BufferWriter(mem.get(), capacity); bbuf = nop::BoundedWriter<nop::BufferWriter>(&buf, lim); break;
      case W_BPed: ped = nop::PedanticBufferWriter(mem.get(), capacity); bped = nop::BoundedWriter<nop::PedanticBufferWriter>(&ped, lim); break;
      case W_BCex: cex = nop::ConstexprBufferWriter(mem.get(), capacity); bcex = nop::BoundedWriter<nop::ConstexprBufferWriter>(&cex, lim); break;
      case W_BStr: str.reset(new SStreamWriter()); bstr = nop::BoundedWriter<SStreamWriter>(str.get(), lim); break;
      case W_BLog: log = LogWriter(); log.cap = capacity; blog = nop::BoundedWriter<LogWriter>(&log, lim); break;
    }
  }
  size_t position() {
    switch (kind) {
      case W_Buf: case W_BBuf: return buf.size();
      case W_Ped: case W_BPed: return ped.size();
      case W_Cex: case W_BCex: return cex.size();
      case W_Str: case W_BStr: { auto p = str->stream().rdbuf()->pubseekoff(0, std::ios_base::cur, std::ios_base::out); return p < 0 ? SIZE_MAX : (size_t)p; }
      case W_Fd: return (size_t)lseek(fdnum, 0, SEEK_CUR);
      case W_Log: case W_BLog: return log.out.size();
    }
    return 0;
  }
  size_t bounded_count() {
    switch (kind) { case W_BBuf: return bbuf.size(); case W_BPed: return bped.size(); case W_BCex: return bcex.size(); case W_BStr: return bstr.size(); case W_BLog: return blog.size(); }
    return 0;
  }
  Bytes bytes() {
    size_t n = position();
    switch (kind) {
      case W_Buf: case W_BBuf: case W_Ped: case W_BPed: case W_Cex: case W_BCex: return Bytes(mem.get(), mem.get() + std::min(n, cap));
      case W_Str: case W_BStr: { std::string s = str->stream().str(); return Bytes(s.begin(), s.end()); }
      case W_Fd: { Bytes b(n); size_t off = 0; while (off < n) { ssize_t r = pread(fdnum, b.data() + off, n - off, (off_t)off); if (r <= 0) break; off += (size_t)r; } return b; }
      case W_Log: case W_BLog: return log.out;
    }
    return {};
  }
};

}  // namespace vk
