// Thin, non-template front for rapidcheck so that harness translation units do not pay for
// <rapidcheck.h>. rapidcheck generates and shrinks choice tapes (vector<uint64_t>); the property
// body is a plain function of the tape.
#pragma once
#include <cstdint>
#include <functional>
#include <string>
#include <vector>

namespace vk {

struct TapeRun {
  bool ok = true;
  std::vector<uint64_t> tape;   // shrunk failing tape when !ok
  std::string message;
  long cases = 0;               // property invocations, including those made while shrinking
  long successes = 0;           // cases rapidcheck counted as passed
  std::string rc_description;   // rapidcheck's own failure text
};

// prop returns "" when the case passes, otherwise a failure message.
using TapeProp = std::function<std::string(const std::vector<uint64_t>&)>;

// Runs `cases` generated tapes. `scale` stretches the tape length relative to rapidcheck's size
// (a tape has up to ~size*scale words). Deterministic in (seed, cases, max_size, scale, prop).
TapeRun rc_tapes(uint64_t seed, int cases, int max_size, double scale, const TapeProp& prop);

std::string tape_text(const std::vector<uint64_t>& t);
std::vector<uint64_t> tape_parse(const std::string& s);

}  // namespace vk
