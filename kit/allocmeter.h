// Allocation meter built on the sanitizer allocator hooks (no operator new replacement, so it
// coexists with ASan). While armed it sums the sizes of all heap requests made by this thread.
// Single requests above ASAN_OPTIONS=max_allocation_size_mb are reported by ASan itself.
#pragma once
#include <cstddef>
#include <cstdint>

extern "C" int __sanitizer_install_malloc_and_free_hooks(void (*malloc_hook)(const volatile void*, size_t),
                                                         void (*free_hook)(const volatile void*));
namespace vk {
struct AllocMeter {
  static thread_local bool armed;
  static thread_local int paused;   // > 0 while the harness itself allocates (call logs of the instrumented readers / writers)
  struct Pause { Pause() { paused++; } ~Pause() { paused--; } };
  static thread_local uint64_t total, peak_single, count;
  static void on_malloc(const volatile void*, size_t n) { if (armed && !paused) { total += n; count++; if (n > peak_single) peak_single = n; } }
  static void on_free(const volatile void*) {}
  static void install() { static bool done = false; if (!done) { done = true; __sanitizer_install_malloc_and_free_hooks(on_malloc, on_free); } }
  static void arm() { install(); total = 0; peak_single = 0; count = 0; armed = true; }
  static uint64_t disarm() { armed = false; return total; }
};
inline thread_local bool AllocMeter::armed = false;
inline thread_local int AllocMeter::paused = 0;
inline thread_local uint64_t AllocMeter::total = 0;
inline thread_local uint64_t AllocMeter::peak_single = 0;
inline thread_local uint64_t AllocMeter::count = 0;
}  // namespace vk
