// F2 (C15 "... also inside table entries"): a table entry holding a Handle must round-trip through a
// writer/reader with a handle channel. On the unrepaired tree this translation unit does not compile:
// BoundedWriter::PushHandle returns Status<HandleType> instead of Status<HandleReference> and
// BoundedReader::GetHandle omits the template argument when forwarding.
//   clang++ -std=c++14 -I/repo/include -I/verif replays/C15/F2_handle_in_table_entry.cc && ./a.out
#include "kit/io.h"
#include <nop/base/handle.h>
#include <nop/base/table.h>
#include <nop/table.h>
struct P { using Type = int; static constexpr int Default() { return -1; } static bool IsValid(const int& v) { return v >= 0; }
           static void Close(int* v) { *v = -1; } static int Release(int* v) { int t = *v; *v = -1; return t; }
           static constexpr std::uint64_t HandleType() { return 7; } };
struct T { nop::Entry<nop::Handle<P>, 1> h; NOP_TABLE(T, h); };
int main() {
  T t; t.h = nop::Handle<P>{42};
  vk::LogWriter w; w.refs_to_return = {5};
  if (!nop::Serializer<vk::LogWriter*>(&w).Write(t)) return 1;
  vk::LogReader r; r.data = w.out.data(); r.n = w.out.size(); r.handles[5] = 42;
  T u;
  if (!nop::Deserializer<vk::LogReader*>(&r).Read(&u)) return 2;
  return (u.h && u.h.get().get() == 42 && w.pushed.size() == 1 && r.pos == r.n) ? 0 : 3;
}
