// C19: no hidden shared state across threads; ThreadLocal<T, Slot> is private to each thread and
// to each (T, Slot) pair; the first initialisation in a thread wins until Clear.
//
// Built with ThreadSanitizer (see README_HARNESS.md, "threads" note):
//   clang++ -std=gnu++17 -g -O1 -fsanitize=thread -I/repo/include -I/verif harness/threads.cc rcdrv.o -lrapidcheck -lpthread
//   TSAN_OPTIONS=exitcode=77:halt_on_error=1
//
// Domain: a PROGRAM (N = 2..8 threads, 10..60 ops per thread) is decoded from a rapidcheck tape in
// the main thread; it is then executed R times (5 quick, 50 thorough), every repetition with fresh
// threads, a start barrier and a deterministic per-op schedule perturbation (none / yield / short
// spin) derived from (program, repetition, thread, op index). Every thread only touches objects it
// created itself, except for the ThreadLocal<T, Slot> INSTANTIATIONS, which all threads share as
// types (each thread builds its own handle objects).
//
// Op kinds (text form <letter><a>.<n>):
//   R  round trip of one of 8 protocol types through Serializer<StreamWriter<stringstream>> or
//      Serializer<BufferWriter> and the matching reader
//   T  table cross-version: write TabA{1,2,3} / read TabB{1 deleted,2,3,4} or TabC{2,3,4}, and back
//   V  burst of Variant / Optional operations over vk::Tracked<> elements (thread-owned objects)
//   P  RPC call on the thread's own connection (SimpleMethodSender -> buffer -> BindInterface
//      dispatcher + SimpleMethodReceiver -> buffer -> sender reads the reply)
//   K N I J G M X S   ThreadLocal: construct handle with arg / without args, Initialize(arg) /
//      Initialize(), Get, modify through Get, Clear, second handle for the same (T, Slot)
//
// Oracle: (a) ThreadSanitizer reports nothing (a report aborts with exit code 77; the running
// program is in rep.current_case); (b) every thread's observation log equals the log of the same
// op list executed sequentially in the main thread, where the ThreadLocal ops run against an
// explicit MODEL (per thread and slot: empty | value; construct-with-arg / Initialize(arg) set the
// value only if empty; Clear empties) and the other ops run the library single-threaded (their
// entries additionally carry independent self-checks: read-back == original, Add == a + b, ...);
// (c) lifetimes: each thread's vk::Tracked live set is empty when its objects are gone, and the
// AtomicTracked elements stored in ThreadLocal<AtomicTracked, ...> (destroyed by the thread-exit
// destructors of the thread_local storage) satisfy constructed == destroyed after join.
//
// Counts: quick 150 programs x 5 repetitions, thorough 2000 x 50 (--cases / --reps override; shards
// split the program count). --replay <file> re-runs the program of the case line 50 times (--reps)
// and exits 1 (or 77 on a sanitizer report) if any repetition fails; `--dump 1` also prints the
// sequential/model log. Non-trivial programs (rep.nontriv, by hash of the program text): >= 2
// threads touch the same (T, Slot) instantiation and at least one of them Clears it or tries to
// initialise it a second time with a different value, or >= 2 threads carry RPC / table traffic.
//
// Left open by the property, therefore not checked: whether `ThreadLocal<T, S> h;` / `Initialize()`
// WITHOUT arguments counts as an initialisation (in the current tree it does not: it assigns an
// empty Optional, so Get() right after it would dereference an empty Optional). When the model slot
// is empty the harness follows such a call by Clear(), which gives "empty" under both readings.
#include <signal.h>
#include <sys/mman.h>
#include <unistd.h>

#include <atomic>
#include <cinttypes>
#include <cstdio>
#include <cstring>
#include <functional>
#include <map>
#include <condition_variable>
#include <memory>
#include <mutex>
#include <sstream>
#include <string>
#include <thread>
#include <tuple>
#include <vector>

#include <nop/rpc/interface.h>
#include <nop/rpc/simple_method_receiver.h>
#include <nop/rpc/simple_method_sender.h>
#include <nop/serializer.h>
#include <nop/status.h>
#include <nop/structure.h>
#include <nop/table.h>
#include <nop/types/optional.h>
#include <nop/types/result.h>
#include <nop/types/thread_local.h>
#include <nop/types/variant.h>
#include <nop/utility/buffer_reader.h>
#include <nop/utility/bounded_writer.h>
#include <nop/utility/buffer_writer.h>
#include <nop/utility/fd_reader.h>
#include <nop/utility/fd_writer.h>
#include <nop/utility/pedantic_buffer_writer.h>
#include <nop/utility/stream_reader.h>
#include <nop/utility/stream_writer.h>

#include "kit/core.h"
#include "kit/gen.h"
#include "kit/rcdrv.h"
#include "kit/report.h"
#include "kit/tracked.h"

using namespace vk;

// ------------------------------------------------------------------------------------------------
// Small deterministic helpers

static uint64_t mix64(uint64_t x) { x += 0x9e3779b97f4a7c15ull; x = (x ^ (x >> 30)) * 0xbf58476d1ce4e5b9ull; x = (x ^ (x >> 27)) * 0x94d049bb133111ebull; return x ^ (x >> 31); }
struct Rng {
  uint64_t s;
  explicit Rng(uint64_t seed) : s(seed) {}
  uint64_t next() { s += 0x9e3779b97f4a7c15ull; return mix64(s); }
  uint32_t below(uint32_t k) { return k ? (uint32_t)(next() % k) : 0; }
};
static std::string hex16(uint64_t h) { char b[20]; snprintf(b, sizeof b, "%016" PRIx64, h); return b; }
template <typename B> static uint64_t hash_bytes(const B& b) { return fnv1a(b.data(), b.size()); }

// ------------------------------------------------------------------------------------------------
// Program representation

struct Op { char k = 'K'; uint8_t a = 0; uint32_t n = 0; };
struct Program { std::vector<std::vector<Op>> th; };

static constexpr int kSlots = 10;
static const char kTlKinds[] = "KNIJGMXS";
static bool is_tl(char k) { return k && strchr(kTlKinds, k) != nullptr; }
static bool is_kind(char k) { return k && strchr("RTVPWKNIJGMXS", k) != nullptr; }

// Applicability bookkeeping of the ThreadLocal ops (the "empty | value" part of the model). Used by
// the decoder (to generate applicable ops), by the model and by the real executor, which cannot
// ask the library whether a slot is empty.
struct TlBook {
  bool has[kSlots] = {};        // this thread holds a primary handle for the slot
  bool nonempty[kSlots] = {};   // the slot holds a value in this thread
};

static std::string op_text(const Op& o) { char b[32]; snprintf(b, sizeof b, "%c%u.%u", o.k, (unsigned)o.a, (unsigned)o.n); return b; }
static std::string prog_text(const Program& p) {
  std::string s;
  for (size_t t = 0; t < p.th.size(); t++) {
    if (t) s += '|';
    for (size_t i = 0; i < p.th[t].size(); i++) { if (i) s += ','; s += op_text(p.th[t][i]); }
  }
  return s;
}
static std::string case_text(const Program& p) { return "prop=C19 threads=" + std::to_string(p.th.size()) + " prog=" + prog_text(p); }

static bool prog_parse(const std::string& text, Program* out) {
  size_t p = text.find("prog=");
  if (text.compare(0, 9, "prop=C19 ") != 0 || p == std::string::npos) return false;
  std::string s = text.substr(p + 5);
  while (!s.empty() && (s.back() == '\n' || s.back() == '\r' || s.back() == ' ')) s.pop_back();
  out->th.clear(); out->th.emplace_back();
  size_t i = 0;
  while (i < s.size()) {
    if (s[i] == '|') { out->th.emplace_back(); i++; continue; }
    if (s[i] == ',') { i++; continue; }
    Op o; o.k = s[i++];
    if (!is_kind(o.k)) return false;
    unsigned long a = 0, n = 0; bool da = false, dn = false;
    while (i < s.size() && isdigit((unsigned char)s[i])) { a = a * 10 + (unsigned long)(s[i++] - '0'); da = true; }
    if (i >= s.size() || s[i] != '.') return false;
    i++;
    while (i < s.size() && isdigit((unsigned char)s[i])) { n = n * 10 + (unsigned long)(s[i++] - '0'); dn = true; }
    if (!da || !dn || a > 255 || n > 0xfffffffful) return false;
    o.a = (uint8_t)a; o.n = (uint32_t)n;
    out->th.back().push_back(o);
  }
  return !out->th.empty() && out->th.size() <= 64;
}

// Tape -> program. Word 0 gives the thread count, words 1..N the per-thread lengths, every further
// word a BLOCK of kBlock consecutive ops of one thread, blocks dealt round-robin over the threads so
// that a short tape still gives every thread some non-default ops. Words are whitened (w ? mix64(w)
// : 0) so that the choices do not depend on the bit distribution of the tape words (few bits at
// small rapidcheck sizes); a zero word (what an exhausted or fully shrunk tape yields) still means
// the simplest choice. The default op is
// "construct ThreadLocal slot 0 with a value": the simplest program is already one in which all
// threads use the same (T, Slot). When the tape runs out, threads are cut at max(10, decoded ops).
static constexpr size_t kBlock = 5;
static Program decode_program(Tape& tp) {
  static const char kinds[33] = "KGMIXSNJKGMSXIGK" "RRRRWTTWVVVPPPPT";
  Program p;
  auto white = [&]() { uint64_t w = tp.next(); return w ? mix64(w) : 0; };
  const int n = 2 + (int)(white() % 7);
  std::vector<size_t> len((size_t)n);
  size_t maxlen = 0;
  for (int t = 0; t < n; t++) { len[(size_t)t] = 10 + (size_t)(white() % 51); maxlen = std::max(maxlen, len[(size_t)t]); }
  p.th.resize((size_t)n);
  std::vector<TlBook> book((size_t)n);
  for (size_t i = 0; i < maxlen; i += kBlock)
    for (int t = 0; t < n; t++) {
      if (i >= len[(size_t)t]) continue;
      if (tp.exhausted() && p.th[(size_t)t].size() >= 10) continue;   // no tape left: keep the minimum length only
      const uint64_t w = white();
      Rng r(w);
      for (size_t j = i; j < i + kBlock && j < len[(size_t)t]; j++) {
        Op o;
        if (w) { o.k = kinds[r.below(32)]; o.a = (uint8_t)r.below(64); o.n = r.below(1000); }
        if (is_tl(o.k)) {
          TlBook& b = book[(size_t)t]; const int s = o.a % kSlots;
          // Make the op applicable: in particular Get / modify only on a slot the model knows to hold a value.
          if ((o.k == 'G' || o.k == 'M') && b.has[s] && !b.nonempty[s]) o.k = 'I';
          if ((o.k == 'G' || o.k == 'M' || o.k == 'I' || o.k == 'J' || o.k == 'X') && !b.has[s]) o.k = 'K';
          switch (o.k) {
            case 'K': b.has[s] = true; b.nonempty[s] = true; break;
            case 'N': b.has[s] = true; break;
            case 'I': b.nonempty[s] = true; break;
            case 'X': b.nonempty[s] = false; break;
            case 'S': b.nonempty[s] = true; break;
            default: break;
          }
        }
        p.th[(size_t)t].push_back(o);
      }
    }
  return p;
}

// ------------------------------------------------------------------------------------------------
// Protocol types used by the round trip / table / RPC ops

struct Rec {
  int id = 0; std::string name; std::vector<int> v; std::map<int, std::string> m;
  bool operator==(const Rec& o) const { return id == o.id && name == o.name && v == o.v && m == o.m; }
  NOP_STRUCTURE(Rec, id, name, v, m);
};
enum class CalcErr { None, Busy, Gone };
using Var3 = nop::Variant<int, std::string, std::vector<int>>;
using Res = nop::Result<CalcErr, std::string>;
using Tup = std::tuple<std::uint64_t, std::string, std::vector<std::uint8_t>, double>;

struct TabA {   // version 1
  nop::Entry<int, 1> a; nop::Entry<std::string, 2> b; nop::Entry<std::vector<int>, 3> c;
  NOP_TABLE_NS("verif.c19.Tab", TabA, a, b, c);
};
struct TabB {   // version 2: entry 1 deleted, entry 4 added
  nop::Entry<int, 1, nop::DeletedEntry> a; nop::Entry<std::string, 2> b; nop::Entry<std::vector<int>, 3> c; nop::Entry<std::map<int, std::string>, 4> d;
  NOP_TABLE_NS("verif.c19.Tab", TabB, a, b, c, d);
};
struct TabC {   // version 2': entry 1 absent, entry 4 added
  nop::Entry<std::string, 2> b; nop::Entry<std::vector<int>, 3> c; nop::Entry<std::map<int, std::string>, 4> d;
  NOP_TABLE_NS("verif.c19.Tab", TabC, b, c, d);
};

template <typename A, typename B> static bool eq_entry(const A& x, const B& y) { return x.empty() == y.empty() && (x.empty() || x.get() == y.get()); }
static bool eq(const Rec& x, const Rec& y) { return x == y; }
static bool eq(const std::vector<std::string>& x, const std::vector<std::string>& y) { return x == y; }
static bool eq(const std::map<int, std::string>& x, const std::map<int, std::string>& y) { return x == y; }
static bool eq(const nop::Optional<std::string>& x, const nop::Optional<std::string>& y) { return eq_entry(x, y); }
static bool eq(const Var3& x, const Var3& y) {
  if (x.index() != y.index()) return false;
  switch (x.index()) {
    case 0: return *x.get<int>() == *y.get<int>();
    case 1: return *x.get<std::string>() == *y.get<std::string>();
    case 2: return *x.get<std::vector<int>>() == *y.get<std::vector<int>>();
    default: return true;
  }
}
static bool eq(const Res& x, const Res& y) {
  if (x.has_value() != y.has_value()) return false;
  return x.has_value() ? x.get() == y.get() : x.error() == y.error();
}
static bool eq(const TabA& x, const TabA& y) { return eq_entry(x.a, y.a) && eq_entry(x.b, y.b) && eq_entry(x.c, y.c); }
static bool eq(const Tup& x, const Tup& y) { return x == y; }

// Values: functions of (thread id, n); strings carry the thread id so a leak is visible.
static std::string gen_str(Rng& r, int tid) {
  std::string s = "t" + std::to_string(tid) + "_";
  uint32_t len = r.below(4) == 0 ? 20 + r.below(200) : r.below(24);
  for (uint32_t i = 0; i < len; i++) s += (char)('a' + r.below(26));
  return s;
}
static std::vector<int> gen_ints(Rng& r, int tid) {
  std::vector<int> v(r.below(12));
  for (auto& x : v) { const uint64_t w = r.next(); const uint32_t sh = r.below(4) * 16; x = (int)(w >> sh) ^ tid; }
  return v;
}
static std::map<int, std::string> gen_map(Rng& r, int tid) {
  std::map<int, std::string> m; uint32_t k = r.below(6);
  for (uint32_t i = 0; i < k; i++) { const int key = (int)r.below(100000) - 50000; m[key] = gen_str(r, tid); }
  return m;
}
static void gen_value(Rng& r, int tid, Rec* v) { v->id = tid * 100000 + (int)r.below(100000); v->name = gen_str(r, tid); v->v = gen_ints(r, tid); v->m = gen_map(r, tid); }
static void gen_value(Rng& r, int tid, std::vector<std::string>* v) { v->resize(r.below(8)); for (auto& s : *v) s = gen_str(r, tid); }
static void gen_value(Rng& r, int tid, std::map<int, std::string>* v) { *v = gen_map(r, tid); }
static void gen_value(Rng& r, int tid, nop::Optional<std::string>* v) { if (r.below(4)) *v = gen_str(r, tid); else v->clear(); }
static void gen_value(Rng& r, int tid, Var3* v) {
  switch (r.below(4)) { case 0: *v = (int)r.next(); break; case 1: *v = gen_str(r, tid); break; case 2: *v = gen_ints(r, tid); break; default: *v = nop::EmptyVariant{}; }
}
static void gen_value(Rng& r, int tid, Res* v) { switch (r.below(3)) { case 0: *v = CalcErr::Busy; break; case 1: *v = CalcErr::Gone; break; default: *v = gen_str(r, tid); } }
static void gen_value(Rng& r, int tid, TabA* v) {
  if (r.below(4)) v->a = tid * 100000 + (int)r.below(100000);
  if (r.below(4)) v->b = gen_str(r, tid);
  if (r.below(4)) v->c = gen_ints(r, tid);
}
static void gen_value(Rng& r, int tid, Tup* v) {
  { const uint64_t w = r.next(); const uint32_t sh = r.below(8) * 8; std::get<0>(*v) = w >> sh; }
  std::get<1>(*v) = gen_str(r, tid);
  std::get<2>(*v).resize(r.below(40)); for (auto& b : std::get<2>(*v)) b = (std::uint8_t)r.below(256);
  std::get<3>(*v) = (double)(int64_t)r.next() / 1024.0;
}

// ------------------------------------------------------------------------------------------------
// Element with GLOBAL atomic counters, used as the ThreadLocal element type: the thread_local
// storage is destroyed at thread exit, after the thread's own tracker() may already be gone.
struct AtomicTracked {
  static std::atomic<long> constructed, destroyed, bad;
  static constexpr std::uint32_t kAlive = 0xA11CE5u, kDead = 0xDEADu;
  int payload = 0;
  std::uint32_t magic = kAlive;
  static void count(std::atomic<long>& c) { c.fetch_add(1, std::memory_order_relaxed); }   // relaxed: adds no happens-before edge
  explicit AtomicTracked(int p) : payload(p) { count(constructed); }
  AtomicTracked(const AtomicTracked& o) : payload(o.payload) { if (o.magic != kAlive) count(bad); count(constructed); }
  AtomicTracked(AtomicTracked&& o) noexcept : payload(o.payload) { if (o.magic != kAlive) count(bad); count(constructed); }
  AtomicTracked& operator=(const AtomicTracked& o) { if (magic != kAlive || o.magic != kAlive) count(bad); payload = o.payload; return *this; }
  AtomicTracked& operator=(AtomicTracked&& o) noexcept { if (magic != kAlive || o.magic != kAlive) count(bad); payload = o.payload; return *this; }
  ~AtomicTracked() { if (magic != kAlive) count(bad); magic = kDead; count(destroyed); }
};
std::atomic<long> AtomicTracked::constructed{0}, AtomicTracked::destroyed{0}, AtomicTracked::bad{0};

// ------------------------------------------------------------------------------------------------
// ThreadLocal slots shared (as types) by all threads

struct TagA; struct TagB;
struct MV { long i = 0; std::string s; bool str = false; };   // model value
static bool slot_is_str(int s) { return s == 3 || s == 4 || s == 8 || s == 9; }
static const char* slot_name(int s) {
  static const char* n[kSlots] = {"ThreadLocal<int,ThreadLocalSlot<TagA,0>>", "ThreadLocal<int,ThreadLocalSlot<TagA,1>>", "ThreadLocal<int>",
                                  "ThreadLocal<string,ThreadLocalSlot<TagA,0>>", "ThreadLocal<string,ThreadLocalTypeSlot<TagB>>",
                                  "ThreadLocal<AtomicTracked,ThreadLocalSlot<TagA,0>>", "ThreadLocal<AtomicTracked,ThreadLocalIndexSlot<1>>",
                                  // the three tag families name DIFFERENT slots even where their parameters look alike
                                  "ThreadLocal<int,ThreadLocalIndexSlot<0>>", "ThreadLocal<string,ThreadLocalTypeSlot<TagA>>", "ThreadLocal<string>"};
  return n[s];
}
static MV mv_make(int tid, int slot, uint32_t n) {
  MV v; v.str = slot_is_str(slot);
  if (v.str) v.s = "t" + std::to_string(tid) + "s" + std::to_string(slot) + ":" + std::to_string(n) + std::string(n % 37, (char)('a' + n % 26));
  else v.i = (long)tid * 100000 + slot * 10000 + (long)n;
  return v;
}
static void mv_modify(MV& v, uint32_t n) { if (v.str) v.s += "+" + std::to_string(n % 10); else v.i += (long)n + 1; }
static std::string mv_show(const MV& v) { return v.str ? v.s : std::to_string(v.i); }

template <int I> struct SlotDef;
template <> struct SlotDef<0> { using H = nop::ThreadLocal<int, nop::ThreadLocalSlot<TagA, 0>>; static int arg(const MV& v) { return (int)v.i; } };
template <> struct SlotDef<1> { using H = nop::ThreadLocal<int, nop::ThreadLocalSlot<TagA, 1>>; static int arg(const MV& v) { return (int)v.i; } };
template <> struct SlotDef<2> { using H = nop::ThreadLocal<int>; static int arg(const MV& v) { return (int)v.i; } };
template <> struct SlotDef<3> { using H = nop::ThreadLocal<std::string, nop::ThreadLocalSlot<TagA, 0>>; static std::string arg(const MV& v) { return v.s; } };
template <> struct SlotDef<4> { using H = nop::ThreadLocal<std::string, nop::ThreadLocalTypeSlot<TagB>>; static std::string arg(const MV& v) { return v.s; } };
template <> struct SlotDef<5> { using H = nop::ThreadLocal<AtomicTracked, nop::ThreadLocalSlot<TagA, 0>>; static int arg(const MV& v) { return (int)v.i; } };
template <> struct SlotDef<6> { using H = nop::ThreadLocal<AtomicTracked, nop::ThreadLocalIndexSlot<1>>; static int arg(const MV& v) { return (int)v.i; } };
template <> struct SlotDef<7> { using H = nop::ThreadLocal<int, nop::ThreadLocalIndexSlot<0>>; static int arg(const MV& v) { return (int)v.i; } };
template <> struct SlotDef<9> { using H = nop::ThreadLocal<std::string>; static std::string arg(const MV& v) { return v.s; } };
template <> struct SlotDef<8> { using H = nop::ThreadLocal<std::string, nop::ThreadLocalTypeSlot<TagA>>; static std::string arg(const MV& v) { return v.s; } };

static std::string real_show(const int& x) { return std::to_string(x); }
static std::string real_show(const std::string& x) { return x; }
static std::string real_show(const AtomicTracked& x) { return x.magic == AtomicTracked::kAlive ? std::to_string(x.payload) : "<dead AtomicTracked>"; }
static void real_modify(int& x, uint32_t n) { x += (int)n + 1; }
static void real_modify(std::string& x, uint32_t n) { x += "+" + std::to_string(n % 10); }
static void real_modify(AtomicTracked& x, uint32_t n) { x.payload += (int)n + 1; }

template <int I> struct RealSlot {
  using H = typename SlotDef<I>::H;
  std::unique_ptr<H> h;   // the thread's primary handle
  void construct_arg(const MV& v) { h.reset(); h = std::make_unique<H>(SlotDef<I>::arg(v)); }
  void construct_noarg() { h.reset(); h = std::make_unique<H>(); }
  void init_arg(const MV& v) { h->Initialize(SlotDef<I>::arg(v)); }
  void init_noarg() { h->Initialize(); }
  std::string get() { return real_show(h->Get()); }
  void modify(uint32_t n) { real_modify(h->Get(), n); }
  void clear() { h->Clear(); }
  std::string second(const MV& v, bool has) {
    H other(SlotDef<I>::arg(v));
    std::string r = real_show(other.Get());
    if (has) r += (&other.Get() == &h->Get()) ? ";same=1" : ";same=0";
    return r;
  }
};

// Real backend: lives inside one thread.
struct RealTL {
  std::tuple<RealSlot<0>, RealSlot<1>, RealSlot<2>, RealSlot<3>, RealSlot<4>, RealSlot<5>, RealSlot<6>, RealSlot<7>, RealSlot<8>, RealSlot<9>> slots;
  template <typename F> std::string with(int s, F&& f) {
    switch (s) {
      case 0: return f(std::get<0>(slots)); case 1: return f(std::get<1>(slots)); case 2: return f(std::get<2>(slots));
      case 3: return f(std::get<3>(slots)); case 4: return f(std::get<4>(slots)); case 5: return f(std::get<5>(slots));
      case 6: return f(std::get<6>(slots)); case 7: return f(std::get<7>(slots));
      case 8: return f(std::get<8>(slots));
      default: return f(std::get<9>(slots));
    }
  }
  void construct_arg(int s, const MV& v) { with(s, [&](auto& x) { x.construct_arg(v); return std::string(); }); }
  void construct_noarg(int s) { with(s, [&](auto& x) { x.construct_noarg(); return std::string(); }); }
  void init_arg(int s, const MV& v) { with(s, [&](auto& x) { x.init_arg(v); return std::string(); }); }
  void init_noarg(int s) { with(s, [&](auto& x) { x.init_noarg(); return std::string(); }); }
  std::string get(int s) { return with(s, [&](auto& x) { return x.get(); }); }
  void modify(int s, uint32_t n) { with(s, [&](auto& x) { x.modify(n); return std::string(); }); }
  void clear(int s) { with(s, [&](auto& x) { x.clear(); return std::string(); }); }
  std::string second(int s, const MV& v, bool has) { return with(s, [&](auto& x) { return x.second(v, has); }); }
};

// Model backend: per slot empty | value; first initialisation wins until Clear.
struct ModelTL {
  bool full[kSlots] = {}; MV val[kSlots];
  void set_if_empty(int s, const MV& v) { if (!full[s]) { full[s] = true; val[s] = v; } }
  void construct_arg(int s, const MV& v) { set_if_empty(s, v); }
  void construct_noarg(int) {}
  void init_arg(int s, const MV& v) { set_if_empty(s, v); }
  void init_noarg(int) {}
  std::string get(int s) { return full[s] ? mv_show(val[s]) : "<model: empty>"; }
  void modify(int s, uint32_t n) { if (full[s]) mv_modify(val[s], n); }
  void clear(int s) { full[s] = false; val[s] = MV(); }
  std::string second(int s, const MV& v, bool has) { set_if_empty(s, v); return mv_show(val[s]) + (has ? ";same=1" : ""); }
};

template <typename Backend>
static std::string tl_apply(Backend& b, TlBook& bk, int tid, const Op& o) {
  const int s = o.a % kSlots;
  const MV v = mv_make(tid, s, o.n);
  const std::string k(1, o.k);
  switch (o.k) {
    case 'K': b.construct_arg(s, v); bk.has[s] = true; bk.nonempty[s] = true; return k + "=" + b.get(s);
    case 'N':
      b.construct_noarg(s); bk.has[s] = true;
      if (bk.nonempty[s]) return k + "=" + b.get(s);
      b.clear(s); return k + "~";   // outcome left open by the property: normalise to empty
    case 'I': if (!bk.has[s]) return "-"; b.init_arg(s, v); bk.nonempty[s] = true; return k + "=" + b.get(s);
    case 'J':
      if (!bk.has[s]) return "-";
      b.init_noarg(s);
      if (bk.nonempty[s]) return k + "=" + b.get(s);
      b.clear(s); return k + "~";
    case 'G': if (!bk.has[s] || !bk.nonempty[s]) return "-"; return k + "=" + b.get(s);
    case 'M': if (!bk.has[s] || !bk.nonempty[s]) return "-"; b.modify(s, o.n); return k + "=" + b.get(s);
    case 'X': if (!bk.has[s]) return "-"; b.clear(s); bk.nonempty[s] = false; return k;
    case 'S': { std::string r = b.second(s, v, bk.has[s]); bk.nonempty[s] = true; return k + "=" + r; }
    default: return "-";
  }
}

// ------------------------------------------------------------------------------------------------
// RPC: one interface, one connection per thread

struct ByteSink {   // writer
  std::vector<std::uint8_t> data;
  nop::Status<void> Prepare(std::size_t) { return {}; }
  nop::Status<void> Write(std::uint8_t b) { data.push_back(b); return {}; }
  nop::Status<void> Write(const void* begin, const void* end) { data.insert(data.end(), static_cast<const std::uint8_t*>(begin), static_cast<const std::uint8_t*>(end)); return {}; }
  nop::Status<void> Skip(std::size_t n, std::uint8_t v = 0) { data.insert(data.end(), n, v); return {}; }
};
struct ByteSource {   // reader over a sink's bytes; `pump` (if set) is run once before the first access
  const std::vector<std::uint8_t>* data = nullptr; std::size_t pos = 0;
  std::function<void()> pump; bool pumped = false;
  void fill() { if (!pumped) { pumped = true; if (pump) pump(); } }
  nop::Status<void> Ensure(std::size_t n) { fill(); if (data->size() - pos < n) return nop::ErrorStatus::ReadLimitReached; return {}; }
  nop::Status<void> Read(std::uint8_t* b) { fill(); if (pos >= data->size()) return nop::ErrorStatus::ReadLimitReached; *b = (*data)[pos++]; return {}; }
  nop::Status<void> Read(void* begin, void* end) {
    fill();
    const std::size_t n = (std::size_t)(static_cast<std::uint8_t*>(end) - static_cast<std::uint8_t*>(begin));
    if (n > data->size() - pos) return nop::ErrorStatus::ReadLimitReached;
    if (n) std::memcpy(begin, data->data() + pos, n);
    pos += n; return {};
  }
  nop::Status<void> Skip(std::size_t n) { fill(); if (n > data->size() - pos) return nop::ErrorStatus::ReadLimitReached; pos += n; return {}; }
};

struct Calc : nop::Interface<Calc> {
  NOP_INTERFACE("verif.c19.Calc");
  NOP_METHOD(Add, int(int a, int b));
  NOP_METHOD(Concat, std::string(const std::string& a, const std::string& b));
  NOP_METHOD(Sum, std::int64_t(const std::vector<int>& v));
  NOP_METHOD(Unbound, int(int a));
  NOP_INTERFACE_API(Add, Concat, Sum, Unbound);
};

struct Second : nop::Interface<Second> {
  NOP_INTERFACE("verif.c19.Second");
  NOP_METHOD(Ping, int(int a));
  NOP_INTERFACE_API(Ping);
};

struct RpcConn {
  using Ser = nop::Serializer<ByteSink*>;
  using Des = nop::Deserializer<ByteSource*>;
  using Receiver = nop::SimpleMethodReceiver<Ser, Des>;
  ByteSink req, rep;
  ByteSource req_src, rep_src;
  Ser req_ser{&req}, rep_ser{&rep};
  Des req_des{&req_src}, rep_des{&rep_src};
  Receiver receiver{&rep_ser, &req_des};
  nop::SimpleMethodSender<Ser, Des> sender{&req_ser, &rep_des};
  nop::InterfaceDispatcher<Receiver> dispatcher;
  long handled = 0;
  nop::Status<void> dispatch_status;
  RpcConn() {
    req_src.data = &req.data; rep_src.data = &rep.data;
    dispatcher = nop::BindInterface(
        Calc::Add::Bind([this](int a, int b) { handled++; return (int)((unsigned)a + (unsigned)b); }),
        Calc::Concat::Bind([this](const std::string& a, const std::string& b) { handled++; return a + b; }),
        Calc::Sum::Bind([this](const std::vector<int>& v) { handled++; std::int64_t s = 0; for (int x : v) s += x; return s; }));
    // The sender reads the reply right after writing the request: the reply reader runs the
    // dispatcher when it is first asked for data.
    rep_src.pump = [this] { dispatch_status = dispatcher(&receiver); };
  }
  void begin_call() { req.data.clear(); rep.data.clear(); req_src.pos = rep_src.pos = 0; rep_src.pumped = false; dispatch_status = {}; }
  RpcConn(const RpcConn&) = delete;
  void operator=(const RpcConn&) = delete;
};

// ------------------------------------------------------------------------------------------------
// Per-thread context and the non-ThreadLocal ops

using TVar = nop::Variant<Tracked<1>, Tracked<2>, std::string>;
struct Ctx {
  int tid;
  TVar var; int m_idx = -1; int m_vpay = 0;                 // Variant + its model (index, payload)
  nop::Optional<Tracked<3>> opt; bool m_opt = false; int m_opay = 0;
  RpcConn conn;
  std::vector<std::uint8_t> buf;                              // BufferWriter target, thread-owned
  explicit Ctx(int t) : tid(t) {}
};

template <typename T>
static std::string round_trip(Ctx& c, Rng& r, bool use_buffer) {
  T v{}; gen_value(r, c.tid, &v);
  T back{};
  std::string bytes;
  if (!use_buffer) {
    nop::Serializer<nop::StreamWriter<std::stringstream>> ser;
    auto st = ser.Write(v);
    if (!st) return std::string("!rt-write: ") + st.GetErrorMessage();
    bytes = ser.writer().stream().str();
    nop::Deserializer<nop::StreamReader<std::stringstream>> des{bytes};
    st = des.Read(&back);
    if (!st) return std::string("!rt-read: ") + st.GetErrorMessage();
    if (des.reader().stream().peek() != std::char_traits<char>::eof()) return "!rt-trailing: reader did not consume the whole encoding";
  } else {
    nop::Serializer<nop::BufferWriter> ser0;   // only for GetSize
    const std::size_t need = ser0.GetSize(v);
    c.buf.assign(need + 8, 0xEE);
    nop::Serializer<nop::BufferWriter> ser{c.buf.data(), need};
    auto st = ser.Write(v);
    if (!st) return std::string("!rt-write: ") + st.GetErrorMessage();
    const std::size_t n = ser.writer().size();
    if (n > need) return "!rt-overrun: wrote more than GetSize()";
    for (std::size_t i = need; i < c.buf.size(); i++) if (c.buf[i] != 0xEE) return "!rt-overrun: guard bytes modified";
    bytes.assign(reinterpret_cast<const char*>(c.buf.data()), n);
    nop::Deserializer<nop::BufferReader> des{c.buf.data(), n};
    st = des.Read(&back);
    if (!st) return std::string("!rt-read: ") + st.GetErrorMessage();
    if (!des.reader().empty()) return "!rt-trailing: reader did not consume the whole encoding";
  }
  if (!eq(v, back)) return "!rt-mismatch: value read back differs from the value written";
  return "len=" + std::to_string(bytes.size()) + " h=" + hex16(hash_bytes(bytes));
}

static std::string op_round_trip(Ctx& c, const Op& o) {
  Rng r(mix64(((uint64_t)c.tid << 40) ^ ((uint64_t)o.a << 32) ^ o.n));
  const bool buf = (o.a >> 3) & 1;
  std::string res;
  switch (o.a & 7) {
    case 0: res = round_trip<Rec>(c, r, buf); break;
    case 1: res = round_trip<std::vector<std::string>>(c, r, buf); break;
    case 2: res = round_trip<std::map<int, std::string>>(c, r, buf); break;
    case 3: res = round_trip<nop::Optional<std::string>>(c, r, buf); break;
    case 4: res = round_trip<Var3>(c, r, buf); break;
    case 5: res = round_trip<Res>(c, r, buf); break;
    case 6: res = round_trip<TabA>(c, r, buf); break;
    default: res = round_trip<Tup>(c, r, buf); break;
  }
  return res[0] == '!' ? res : "R" + std::to_string(o.a & 15) + " " + res;
}

template <typename From, typename To>
static std::string transcode(const From& from, To* to, std::string* bytes) {
  nop::Serializer<nop::StreamWriter<std::stringstream>> ser;
  auto st = ser.Write(from);
  if (!st) return std::string("!table-write: ") + st.GetErrorMessage();
  *bytes = ser.writer().stream().str();
  nop::Deserializer<nop::StreamReader<std::stringstream>> des{*bytes};
  st = des.Read(to);
  if (!st) return std::string("!table-read: ") + st.GetErrorMessage();
  return "";
}
template <typename New>
static std::string table_cross(Ctx& c, Rng& r) {
  TabA a; gen_value(r, c.tid, &a);
  New n; n.d = gen_map(r, c.tid);   // must be cleared by the read: entry 4 is not in the data
  std::string b1, b2;
  std::string e = transcode(a, &n, &b1);
  if (!e.empty()) return e;
  if (!eq_entry(a.b, n.b) || !eq_entry(a.c, n.c)) return "!table-carry: common entries 2/3 differ after reading version A data as version B";
  if (!n.d.empty()) return "!table-carry: entry 4 not empty after reading version A data";
  // now the other direction: new writer (entry 4 set), old reader (does not know entry 4; entry 1 absent from the data)
  if (r.below(2)) n.d = gen_map(r, c.tid);
  if (r.below(3) == 0) n.b = gen_str(r, c.tid);
  TabA a2; a2.a = 12345;
  e = transcode(n, &a2, &b2);
  if (!e.empty()) return e;
  if (!eq_entry(n.b, a2.b) || !eq_entry(n.c, a2.c)) return "!table-carry: common entries 2/3 differ after reading version B data as version A";
  if (!a2.a.empty()) return "!table-carry: entry 1 not empty after reading data that does not contain it";
  return "h1=" + hex16(hash_bytes(b1)) + " h2=" + hex16(hash_bytes(b2));
}
static std::string op_table(Ctx& c, const Op& o) {
  Rng r(mix64(((uint64_t)c.tid << 40) ^ ((uint64_t)o.a << 32) ^ o.n ^ 0x7ab1e));
  std::string res = (o.a & 1) ? table_cross<TabC>(c, r) : table_cross<TabB>(c, r);
  return res[0] == '!' ? res : std::string("T") + ((o.a & 1) ? "c " : "b ") + res;
}

// 'W': primitive writer traffic on thread-owned writers, with a THREAD-SPECIFIC padding value (the
// library's own table encoder always pads with 0, so hidden state keyed on the padding value would
// otherwise never differ between threads).
static std::string op_writer(Ctx& c, const Op& o) {
  Rng r(mix64(((uint64_t)c.tid << 40) ^ ((uint64_t)o.a << 32) ^ o.n ^ 0x3117e5));
  const uint8_t pad = (uint8_t)(0x11 + c.tid * 29 + (o.a & 3));
  const uint8_t fill = (uint8_t)(o.n & 0xff);
  const size_t n1 = 1 + r.below(40), nskip = 1 + r.below(300);
  std::string want; want.append(n1, (char)fill); want.append(nskip, (char)pad); want.push_back((char)0x5a);
  {
    nop::StreamWriter<std::stringstream> w;
    for (size_t i = 0; i < n1; i++) if (!w.Write(fill)) return "!writer: StreamWriter::Write failed";
    if (!w.Skip(nskip, pad)) return "!writer: StreamWriter::Skip failed";
    if (!w.Write((uint8_t)0x5a)) return "!writer: StreamWriter::Write failed";
    if (w.stream().str() != want) return "!writer-skip: StreamWriter produced wrong bytes for Skip(" + std::to_string(nskip) + ", " + std::to_string(pad) + ")";
  }
  {
    nop::StreamWriter<std::stringstream> inner;
    nop::BoundedWriter<nop::StreamWriter<std::stringstream>> w(&inner, n1 + nskip + 1);
    for (size_t i = 0; i < n1; i++) if (!w.Write(fill)) return "!writer: BoundedWriter::Write failed";
    if (!w.Skip(nskip - 1, pad)) return "!writer: BoundedWriter::Skip failed";
    if (!w.WritePadding(pad)) return "!writer: WritePadding failed";     // pads the remaining 2 bytes with the same value
    std::string got = inner.stream().str();
    std::string want2; want2.append(n1, (char)fill); want2.append(nskip + 1, (char)pad);
    if (got != want2) return "!writer-skip: BoundedWriter<StreamWriter> produced wrong padding bytes";
  }
  {
    std::vector<std::uint8_t> buf(want.size(), 0xEE);
    nop::PedanticBufferWriter w(buf.data(), buf.size());
    for (size_t i = 0; i < n1; i++) if (!w.Write(fill)) return "!writer: PedanticBufferWriter::Write failed";
    if (!w.Skip(nskip, pad) || !w.Write((uint8_t)0x5a)) return "!writer: PedanticBufferWriter::Skip failed";
    if (std::string(buf.begin(), buf.end()) != want) return "!writer-skip: PedanticBufferWriter produced wrong bytes";
  }
  {
    // thread-owned FdWriter over its own memfd, then FdReader over the same file
    int fd = memfd_create("c19w", 0);
    if (fd < 0) return "!writer: memfd_create failed";
    int rfd = dup(fd);
    std::string got;
    {
      nop::FdWriter w(fd);   // owns and closes fd
      for (size_t i = 0; i < n1; i++) if (!w.Write(fill)) { close(rfd); return "!writer: FdWriter::Write failed"; }
      std::string block(nskip, (char)pad);
      if (!w.Write(block.data(), block.data() + block.size()) || !w.Write((uint8_t)0x5a)) { close(rfd); return "!writer: FdWriter::Write(block) failed"; }
    }
    lseek(rfd, 0, SEEK_SET);
    {
      nop::FdReader rd(rfd);   // owns and closes rfd
      got.resize(want.size());
      if (!rd.Read(&got[0], &got[0] + got.size())) return "!writer: FdReader::Read failed";
    }
    if (got != want) return "!writer-skip: FdWriter / FdReader round trip produced wrong bytes";
  }
  {
    // thread-owned Status objects: the text GetErrorMessage() handed out for one object must not change because
    // another object (in this or any other thread) is asked for its message
    nop::Status<int> known{(nop::ErrorStatus)(1 + (o.n % 18))}, odd{(nop::ErrorStatus)(1000 + c.tid * 7 + (int)(o.a & 3))};
    const char* mk = known.GetErrorMessage(); const char* mo = odd.GetErrorMessage();
    const std::string ck = mk ? mk : "<null>", co = mo ? mo : "<null>";
    nop::Status<int> other{(nop::ErrorStatus)(2000 + c.tid)};
    (void)other.GetErrorMessage();
    for (int spin = 0; spin < 50; spin++) std::this_thread::yield();
    if (std::string(mk ? mk : "<null>") != ck || std::string(mo ? mo : "<null>") != co) return "!status-message: the text returned by Status<int>::GetErrorMessage() changed while its owner was still holding it";
  }
  return "W h=" + hex16(hash_bytes(want));
}

static std::string op_variant_burst(Ctx& c, const Op& o) {
  Rng r(mix64(((uint64_t)c.tid << 40) ^ ((uint64_t)o.a << 32) ^ o.n ^ 0x5a5a));
  const int steps = 1 + (o.a & 7);
  std::string trace;
  for (int st = 0; st < steps; st++) {
    const int pay = c.tid * 100000 + (int)r.below(100000);
    const uint32_t what = r.below(10);
    switch (what) {
      case 0: c.var = Tracked<1>(pay); c.m_idx = 0; c.m_vpay = pay; break;
      case 1: c.var = Tracked<2>(pay); c.m_idx = 1; c.m_vpay = pay; break;
      case 2: c.var = gen_str(r, c.tid); c.m_idx = 2; break;
      case 3: c.var = nop::EmptyVariant{}; c.m_idx = -1; break;
      case 4: {   // copy
        TVar tmp(c.var);
        if (tmp.index() != c.m_idx) return "!variant-copy: copy has index " + std::to_string(tmp.index()) + ", expected " + std::to_string(c.m_idx);
        const size_t want = (size_t)(c.m_idx == 0 || c.m_idx == 1 ? 2 : 0) + (c.m_opt ? 1 : 0);
        if (tracker().live.size() != want) return "!variant-copy: live elements " + std::to_string(tracker().live.size()) + ", expected " + std::to_string(want);
        break;
      }
      case 5: { TVar tmp(std::move(c.var)); c.var = std::move(tmp); break; }   // move out and back
      case 6: c.opt = Tracked<3>(pay); c.m_opt = true; c.m_opay = pay; break;
      case 7: c.opt.clear(); c.m_opt = false; break;
      case 8: { nop::Optional<Tracked<3>> tmp(c.opt); if (tmp.empty() == c.m_opt) return "!optional-copy: emptiness differs"; c.opt = tmp; break; }
      default: { nop::Optional<Tracked<3>> tmp(std::move(c.opt)); c.opt = std::move(tmp); break; }
    }
    // invariant after every step
    if (c.var.index() != c.m_idx) return "!variant-index: index " + std::to_string(c.var.index()) + ", expected " + std::to_string(c.m_idx) + " after step kind " + std::to_string(what);
    if (c.m_idx == 0 && c.var.get<Tracked<1>>()->payload != c.m_vpay) return "!variant-value: Tracked<1> payload differs";
    if (c.m_idx == 1 && c.var.get<Tracked<2>>()->payload != c.m_vpay) return "!variant-value: Tracked<2> payload differs";
    if (c.opt.empty() == c.m_opt) return "!optional-empty: emptiness differs from the model after step kind " + std::to_string(what);
    if (c.m_opt && c.opt.get().payload != c.m_opay) return "!optional-value: payload differs";
    const size_t want = (size_t)(c.m_idx == 0 || c.m_idx == 1 ? 1 : 0) + (c.m_opt ? 1 : 0);
    if (tracker().live.size() != want) return "!tracked-live: live elements " + std::to_string(tracker().live.size()) + ", expected " + std::to_string(want) + " after step kind " + std::to_string(what);
    if (tracker().errors) return "!tracked-error: " + tracker().first_error;
    trace += (char)('0' + what);
  }
  return "V " + trace + " idx=" + std::to_string(c.var.index()) + " opt=" + (c.opt.empty() ? "-" : std::to_string(c.opt.get().payload)) + " live=" + std::to_string(tracker().live.size());
}

static std::string op_rpc(Ctx& c, const Op& o) {
  Rng r(mix64(((uint64_t)c.tid << 40) ^ ((uint64_t)o.a << 32) ^ o.n ^ 0x09c));
  RpcConn& k = c.conn;
  {
    // interface descriptors are pure functions of the declaration, whatever was asked first in this thread
    const std::string n1 = (o.n & 1) ? std::string(Calc::GetInterfaceName()) : std::string(Second::GetInterfaceName());
    const std::string n2 = (o.n & 1) ? std::string(Second::GetInterfaceName()) : std::string(Calc::GetInterfaceName());
    const std::string w1 = (o.n & 1) ? "verif.c19.Calc" : "verif.c19.Second", w2 = (o.n & 1) ? "verif.c19.Second" : "verif.c19.Calc";
    if (n1 != w1 || n2 != w2) return "!rpc-interface-name: GetInterfaceName() returned '" + n1 + "' / '" + n2 + "', the declarations say '" + w1 + "' / '" + w2 + "'";
  }
  k.begin_call();
  const long before = k.handled;
  std::string out;
  switch (o.a & 3) {
    case 0: {
      const int x = (int)r.next(), y = c.tid * 1000 + (int)r.below(1000);
      auto st = Calc::Add::Invoke(&k.sender, x, y);
      if (!st) return std::string("!rpc-status: Add failed: ") + st.GetErrorMessage();
      if (st.get() != (int)((unsigned)x + (unsigned)y)) return "!rpc-result: Add(" + std::to_string(x) + "," + std::to_string(y) + ") = " + std::to_string(st.get());
      out = "Add=" + std::to_string(st.get());
      break;
    }
    case 1: {
      const std::string x = gen_str(r, c.tid), y = gen_str(r, c.tid);
      auto st = Calc::Concat::Invoke(&k.sender, x, y);
      if (!st) return std::string("!rpc-status: Concat failed: ") + st.GetErrorMessage();
      if (st.get() != x + y) return "!rpc-result: Concat returned '" + st.get() + "', expected '" + x + y + "'";
      out = "Concat=" + hex16(hash_str(st.get()));
      break;
    }
    case 2: {
      const std::vector<int> v = gen_ints(r, c.tid);
      std::int64_t want = 0; for (int x : v) want += x;
      auto st = Calc::Sum::Invoke(&k.sender, v);
      if (!st) return std::string("!rpc-status: Sum failed: ") + st.GetErrorMessage();
      if (st.get() != want) return "!rpc-result: Sum = " + std::to_string(st.get()) + ", expected " + std::to_string(want);
      out = "Sum=" + std::to_string(st.get());
      break;
    }
    default: {   // declared but not bound: the dispatcher must refuse, the caller sees a read error
      auto st = Calc::Unbound::Invoke(&k.sender, c.tid);
      if (st) return "!rpc-status: call of an unbound method succeeded";
      if (k.dispatch_status || k.dispatch_status.error() != nop::ErrorStatus::InvalidInterfaceMethod) return "!rpc-status: dispatcher did not report InvalidInterfaceMethod";
      if (k.handled != before) return "!rpc-handled: a handler ran for an unbound method";
      return std::string("P Unbound err=") + st.GetErrorMessage() + " req=" + hex16(hash_bytes(k.req.data));
    }
  }
  if (!k.dispatch_status) return std::string("!rpc-status: dispatcher failed: ") + k.dispatch_status.GetErrorMessage();
  if (k.handled != before + 1) return "!rpc-handled: handler ran " + std::to_string(k.handled - before) + " times";
  if (k.req_src.pos != k.req.data.size() || k.rep_src.pos != k.rep.data.size()) return "!rpc-trailing: request or reply not consumed completely";
  return "P " + out + " req=" + hex16(hash_bytes(k.req.data)) + " rep=" + hex16(hash_bytes(k.rep.data)) + " n=" + std::to_string(k.handled);
}

// Runs one thread's op list. `perturb(i)` is called before op i.
template <typename Backend, typename Perturb>
static void exec_ops(int tid, const std::vector<Op>& ops, std::vector<std::string>* log, Perturb&& perturb) {
  tracker().reset();
  log->clear(); log->reserve(ops.size() + 1);
  {
    Ctx ctx(tid);
    Backend tl;
    TlBook book;
    for (size_t i = 0; i < ops.size(); i++) {
      perturb(i);
      const Op& o = ops[i];
      switch (o.k) {
        case 'R': log->push_back(op_round_trip(ctx, o)); break;
        case 'T': log->push_back(op_table(ctx, o)); break;
        case 'V': log->push_back(op_variant_burst(ctx, o)); break;
        case 'P': log->push_back(op_rpc(ctx, o)); break;
        case 'W': log->push_back(op_writer(ctx, o)); break;
        default: log->push_back(tl_apply(tl, book, tid, o)); break;
      }
    }
  }
  // all thread-owned objects are gone: the thread's Tracked live set must be back to empty
  const TrackerState& t = tracker();
  if (!t.live.empty() || t.errors || t.constructed != t.destroyed)
    log->push_back("!tracked-baseline: live=" + std::to_string(t.live.size()) + " constructed=" + std::to_string(t.constructed) + " destroyed=" + std::to_string(t.destroyed) + " errors=" + std::to_string(t.errors) + " " + t.first_error);
  else
    log->push_back("end live=0");
}

// ------------------------------------------------------------------------------------------------
// Running a program

struct Outcome { std::string message; std::string key; bool ok() const { return message.empty(); } };

static std::string clip(const std::string& s) { return s.size() > 160 ? s.substr(0, 160) + "..." : s; }

// Process-wide state an operation on a private object has no business changing: the signal dispositions.
struct SigSnapshot {
  struct sigaction a[32];
  void take() { for (int s = 1; s < 32; s++) { std::memset(&a[s], 0, sizeof a[s]); if (s != SIGKILL && s != SIGSTOP) sigaction(s, nullptr, &a[s]); } }
  int first_difference(const SigSnapshot& o) const {
    for (int s = 1; s < 32; s++) if (s != SIGKILL && s != SIGSTOP && (a[s].sa_handler != o.a[s].sa_handler || a[s].sa_flags != o.a[s].sa_flags)) return s;
    return 0;
  }
};
static void sigpipe_handler(int) {}

static Outcome run_program(const Program& p, int reps, long* evaluations) {
  const size_t n = p.th.size();
  const uint64_t ph = hash_str(prog_text(p));
  // (b) expected logs: sequential execution in the main thread against the model
  std::vector<std::vector<std::string>> expect(n);
  for (size_t t = 0; t < n; t++) {
    exec_ops<ModelTL>((int)t, p.th[t], &expect[t], [](size_t) {});
    for (size_t i = 0; i < expect[t].size(); i++)
      if (expect[t][i][0] == '!') {
        const std::string cls = expect[t][i].substr(1, expect[t][i].find(':') - 1);
        return {cls + ": sequential run, thread list " + std::to_string(t) + " op " + std::to_string(i) + (i < p.th[t].size() ? " (" + op_text(p.th[t][i]) + ")" : "") + ": " + clip(expect[t][i].substr(std::min(expect[t][i].size(), expect[t][i].find(':') + 2))), "C19|sequential|" + cls};
      }
  }
  tracker().reset();

  for (int rep = 0; rep < reps; rep++) {
    if (evaluations) ++*evaluations;
    const long c0 = AtomicTracked::constructed.load(), d0 = AtomicTracked::destroyed.load(), b0 = AtomicTracked::bad.load();
    std::vector<std::vector<std::string>> got(n);
    std::mutex bm; std::condition_variable bcv; int arrived = 0;   // start barrier (blocking: spinning is costly on a loaded machine)
    SigSnapshot sig_before; sig_before.take();
    std::vector<std::thread> threads;
    threads.reserve(n);
    for (size_t t = 0; t < n; t++)
      threads.emplace_back([&, t] {
        // start barrier
        {
          std::unique_lock<std::mutex> lk(bm);
          if (++arrived == (int)n) bcv.notify_all(); else bcv.wait(lk, [&] { return arrived == (int)n; });
        }
        exec_ops<RealTL>((int)t, p.th[t], &got[t], [&](size_t i) {
          const uint64_t h = mix64(ph ^ mix64(((uint64_t)rep << 40) ^ ((uint64_t)t << 32) ^ (uint64_t)i));
          switch (h & 3) {
            case 2: std::this_thread::yield(); break;
            case 3: { volatile unsigned sink = 0; for (unsigned k = (unsigned)((h >> 8) % 300); k; k--) sink = sink + k; break; }
            default: break;
          }
        });
      });
    for (auto& th : threads) th.join();
    {
      SigSnapshot sig_after; sig_after.take();
      if (int sgn = sig_before.first_difference(sig_after))
        return {"process-state: the disposition of signal " + std::to_string(sgn) + " changed during the threaded run of repetition " + std::to_string(rep) + " (operations on thread-owned objects must not touch process-wide state)", "C19|threads|process-state"};
    }

    for (size_t t = 0; t < n; t++) {
      const auto& g = got[t]; const auto& e = expect[t];
      for (size_t i = 0; i < g.size() || i < e.size(); i++) {
        const std::string gi = i < g.size() ? g[i] : "<missing>", ei = i < e.size() ? e[i] : "<missing>";
        const bool last = i >= p.th[t].size();
        const std::string where = "thread " + std::to_string(t) + " of " + std::to_string(n) + (last ? " at thread end" : " op " + std::to_string(i) + " (" + op_text(p.th[t][i]) + ")") + ", repetition " + std::to_string(rep);
        if (gi[0] == '!') {
          const std::string cls = gi.substr(1, gi.find(':') - 1);
          return {cls + ": " + where + ": " + clip(gi.substr(std::min(gi.size(), gi.find(':') + 2))), "C19|threads|" + cls};
        }
        if (gi != ei) {
          const bool tl = !last && is_tl(p.th[t][i].k);
          if (tl) return {"threadlocal-mismatch: " + where + " on " + slot_name(p.th[t][i].a % kSlots) + ": observed '" + clip(gi) + "', model says '" + clip(ei) + "'", "C19|ThreadLocal|threadlocal-mismatch"};
          return {"sequential-mismatch: " + where + ": threaded run observed '" + clip(gi) + "', sequential run '" + clip(ei) + "'", "C19|threads|sequential-mismatch"};
        }
      }
    }
    // (c) thread-exit destruction of ThreadLocal<AtomicTracked, ...> storage
    const long c1 = AtomicTracked::constructed.load() - c0, d1 = AtomicTracked::destroyed.load() - d0, b1 = AtomicTracked::bad.load() - b0;
    if (c1 != d1 || b1)
      return {"threadlocal-lifetime: after join of repetition " + std::to_string(rep) + ": AtomicTracked constructed=" + std::to_string(c1) + " destroyed=" + std::to_string(d1) + " dead-object uses=" + std::to_string(b1), "C19|ThreadLocal|threadlocal-lifetime"};
  }
  return {};
}

// Non-trivial rule and labels
struct ProgShape { bool contention = false, rpc_table = false; };
static ProgShape shape_of(const Program& p) {
  ProgShape s;
  int touch[kSlots] = {}; bool churn[kSlots] = {};
  int traffic = 0;
  for (auto& ops : p.th) {
    // churn: a Clear, or a second initialisation attempt with a DIFFERENT value (so "first wins" is observable)
    bool touched[kSlots] = {}, cleared[kSlots] = {}, reinit[kSlots] = {}, seen[kSlots] = {}; uint32_t first_n[kSlots] = {}; bool tr = false;
    for (auto& o : ops) {
      if (o.k == 'P' || o.k == 'T') tr = true;
      if (!is_tl(o.k)) continue;
      const int sl = o.a % kSlots; touched[sl] = true;
      if (o.k == 'X') cleared[sl] = true;
      if (o.k == 'K' || o.k == 'I' || o.k == 'S') { if (seen[sl] && o.n != first_n[sl]) reinit[sl] = true; if (!seen[sl]) { seen[sl] = true; first_n[sl] = o.n; } }
    }
    for (int sl = 0; sl < kSlots; sl++) { if (touched[sl]) touch[sl]++; if (touched[sl] && (cleared[sl] || reinit[sl])) churn[sl] = true; }
    if (tr) traffic++;
  }
  for (int sl = 0; sl < kSlots; sl++) if (touch[sl] >= 2 && churn[sl]) s.contention = true;
  s.rpc_table = traffic >= 2;
  return s;
}

static void account(const Program& p, Report& rep) {
  const ProgShape s = shape_of(p);
  rep.label("threads:" + std::to_string(p.th.size()));
  rep.label("programs");
  if (s.contention) rep.label("shared-slot-contention");
  if (s.rpc_table) rep.label("concurrent-rpc-table-traffic");
  if (s.contention || s.rpc_table) rep.nontriv(hash_str(prog_text(p))); else rep.label("trivial-program");
  std::map<char, long> kinds;
  for (auto& ops : p.th) for (auto& o : ops) kinds[o.k]++;
  for (auto& k : kinds) rep.label(std::string("op:") + k.first, k.second);
}

int main(int argc, char** argv) {
  Args a = Args::parse(argc, argv);
  Report rep; rep.property = "C19"; rep.tier = a.tier; rep.seed = a.seed; rep.out_path = a.out; rep.unit = a.unit.empty() ? "threads" : a.unit;
  install_report(&rep);
  const bool thorough = a.tier == "thorough";
  { struct sigaction sa; std::memset(&sa, 0, sizeof sa); sa.sa_handler = sigpipe_handler; sigaction(SIGPIPE, &sa, nullptr); }   // a recognisable application disposition

  if (!a.replay.empty()) {
    FILE* f = fopen(a.replay.c_str(), "r"); if (!f) return 2;
    std::string all, text; char chunk[4096]; size_t got;
    while ((got = fread(chunk, 1, sizeof chunk, f)) > 0) all.append(chunk, got);
    fclose(f);
    for (size_t b = 0; b < all.size();) {   // drop '#' header lines, keep the case line
      size_t e = all.find('\n', b); if (e == std::string::npos) e = all.size();
      if (all[b] != '#' && e > b) text += all.substr(b, e - b);
      b = e + 1;
    }
    Program p;
    if (!prog_parse(text, &p)) { fprintf(stderr, "bad replay file\n"); return 2; }
    const int reps = (int)a.geti("reps", 50);
    rep.current_case = case_text(p); rep.current_detail = "replay of a " + std::to_string(p.th.size()) + "-thread program";
    if (a.get("dump") == "1")   // human aid: the sequential/model log of every thread
      for (size_t t = 0; t < p.th.size(); t++) {
        std::vector<std::string> lg; exec_ops<ModelTL>((int)t, p.th[t], &lg, [](size_t) {});
        for (size_t i = 0; i < lg.size(); i++) printf("thread %zu op %zu %s -> %s\n", t, i, i < p.th[t].size() ? op_text(p.th[t][i]).c_str() : "(end)", lg[i].c_str());
      }
    Outcome o = run_program(p, reps, nullptr);
    if (!o.ok()) { printf("REPLAY-FAIL %s\n", o.message.c_str()); return 1; }
    printf("REPLAY-PASS\n");
    return 0;
  }

  const int reps = (int)a.geti("reps", thorough ? 50 : 5);
  long total = a.geti("cases", thorough ? 2000 : 150) * (a.scale > 0 ? a.scale : 1);
  // shards split the case count; every shard uses its own seed stream
  long mine = total / a.nshards + (a.shard < total % a.nshards ? 1 : 0);
  rep.label("repetitions-per-program", reps);
  if (mine > 0) {
    Outcome last;
    TapeRun r = rc_tapes(a.seed * 1000003ull + (uint64_t)a.shard, (int)mine, 100, 2.0, [&](const std::vector<uint64_t>& tape) {
      Tape tp(tape);
      Program p = decode_program(tp);
      account(p, rep);
      { const ProgShape sh = shape_of(p); const std::string ct = case_text(p); if ((sh.contention || sh.rpc_table) && ct.size() <= 560) rep.sample(ct); }
      rep.current_case = case_text(p);
      rep.current_detail = std::to_string(p.th.size()) + " threads, " + std::to_string(reps) + " perturbed repetitions";
      last = run_program(p, reps, &rep.evaluations);
      return last.message;
    });
    if (!r.ok) {
      if (r.message.rfind("HARNESS:", 0) == 0) rep.fail("harness: " + r.message, "prop=C19 threads=0 prog=", "C19|harness|rapidcheck");
      else {
        Tape tp(r.tape);
        Program p = decode_program(tp);
        // the key of the shrunk case: re-derive it from the message class
        const std::string cls = r.message.substr(0, r.message.find(':'));
        const bool tl = cls.rfind("threadlocal", 0) == 0;
        rep.fail(r.message, case_text(p), std::string("C19|") + (tl ? "ThreadLocal" : "threads") + "|" + cls);
      }
    }
  }
  rep.current_case.clear(); rep.current_detail.clear();
  rep.exhaustive = false;
  rep.write("done");
  for (auto& f : rep.failures) fprintf(stderr, "FAIL %s\n  case: %s\n", f.message.c_str(), f.case_text.c_str());
  return rep.ok() ? 0 : 1;
}
