// C13: Optional, Entry and Result keep a consistent state and element lifetime.
//
// PART A  model-based operation sequences over fourteen interacting slots (see kSlotName/kSlotType):
//         every op is applied to the real libnop object and to an explicit model
//         {dead | empty | error(code) | value(payload)}; after EVERY step all observers of all live
//         slots must agree with the model, the tracker's live set must have exactly one element per
//         model slot that holds a Tracked value, and the tracker must have recorded no error
//         (double destruction, construction over a live object, use of a dead object). Move-ASSIGNMENT
//         (a != b) must leave the source empty. Outcomes the property leaves open are accepted and
//         counted with rep.exclude(): the source of a move-CONSTRUCTION, self-move-assignment, and the
//         state after a scripted element-constructor throw (must be the old state or empty, error code
//         free, and consistent with the live set).
//         Drivers: bounded-exhaustive over five reduced alphabets (length <= 3 quick, <= 4 thorough),
//         then rapidcheck choice tapes (<= 60 ops; 5 000 cases quick, 200 000 thorough), --replay.
//         Non-trivial rule: the sequence executed an assignment over a non-empty target from a
//         non-empty source, or a move-assignment, or an element constructor threw.
// PART B  all 18 Optional comparison operators on all operand states, against the reference order
//         "empty < every value, otherwise the values decide" (int, Tracked<1>, mixed int/long).
//         Non-trivial: the two operands are in different states.
// PART C  Status<T>::GetErrorMessage() is defined (non-null, non-empty, not the fallback) for every
//         ErrorStatus enumerator and is the fallback outside them. No wording is demanded.
//
// Notes on what libnop admits (probed at compile time, see the report of the harness author):
//  * Optional<T>::operator= from Optional<U>/U is enabled on is_constructible<T,U> but its body also
//    ASSIGNS a U to a T, so Optional<Tracked<2>> (explicitly constructible, not assignable, from
//    Tracked<1>) only admits the converting CONSTRUCTOR. The converting assignments are therefore
//    exercised on Optional<Conv>, Conv being a Tracked<2> that is also assignable from Tracked<1>, and
//    on the trivially destructible pair Optional<int>/Optional<long>.
//  * Optional's value/in-place/converting constructors run the element constructor inside a
//    `noexcept` Storage constructor: a throwing element constructor there is std::terminate by
//    design of the language, so those ops are skipped (and counted) while a throw is armed.
#include <limits>   // nop/types/detail/logical_buffer.h (via nop/table.h) uses std::numeric_limits without including it
#include <cinttypes>
#include <cstdio>
#include <cstring>
#include <memory>
#include <string>
#include <tuple>
#include <type_traits>
#include <utility>
#include <vector>

#include <nop/status.h>
#include <nop/table.h>
#include <nop/types/optional.h>
#include <nop/types/result.h>

#include "kit/core.h"
#include "kit/gen.h"
#include "kit/rcdrv.h"
#include "kit/report.h"
#include "kit/tracked.h"

using namespace vk;

// ------------------------------------------------------------------------------------------------
// Element and slot types
// ------------------------------------------------------------------------------------------------
enum class OpErr { None = 0, Again = 1, Broken = 2, Denied = 7 };
static const OpErr kErrs[] = {OpErr::Again, OpErr::Broken, OpErr::Denied};

using T1 = vk::Tracked<1>;
using T2 = vk::Tracked<2>;
// Tracked<2> that can also be ASSIGNED from a Tracked<1> (lifetime tracking is the base's).
struct Conv : T2 {
  using T2::T2;
  Conv() = default;
  Conv(const Conv&) = default;
  Conv(Conv&&) = default;
  Conv& operator=(const Conv&) = default;
  Conv& operator=(Conv&&) = default;
  Conv& operator=(const T1& o) { check_alive("convert-assign target"); o.check_alive("convert-assign source"); payload = o.payload; return *this; }
};

using XO1 = nop::Optional<T1>;
using XOI = nop::Optional<int>;
using XOL = nop::Optional<long>;
using XEN = nop::Entry<T1, 7>;
using XO2 = nop::Optional<T2>;
using XOC = nop::Optional<Conv>;
using XR1 = nop::Result<OpErr, T1>;
using XRI = nop::Result<OpErr, int>;
using XRV = nop::Result<OpErr, void>;
using XST = nop::Status<int>;

enum SlotId { O1A, O1B, OI, OI2, OL, EN, O2, OC, R1A, R1B, RI, RV, RV2, ST, EN2, NSLOT };
static const char* const kSlotName[NSLOT] = {"O1a", "O1b", "Oi", "Oi2", "Ol", "En", "O2", "Oc", "R1a", "R1b", "Ri", "Rv", "Rv2", "St", "En2"};
static const char* const kSlotType[NSLOT] = {"Optional<Tracked<1>>", "Optional<Tracked<1>>", "Optional<int>", "Optional<int>", "Optional<long>", "Entry<Tracked<1>,7>",
                                             "Optional<Tracked<2>>", "Optional<Conv:Tracked<2>>", "Result<Err,Tracked<1>>", "Result<Err,Tracked<1>>",
                                             "Result<Err,int>", "Result<Err,void>", "Result<Err,void>", "Status<int>", "Entry<Tracked<1>,7>"};
using Slots = std::tuple<std::unique_ptr<XO1>, std::unique_ptr<XO1>, std::unique_ptr<XOI>, std::unique_ptr<XOI>, std::unique_ptr<XOL>, std::unique_ptr<XEN>, std::unique_ptr<XO2>,
                         std::unique_ptr<XOC>, std::unique_ptr<XR1>, std::unique_ptr<XR1>, std::unique_ptr<XRI>, std::unique_ptr<XRV>, std::unique_ptr<XRV>, std::unique_ptr<XST>, std::unique_ptr<XEN>>;
static_assert(std::tuple_size<Slots>::value == NSLOT, "slot table");

template <class E> struct IsTracked : std::integral_constant<bool, std::is_base_of<T1, E>::value || std::is_base_of<T2, E>::value> {};
template <> struct IsTracked<void> : std::false_type {};

enum Fam { FOPT, FRES, FVOID };
template <class T, class U_, bool AsgU> struct OptTr {
  using E = T; using Er = void; using U = U_;
  static constexpr Fam fam = FOPT; static constexpr bool tracked = IsTracked<T>::value; static constexpr bool asg_u = AsgU;
};
template <class En, class T> struct ResTr {
  using E = T; using Er = En; using U = void;
  static constexpr Fam fam = FRES; static constexpr bool tracked = IsTracked<T>::value; static constexpr bool asg_u = false;
};
template <class X> struct Tr;
template <> struct Tr<XO1> : OptTr<T1, int, false> {};    // U: converting constructor only (Tracked<1> is not assignable from int)
template <> struct Tr<XEN> : OptTr<T1, int, false> {};
template <> struct Tr<XOI> : OptTr<int, long, true> {};
template <> struct Tr<XOL> : OptTr<long, int, true> {};
template <> struct Tr<XO2> : OptTr<T2, T1, false> {};     // converting constructor only
template <> struct Tr<XOC> : OptTr<Conv, T1, true> {};
template <> struct Tr<XR1> : ResTr<OpErr, T1> {};
template <> struct Tr<XRI> : ResTr<OpErr, int> {};
template <> struct Tr<XST> : ResTr<nop::ErrorStatus, int> {};
template <> struct Tr<XRV> {
  using E = void; using Er = OpErr; using U = void;
  static constexpr Fam fam = FVOID; static constexpr bool tracked = false; static constexpr bool asg_u = false;
};

template <int N> static int64_t pay(const vk::Tracked<N>& t) { t.check_alive("value read"); return t.payload; }
static int64_t pay(int v) { return v; }
static int64_t pay(long v) { return v; }
template <class E> static E mk(int64_t n) { return E((std::int32_t)n); }
template <class Er> static Er err_of(uint64_t n);
template <> OpErr err_of<OpErr>(uint64_t n) { return kErrs[n % 3]; }
template <> nop::ErrorStatus err_of<nop::ErrorStatus>(uint64_t n) { return (nop::ErrorStatus)(1 + n % 18); }

// Which objects may be the source of a copy/move ASSIGNMENT into slot a (admitted by libnop and compiling).
static constexpr bool is_o1(int x) { return x == O1A || x == O1B || x == EN || x == EN2; }
static constexpr bool is_r1(int x) { return x == R1A || x == R1B; }
static constexpr bool is_oi(int x) { return x == OI || x == OI2; }
static constexpr bool is_rv(int x) { return x == RV || x == RV2; }
static constexpr bool asg_ok(int a, int b) {
  return a == b || (is_o1(a) && is_o1(b)) || (a == OC && is_o1(b)) || (is_oi(a) && is_oi(b)) || (is_oi(a) && b == OL) || (a == OL && is_oi(b)) ||
         (is_r1(a) && is_r1(b)) || (is_rv(a) && is_rv(b));
}
// ... and of a copy/move CONSTRUCTION of the type of slot a (Entry has no constructor from Optional; there
// is no constructor from Optional<U>).
static constexpr bool ctor_ok(int a, int b) { return a == b || ((a == EN || a == EN2) && (b == EN || b == EN2)) || ((a == O1A || a == O1B) && is_o1(b)) || (is_oi(a) && is_oi(b)) || (is_r1(a) && is_r1(b)) || (is_rv(a) && is_rv(b)); }

template <class F, size_t... I>
static void visit_impl(Slots& s, int i, F&& f, std::index_sequence<I...>) {
  int dummy[] = {(i == (int)I ? (f(std::get<I>(s), std::integral_constant<int, (int)I>{}), 0) : 0)...};
  (void)dummy;
}
template <class F> static void visit(Slots& s, int i, F&& f) { visit_impl(s, i, f, std::make_index_sequence<NSLOT>{}); }

// ------------------------------------------------------------------------------------------------
// Ops
// ------------------------------------------------------------------------------------------------
enum Kind : uint8_t {
  DFLT, CVAL, MVAL, INPL, CNVL, CNVR, CERR, CNON, COPY, MOVE,           // constructors (replace the slot's object)
  ASGC, ASGM, ASGV, ASGR, ASUL, ASUR, ASGE, ASGN,                        // assignments
  CLR, TKC, OBS, KILL, ARM,
  ASGS,                                                                   // x = x.get(): assignment from the object's own contained value
  NKIND
};
static const char* const kKindName[NKIND] = {"dflt", "cval", "mval", "inpl", "cnvl", "cnvr", "cerr", "cnon", "copy", "move",
                                             "asgc", "asgm", "asgv", "asgr", "asul", "asur", "asge", "asgn", "clr", "tkc", "obs", "kill", "arm", "asgs"};
static const int kWeight[NKIND] = {2, 3, 3, 2, 1, 1, 2, 1, 3, 3, 6, 6, 4, 4, 2, 2, 3, 1, 2, 2, 1, 1, 2, 2};
static bool is_binary(int k) { return k == COPY || k == MOVE || k == ASGC || k == ASGM; }
static bool has_payload(int k) { return k == CVAL || k == MVAL || k == INPL || k == CNVL || k == CNVR || k == ASGV || k == ASGR || k == ASUL || k == ASUR; }
static bool has_errcode(int k) { return k == CERR || k == ASGE; }

struct Op { uint8_t kind, a, b; uint64_t n; };

template <class X> static bool applies_t(int k) {
  using TR = Tr<X>;
  switch (k) {
    case CVAL: case MVAL: case ASGV: case ASGR: case TKC: case ASGS: return TR::fam != FVOID;
    case INPL: return TR::fam == FOPT;
    case CNVL: case CNVR: return !std::is_void<typename TR::U>::value;
    case CERR: case CNON: case ASGE: case ASGN: return TR::fam != FOPT;
    case ASUL: case ASUR: return TR::asg_u;
    default: return true;
  }
}
struct Tables {
  bool applies[NKIND][NSLOT];
  bool tracked[NSLOT];
  bool result_t[NSLOT];   // Result<E,T> with a Tracked T
  std::vector<uint8_t> slots_for[NKIND], asg_src[NSLOT], ctor_src[NSLOT];
  int total_weight = 0;
  Tables() {
    Slots dummy;
    for (int i = 0; i < NSLOT; i++)
      visit(dummy, i, [&](auto& p, auto) {
        using X = typename std::decay_t<decltype(p)>::element_type;
        tracked[i] = Tr<X>::tracked; result_t[i] = Tr<X>::tracked && Tr<X>::fam == FRES;
        for (int k = 0; k < NKIND; k++) applies[k][i] = applies_t<X>(k);
      });
    for (int k = 0; k < NKIND; k++) { total_weight += kWeight[k]; for (int i = 0; i < NSLOT; i++) if (applies[k][i]) slots_for[k].push_back((uint8_t)i); }
    for (int a = 0; a < NSLOT; a++) for (int b = 0; b < NSLOT; b++) { if (asg_ok(a, b)) asg_src[a].push_back((uint8_t)b); if (ctor_ok(a, b)) ctor_src[a].push_back((uint8_t)b); }
  }
};
static const Tables& tables() { static const Tables t; return t; }

static std::string ops_text(const std::vector<Op>& ops) {
  std::string s;
  for (size_t i = 0; i < ops.size(); i++) {
    const Op& o = ops[i];
    if (i) s += ' ';
    s += kKindName[o.kind]; s += '/'; s += kSlotName[o.a]; s += '/';
    s += is_binary(o.kind) ? kSlotName[o.b] : "-";
    s += '/'; s += std::to_string(o.n);
  }
  return s;
}
static int slot_by_name(const std::string& n) { for (int i = 0; i < NSLOT; i++) if (n == kSlotName[i]) return i; return -1; }
static bool ops_parse(const std::string& text, std::vector<Op>& out) {
  size_t p = 0;
  while (p < text.size()) {
    while (p < text.size() && (text[p] == ' ' || text[p] == '\r' || text[p] == '\n')) p++;
    if (p >= text.size()) break;
    size_t e = text.find(' ', p); if (e == std::string::npos) e = text.size();
    std::string tok = text.substr(p, e - p); p = e;
    while (!tok.empty() && (tok.back() == '\n' || tok.back() == '\r')) tok.pop_back();
    if (tok.empty()) continue;
    std::vector<std::string> f; size_t q = 0;
    for (;;) { size_t s = tok.find('/', q); if (s == std::string::npos) { f.push_back(tok.substr(q)); break; } f.push_back(tok.substr(q, s - q)); q = s + 1; }
    if (f.size() != 4) return false;
    Op o{}; int k = -1;
    for (int i = 0; i < NKIND; i++) if (f[0] == kKindName[i]) k = i;
    int a = slot_by_name(f[1]);
    if (k < 0 || a < 0) return false;
    o.kind = (uint8_t)k; o.a = (uint8_t)a; o.b = (uint8_t)a;
    if (is_binary(k)) { int b = slot_by_name(f[2]); if (b < 0) return false; o.b = (uint8_t)b; }
    o.n = strtoull(f[3].c_str(), nullptr, 10);
    out.push_back(o);
  }
  return true;
}

static std::vector<Op> decode_ops(Tape& t) {
  const Tables& T = tables();
  std::vector<Op> ops;
  size_t len = 1 + (size_t)t.below(60);
  while (ops.size() < len && !t.exhausted()) {
    Op o{};
    uint64_t w = t.below((uint64_t)T.total_weight); int k = 0;
    while (w >= (uint64_t)kWeight[k]) { w -= (uint64_t)kWeight[k]; k++; }
    o.kind = (uint8_t)k;
    if (k != ARM) {
      const auto& sl = T.slots_for[k];
      o.a = sl[t.below(sl.size())]; o.b = o.a;
      if (is_binary(k)) { const auto& src = (k == COPY || k == MOVE) ? T.ctor_src[o.a] : T.asg_src[o.a]; o.b = src[t.below(src.size())]; }
      if (has_payload(k)) o.n = t.below(9);
      if (has_errcode(k)) o.n = t.below(18);
    }
    ops.push_back(o);
  }
  return ops;
}

// ------------------------------------------------------------------------------------------------
// Model and interpreter
// ------------------------------------------------------------------------------------------------
struct M {
  bool alive = false; int st = 0 /*0 empty, 1 error, 2 value*/; int err = 0; int64_t val = 0;
  // Set on a Result<E,T> that was the target of a value construction that threw: Result placement-news the value
  // over the bytes of error_, so a constructor that writes a member and then throws leaves a hidden error_ that
  // is not None in the Empty state (or a clobbered code in the Error state). Exceptions are outside C13, so what
  // a later copy/move FROM such an object yields is accepted as "empty or any error" until the object is reset.
  bool taint = false;
};
static std::string mstr(const M& m) {
  if (!m.alive) return "dead";
  if (m.st == 0) return "empty";
  if (m.st == 1) return "error(" + std::to_string(m.err) + ")";
  return "value(" + std::to_string(m.val) + ")";
}

struct RunInfo {
  bool nontriv = false, self_asg = false, move_asg = false, conv_asg = false, self_value = false, take_clear = false, threw = false, err2val = false, val2err = false;
  long steps = 0;
  std::string obj;   // type of the slot the failure is about (for the failure key)
};

struct Interp {
  Slots s;
  M m[NSLOT];
  Report* rep = nullptr;
  RunInfo info;
  std::string failure;

  void bad(int slot, const std::string& msg) { if (failure.empty()) { failure = msg; info.obj = slot >= 0 ? kSlotType[slot] : "tracker"; } }
  void exclude(const char* why) { if (rep) rep->exclude(why); }

  template <class X> static M observe(const X& x) {
    using TR = Tr<X>;
    M o; o.alive = true;
    if constexpr (TR::fam == FOPT) { o.st = x.empty() ? 0 : 2; if (o.st == 2) o.val = pay(x.get()); }
    else if constexpr (TR::fam == FRES) {
      if (x.has_value()) { o.st = 2; o.val = pay(x.get()); } else if (x.has_error()) { o.st = 1; o.err = (int)x.error(); }
    } else { if (x.has_error()) { o.st = 1; o.err = (int)x.error(); } }
    return o;
  }
  M observe_slot(int i) {
    M o;
    visit(s, i, [&](auto& p, auto) { if (p) o = observe(*p); });
    return o;
  }

  // Every observer of slot i against the model.
  template <class X> void check_slot(int i, const X& x) {
    using TR = Tr<X>;
    const M& mm = m[i];
    auto mis = [&](const char* cls, const std::string& what) { bad(i, std::string(cls) + ": slot " + kSlotName[i] + " (" + kSlotType[i] + ") " + what + ", model is " + mstr(mm)); };
    if constexpr (TR::fam == FOPT) {
      const bool e = x.empty(), b = static_cast<bool>(x);
      if (e != (mm.st == 0)) return mis("state-mismatch", std::string("empty()=") + (e ? "true" : "false"));
      if (b != (mm.st == 2)) return mis("state-mismatch", std::string("operator bool=") + (b ? "true" : "false"));
      if (mm.st == 2) { int64_t v = pay(x.get()); if (v != mm.val) return mis("wrong-value", "get()=" + std::to_string(v)); }
    } else if constexpr (TR::fam == FRES) {
      const bool hv = x.has_value(), he = x.has_error(), b = static_cast<bool>(x);
      const int er = (int)x.error();
      if (hv != (mm.st == 2)) return mis("state-mismatch", std::string("has_value()=") + (hv ? "true" : "false"));
      if (he != (mm.st == 1)) return mis("state-mismatch", std::string("has_error()=") + (he ? "true" : "false"));
      if (b != (mm.st == 2)) return mis("state-mismatch", std::string("operator bool=") + (b ? "true" : "false"));
      if (er != (mm.st == 1 ? mm.err : 0)) return mis("wrong-error", "error()=" + std::to_string(er));
      if (mm.st == 2) { int64_t v = pay(x.get()); if (v != mm.val) return mis("wrong-value", "get()=" + std::to_string(v)); }
    } else {
      const bool he = x.has_error(), b = static_cast<bool>(x);
      const int er = (int)x.error();
      if (he != (mm.st == 1)) return mis("state-mismatch", std::string("has_error()=") + (he ? "true" : "false"));
      if (b != (mm.st != 1)) return mis("state-mismatch", std::string("operator bool=") + (b ? "true" : "false"));
      if (er != (mm.st == 1 ? mm.err : 0)) return mis("wrong-error", "error()=" + std::to_string(er));
    }
  }

  void invariant() {
    const Tables& T = tables();
    size_t want_live = 0;
    for (int i = 0; i < NSLOT && failure.empty(); i++) {
      visit(s, i, [&](auto& p, auto) {
        if ((bool)p != m[i].alive) { bad(i, std::string("harness-error: slot ") + kSlotName[i] + " liveness out of sync"); return; }
        if (p) check_slot(i, *p);
      });
      if (m[i].alive && m[i].st == 2 && T.tracked[i]) want_live++;
    }
    if (!failure.empty()) return;
    auto& t = tracker();
    if (t.errors) return bad(-1, "tracker-error: " + t.first_error);
    if (t.live.size() != want_live)
      return bad(-1, "lifetime: " + std::to_string(t.live.size()) + " Tracked objects alive, the model holds " + std::to_string(want_live) +
                         (t.live.size() > want_live ? " (an element was not destroyed)" : " (an element was destroyed or never constructed)"));
  }

  // Accept an outcome the property leaves open: the slot must be in its old state or empty.
  void resync(int i, const M& old, const char* why, bool payload_open) {
    if (!m[i].alive) return;
    M ob = observe_slot(i);
    if (ob.st != old.st && ob.st != 0) return bad(i, std::string("state-mismatch: slot ") + kSlotName[i] + " (" + kSlotType[i] + ") is " + mstr(ob) + " after " + why + ", was " + mstr(old) + " (neither the old state nor empty)");
    if (ob.st == 2 && !payload_open && ob.val != old.val) return bad(i, std::string("wrong-value: slot ") + kSlotName[i] + " (" + kSlotType[i] + ") is " + mstr(ob) + " after " + why + ", was " + mstr(old));
    const bool t = m[i].taint; m[i] = ob; m[i].taint = t;
  }

  template <class X> static bool armed_noexcept_path() { return Tr<X>::fam == FOPT && tracker().throw_countdown > 0; }

  void note_assign(int, const M& oldA, bool src_nonempty) {
    if (oldA.st != 0 && src_nonempty) info.nontriv = true;
  }

  // Ops with one slot. Real action first, model update only once it has completed.
  template <int I, class X> void exec1(std::unique_ptr<X>& p, const Op& op) {
    using TR = Tr<X>; using E = typename TR::E; using Er = typename TR::Er; using U = typename TR::U;
    M& mm = m[I];
    const M old = mm;
    const int64_t n = (int64_t)op.n;
    auto replace = [&](X* fresh, M nm) { std::unique_ptr<X> nu(fresh); p = std::move(nu); nm.alive = true; mm = nm; };
    switch (op.kind) {
      case DFLT: replace(new X(), M{}); break;
      case CVAL: case MVAL:
        if constexpr (TR::fam != FVOID) {
          if (TR::tracked && armed_noexcept_path<X>()) { exclude("armed throw skipped: Optional value constructor runs T's constructor inside a noexcept Storage constructor"); break; }
          E v = mk<E>(n);
          X* fresh = op.kind == CVAL ? new X(static_cast<const E&>(v)) : new X(std::move(v));
          M nm; nm.st = 2; nm.val = n; replace(fresh, nm);
        }
        break;
      case INPL:
        if constexpr (TR::fam == FOPT) { M nm; nm.st = 2; nm.val = n; replace(new X(nop::InPlace{}, (std::int32_t)n), nm); }
        break;
      case CNVL: case CNVR:
        if constexpr (!std::is_void<U>::value) {
          if (IsTracked<U>::value && armed_noexcept_path<X>()) { exclude("armed throw skipped: Optional converting constructor runs T's constructor inside a noexcept Storage constructor"); break; }
          U u = mk<U>(n);
          X* fresh = op.kind == CNVL ? new X(u) : new X(std::move(u));
          M nm; nm.st = 2; nm.val = n; replace(fresh, nm);
        }
        break;
      case CERR:
        if constexpr (TR::fam != FOPT) { Er e = err_of<Er>(op.n); M nm; nm.st = 1; nm.err = (int)e; replace(new X(e), nm); }
        break;
      case CNON:
        if constexpr (TR::fam != FOPT) replace(new X(Er::None), M{});
        break;
      case ASGV: case ASGR:
        if constexpr (TR::fam != FVOID) {
          if (!p) break;
          E v = mk<E>(n);
          if (op.kind == ASGV) *p = static_cast<const E&>(v); else *p = std::move(v);
          mm.st = 2; mm.err = 0; mm.val = n; mm.taint = false;
          note_assign(I, old, true);
          if (old.st == 1) info.err2val = true;
        }
        break;
      case ASGS:
        if constexpr (TR::fam != FVOID) {
          // the aliasing assignment x = x.get(): the state and the value stay, nothing is constructed from or
          // assigned from a destroyed element (the tracker sees a use of a dead object otherwise)
          if (!p || mm.st != 2) break;
          if (TR::tracked && tracker().throw_countdown > 0) { exclude("armed throw skipped: aliasing self-value assignment"); break; }
          if (op.n % 2 == 0) *p = static_cast<const E&>(p->get()); else { const E& alias = p->get(); *p = alias; }
          info.self_value = true;
        }
        break;
      case ASUL: case ASUR:
        if constexpr (TR::asg_u) {
          if (!p) break;
          U u = mk<U>(n);
          if (op.kind == ASUL) *p = static_cast<const U&>(u); else *p = std::move(u);
          mm.st = 2; mm.err = 0; mm.val = n;
          note_assign(I, old, true);
          info.conv_asg = true;
        }
        break;
      case ASGE:
        if constexpr (TR::fam != FOPT) {
          if (!p) break;
          Er e = err_of<Er>(op.n);
          *p = e;
          mm.st = 1; mm.err = (int)e; mm.val = 0; mm.taint = false;
          note_assign(I, old, true);
          if (old.st == 2) info.val2err = true;
        }
        break;
      case ASGN:
        if constexpr (TR::fam != FOPT) { if (!p) break; *p = Er::None; mm.st = 0; mm.err = 0; mm.val = 0; mm.taint = false; }
        break;
      case CLR:
        if (!p) break;
        p->clear(); mm.st = 0; mm.err = 0; mm.val = 0; mm.taint = false;
        break;
      case TKC:
        if constexpr (TR::fam != FVOID) {
          if (!p || mm.st != 2) break;
          {
            E tmp(p->take());           // may throw when armed: nothing has changed yet
            p->clear();
            mm.st = 0; mm.val = 0;
            if (pay(tmp) != old.val) bad(I, std::string("wrong-value: slot ") + kSlotName[I] + " (" + kSlotType[I] + ") take() gave " + std::to_string(pay(tmp)) + ", model was " + mstr(old));
          }
          info.take_clear = true;
        }
        break;
      case OBS:
        if (!p) break;
        if constexpr (TR::fam != FVOID) {
          if (mm.st == 2) { X& x = *p; int64_t v = pay(x.get()); if (v != mm.val) bad(I, std::string("wrong-value: slot ") + kSlotName[I] + " (" + kSlotType[I] + ") non-const get()=" + std::to_string(v) + ", model is " + mstr(mm)); }
        }
        break;
      case KILL: p.reset(); mm = M{}; break;
      default: break;
    }
  }

  // Ops with a source object.
  template <int IA, int IB, class XA, class XB> void exec2(std::unique_ptr<XA>& pa, std::unique_ptr<XB>& pb, const Op& op) {
    M& ma = m[IA]; M& mb = m[IB];
    const M oldA = ma, oldB = mb;
    if (!pb) return;   // a dead source: not applicable
    const bool tainted_src = oldB.taint && oldB.st != 2;
    auto open_from_tainted = [&]() {
      M ob = observe(*pa);
      if (ob.st == 2) bad(IA, std::string("state-mismatch: slot ") + kSlotName[IA] + " (" + kSlotType[IA] + ") is " + mstr(ob) + " after taking the state of " + kSlotName[IB] + " which holds no value");
      ma = ob;
      exclude("copy/move from a Result whose value construction threw earlier: empty-or-any-error accepted");
    };
    if (op.kind == COPY || op.kind == MOVE) {
      if constexpr (ctor_ok(IA, IB)) {
        if (op.kind == COPY) {
          std::unique_ptr<XA> nu(new XA(static_cast<const XB&>(*pb)));
          pa = std::move(nu);   // IA == IB: the source is the old object of the same slot, destroyed here
          ma = oldB; ma.taint = false;
        } else {
          std::unique_ptr<XA> nu(new XA(std::move(*pb)));
          if (IA != IB) {
            // The property speaks about move-ASSIGNMENT only; accept "unchanged kind" or "empty", any payload.
            resync(IB, oldB, "being the source of a move construction", true);
            mb.taint = false;
            exclude("move-construction source: old-kind-or-empty accepted");
          }
          pa = std::move(nu);
          ma = oldB; ma.taint = false;
        }
        if (tainted_src) open_from_tainted();
      }
      return;
    }
    if (!pa) return;
    if constexpr (asg_ok(IA, IB)) {
      constexpr bool converting = !std::is_same<typename Tr<XA>::E, typename Tr<XB>::E>::value;
      if (op.kind == ASGC) {
        const XB& src = *pb;
        *pa = src;
        if (IA != IB) { ma.st = oldB.st; ma.err = oldB.err; ma.val = oldB.val; ma.taint = false; if (tainted_src) open_from_tainted(); } else info.self_asg = true;
        note_assign(IA, oldA, oldB.st != 0);
      } else {
        XB& src = *pb;
        *pa = std::move(src);
        info.move_asg = true; info.nontriv = true;
        if (IA != IB) {
          ma.st = oldB.st; ma.err = oldB.err; ma.val = oldB.val;
          M ob = observe(*pb);
          if (ob.st != 0) bad(IB, std::string("move-source-not-empty: slot ") + kSlotName[IB] + " (" + kSlotType[IB] + ") is " + mstr(ob) + " after being move-assigned to " + kSlotName[IA] + " (" + kSlotType[IA] + "), was " + mstr(oldB));
          mb.st = 0; mb.err = 0; mb.val = 0; mb.taint = false; ma.taint = false;
          if (tainted_src) open_from_tainted();
        } else {
          info.self_asg = true;
          resync(IA, oldA, "self-move-assignment", false);
          exclude("self-move-assignment: unchanged-or-empty accepted");
        }
      }
      if (converting) info.conv_asg = true;
      if (oldA.st == 1 && ma.st == 2) info.err2val = true;
      if (oldA.st == 2 && ma.st == 1) info.val2err = true;
    }
  }

  void step(const Op& op) {
    const int a = op.a, b = op.b;
    const M oldA = m[a], oldB = m[b];
    bool threw = false;
    try {
      if (op.kind == ARM) tracker().throw_countdown = 1;
      else if (is_binary(op.kind))
        visit(s, a, [&](auto& pa, auto ia) { visit(s, b, [&](auto& pb, auto ib) { this->template exec2<decltype(ia)::value, decltype(ib)::value>(pa, pb, op); }); });
      else
        visit(s, a, [&](auto& pa, auto ia) { this->template exec1<decltype(ia)::value>(pa, op); });
    } catch (const TrackedThrow&) { threw = true; }
    if (threw) {
      info.threw = true; info.nontriv = true;
      // Exceptions are outside the property: accept the old state or empty (error code free), but the
      // objects must stay self-consistent and consistent with the live set (checked below).
      resync(a, oldA, "an element constructor threw", false);
      if (b != a) resync(b, oldB, "an element constructor threw", false);
      for (int i : {a, b}) if (tables().result_t[i] && m[i].alive && m[i].st != 2) m[i].taint = true;
      exclude("element constructor threw: old-or-empty state accepted");
    }
    if (failure.empty()) invariant();
  }

  std::string run(const std::vector<Op>& ops) {
    tracker().reset();
    for (int i = 0; i < NSLOT; i++) visit(s, i, [&](auto& p, auto) { using X = typename std::decay_t<decltype(p)>::element_type; p.reset(new X()); m[i] = M{}; m[i].alive = true; });
    invariant();
    if (!failure.empty()) return failure + " at step 0 (default construction)";
    for (size_t k = 0; k < ops.size(); k++) {
      if (rep) rep->current_detail = "step " + std::to_string(k + 1) + " " + kKindName[ops[k].kind] + "/" + kSlotName[ops[k].a];
      info.steps++;
      step(ops[k]);
      if (!failure.empty()) { failure += " at step " + std::to_string(k + 1) + " [" + ops_text({ops[k]}) + "]"; break; }
    }
    tracker().throw_countdown = -1;
    for (int i = 0; i < NSLOT; i++) visit(s, i, [&](auto& p, auto) { p.reset(); m[i] = M{}; });
    if (failure.empty()) {
      auto& t = tracker();
      if (t.errors) bad(-1, "tracker-error: " + t.first_error + " while destroying all slots at the end");
      else if (!t.live.empty()) bad(-1, "lifetime: " + std::to_string(t.live.size()) + " Tracked objects still alive after all slots were destroyed");
    }
    return failure;
  }
};

// Resets all global state, runs, returns "" or "<class>: <detail> at step k".
static std::string run_ops(const std::vector<Op>& ops, Report& rep, RunInfo* out = nullptr) {
  std::string msg;
  {
    Interp in; in.rep = &rep;
    msg = in.run(ops);
    if (out) *out = in.info;
  }
  tracker().reset();
  return msg;
}

static std::string fail_class(const std::string& msg) { size_t p = msg.find(':'); return p == std::string::npos ? "failure" : msg.substr(0, p); }

// ------------------------------------------------------------------------------------------------
// PART B: comparison operators
// ------------------------------------------------------------------------------------------------
struct Opd { bool has; int v; };
static const int kCmpValues[5] = {-3, 0, 1, 2, 7};
static const char* const kCmpOp[6] = {"==", "!=", "<", ">", "<=", ">="};
static const char* const kShape[3] = {"OO", "OV", "VO"};

template <class A, class B> static bool apply_cmp(int op, const A& a, const B& b) {
  switch (op) {
    case 0: return a == b;
    case 1: return a != b;
    case 2: return a < b;
    case 3: return a > b;
    case 4: return a <= b;
    default: return a >= b;
  }
}
static bool ref_cmp(int op, Opd l, Opd r) {
  // total order on (present, value): empty < every value, otherwise the values decide
  const int c = l.has != r.has ? (l.has ? 1 : -1) : (!l.has ? 0 : (l.v < r.v ? -1 : (l.v > r.v ? 1 : 0)));
  switch (op) { case 0: return c == 0; case 1: return c != 0; case 2: return c < 0; case 3: return c > 0; case 4: return c <= 0; default: return c >= 0; }
}
template <class TA, class TB> static int cmp_eval(int shape, int op, Opd l, Opd r) {   // 0/1 result, -1 not applicable
  if ((shape == 1 && !r.has) || (shape == 2 && !l.has)) return -1;
  nop::Optional<TA> oa; nop::Optional<TB> ob;
  if (l.has) oa = mk<TA>(l.v);
  if (r.has) ob = mk<TB>(r.v);
  const nop::Optional<TA>& ca = oa; const nop::Optional<TB>& cb = ob;
  if (shape == 0) return apply_cmp(op, ca, cb) ? 1 : 0;
  if (shape == 1) { const TB vb = mk<TB>(r.v); return apply_cmp(op, ca, vb) ? 1 : 0; }
  const TA va = mk<TA>(l.v);
  return apply_cmp(op, va, cb) ? 1 : 0;
}
// Mixed element types whose values are NOT representable in each other: left operand int, right
// operand double with value v + 0.5 ("the values decide": 1 < 1.5 < 2).
static int cmp_eval_half(int shape, int op, Opd l, Opd r) {
  if ((shape == 1 && !r.has) || (shape == 2 && !l.has)) return -1;
  nop::Optional<int> oa; nop::Optional<double> ob;
  if (l.has) oa = l.v;
  if (r.has) ob = r.v + 0.5;
  const nop::Optional<int>& ca = oa; const nop::Optional<double>& cb = ob;
  if (shape == 0) return apply_cmp(op, ca, cb) ? 1 : 0;
  if (shape == 1) { const double vb = r.v + 0.5; return apply_cmp(op, ca, vb) ? 1 : 0; }
  const int va = l.v;
  return apply_cmp(op, va, cb) ? 1 : 0;
}
// Operands whose static type is an Optional SUBCLASS (table entries): Entry<int,1> against Entry<int,2>
// (mixed = false) or Optional<int> against Entry<int,2> (mixed = true). Same reference order.
static int cmp_eval_entry(bool mixed, int shape, int op, Opd l, Opd r) {
  if ((shape == 1 && !r.has) || (shape == 2 && !l.has)) return -1;
  nop::Entry<int, 1> ea; nop::Optional<int> oa; nop::Entry<int, 2> eb;
  if (l.has) { ea = l.v; oa = l.v; }
  if (r.has) eb = r.v;
  const nop::Entry<int, 1>& ca = ea; const nop::Optional<int>& co = oa; const nop::Entry<int, 2>& cb = eb;
  if (shape == 0) return (mixed ? apply_cmp(op, co, cb) : apply_cmp(op, ca, cb)) ? 1 : 0;
  if (shape == 1) { const int vb = r.v; return apply_cmp(op, ca, vb) ? 1 : 0; }
  const int va = l.v;
  return apply_cmp(op, va, cb) ? 1 : 0;
}
// Optional<Optional<int>> against itself. Operand states: empty; holding an EMPTY inner optional (encoded as the
// value kInnerEmpty); holding an inner value. Order: empty < holds(empty inner) < holds(inner value), values decide.
static const int kInnerEmpty = -1000000;
static int cmp_eval_nested(int shape, int op, Opd l, Opd r) {
  if (shape != 0) return -1;
  using OO = nop::Optional<nop::Optional<int>>;
  // in-place construction: assigning an Optional<int> to an Optional<Optional<int>> is the CONVERTING assignment
  // (an empty source empties the outer optional)
  auto make = [](Opd o) { return !o.has ? OO{} : o.v == kInnerEmpty ? OO{nop::InPlace{}} : OO{nop::InPlace{}, o.v}; };
  OO a = make(l), b = make(r);
  if (a.empty() != !l.has || b.empty() != !r.has) return -1;   // harness self-check
  const OO& ca = a; const OO& cb = b;
  return apply_cmp(op, ca, cb) ? 1 : 0;
}
static bool ref_cmp_half(int op, Opd l, Opd r) {
  const double lv = l.v, rv = r.v + 0.5;
  const int c = l.has != r.has ? (l.has ? 1 : -1) : (!l.has ? 0 : (lv < rv ? -1 : (lv > rv ? 1 : 0)));
  switch (op) { case 0: return c == 0; case 1: return c != 0; case 2: return c < 0; case 3: return c > 0; case 4: return c <= 0; default: return c >= 0; }
}
static std::string opd_text(Opd o) { return o.has ? std::to_string(o.v) : "e"; }
static std::string cmp_case_text(const char* type, int shape, int op, Opd l, Opd r) {
  return std::string("prop=C13 cmp=") + type + " " + kShape[shape] + " " + kCmpOp[op] + " " + opd_text(l) + " " + opd_text(r);
}
// "" = pass; "skip" = operand combination does not exist; otherwise failure message
static std::string cmp_check(const std::string& type, int shape, int op, Opd l, Opd r) {
  int got;
  tracker().reset();
  if (type == "int") got = cmp_eval<int, int>(shape, op, l, r);
  else if (type == "tracked") got = cmp_eval<T1, T1>(shape, op, l, r);
  else if (type == "int-long") got = cmp_eval<int, long>(shape, op, l, r);
  else if (type == "int-half") got = cmp_eval_half(shape, op, l, r);
  else if (type == "nested") got = cmp_eval_nested(shape, op, l, r);
  else if (type == "entry") got = cmp_eval_entry(false, shape, op, l, r);
  else if (type == "opt-entry") got = cmp_eval_entry(true, shape, op, l, r);
  else return "skip";
  if (got < 0) return "skip";
  std::string m;
  const bool want = type == "int-half" ? ref_cmp_half(op, l, r) : ref_cmp(op, l, r);
  if ((got != 0) != want)
    m = std::string("wrong-comparison: ") + (shape == 2 ? "value " : "Optional ") + opd_text(l) + " " + kCmpOp[op] + (shape == 1 ? " value " : " Optional ") + opd_text(r) +
        " gave " + (got ? "true" : "false") + " for element type " + type + ", the order 'empty < every value' gives " + (want ? "true" : "false");
  else if (tracker().errors) m = "tracker-error: " + tracker().first_error + " during a comparison";
  else if (!tracker().live.empty()) m = "lifetime: Tracked objects still alive after a comparison";
  tracker().reset();
  return m;
}
static bool opd_parse(const char* s, Opd& o) { if (!strcmp(s, "e")) { o = {false, 0}; return true; } char* e; long v = strtol(s, &e, 10); if (*e) return false; o = {true, (int)v}; return true; }

// ------------------------------------------------------------------------------------------------
// PART C: Status<T>::GetErrorMessage
// ------------------------------------------------------------------------------------------------
static std::string msg_check(long code) {
  const std::string fallback = nop::Status<int>{(nop::ErrorStatus)1000}.GetErrorMessage() ? nop::Status<int>{(nop::ErrorStatus)1000}.GetErrorMessage() : "";
  const char* mi = nop::Status<int>{(nop::ErrorStatus)code}.GetErrorMessage();
  const char* mv = nop::Status<void>{(nop::ErrorStatus)code}.GetErrorMessage();
  for (const char* mm : {mi, mv}) {
    const std::string which = mm == mi ? "Status<int>" : "Status<void>";
    if (!mm) return "missing-message: " + which + "::GetErrorMessage() is null for ErrorStatus " + std::to_string(code);
    if (code >= 0 && code <= (long)nop::ErrorStatus::DebugError) {
      if (!*mm) return "missing-message: " + which + "::GetErrorMessage() is empty for ErrorStatus " + std::to_string(code) + " (" + err_name((int)code) + ")";
      if (fallback == mm) return "missing-message: " + which + "::GetErrorMessage() is the unknown-error fallback \"" + fallback + "\" for ErrorStatus " + std::to_string(code) + " (" + err_name((int)code) + ")";
    }
    // nothing is promised for values that are not enumerators (only that the call returns)
  }
  return "";
}

// ------------------------------------------------------------------------------------------------
// PART D: Result whose value type is bool (constructible from the Result itself through its explicit
// operator bool): copy / move assignment between two Results must copy the STATE, not convert the source
// ------------------------------------------------------------------------------------------------
static std::string boolres_check(int which) {
  using RB = nop::Result<OpErr, bool>;
  auto show = [](const RB& r) { return r.has_value() ? std::string("value(") + (r.get() ? "true" : "false") + ")" : r.has_error() ? "error(" + std::to_string((int)r.error()) + ")" : std::string("empty"); };
  RB src_states[4] = {RB{}, RB{OpErr::Again}, RB{true}, RB{false}};
  const int si = which % 4, di = (which / 4) % 4, form = which / 16;   // form 0: copy-assign from non-const lvalue, 1: from const, 2: move-assign, 3: copy-construct
  RB src = src_states[si];
  RB dst = src_states[di];
  const std::string want = show(src_states[si]);
  if (form == 0) dst = src;
  else if (form == 1) { const RB& c = src; dst = c; }
  else if (form == 2) dst = std::move(src);
  else { RB made(src); dst = made; }
  if (show(dst) != want) return "state-mismatch: Result<Err,bool> " + std::string(form == 0 ? "copy-assigned from a non-const lvalue" : form == 1 ? "copy-assigned from a const lvalue" : form == 2 ? "move-assigned" : "copy-constructed then assigned") + " from " + want + " over " + show(src_states[di]) + " is " + show(dst);
  return "";
}

// ------------------------------------------------------------------------------------------------
// PART E: an Optional / Entry compared WITH ITSELF (same object on both sides). "The values decide":
// the result must be what the held values give, also when the value's == is not reflexive (NaN),
// and must agree with the Optional-value form on the same object.
// which = kind*18 + valueIndex*6 + op; kind 0 Optional<double>, 1 Entry<double,0>; value 0 empty, 1 1.5, 2 NaN
// ------------------------------------------------------------------------------------------------
template <class O> static std::string selfcmp_one(const char* type, int vi, int op) {
  const double vals[3] = {0, 1.5, std::numeric_limits<double>::quiet_NaN()};
  O o; if (vi) o = vals[vi];
  const O& c = o;
  const bool got = apply_cmp(op, c, c);
  bool want;
  if (!vi) want = (op == 0 || op == 4 || op == 5);
  else {
    // only == and < of the value type are consulted (the library derives != > <= >= from them, as the
    // Optional-Optional operators document); for a partially ordered value (NaN) this differs from double's own <=
    const bool eq = vals[vi] == vals[vi], lt = vals[vi] < vals[vi];
    want = op == 0 ? eq : op == 1 ? !eq : (op == 2 || op == 3) ? lt : !lt;
  }
  const std::string txt = std::string(type) + (vi == 0 ? " (empty)" : vi == 1 ? " holding 1.5" : " holding NaN");
  if (got != want) return "wrong-comparison: " + txt + " compared with itself: x " + kCmpOp[op] + " x is " + (got ? "true" : "false") + ", the values give " + (want ? "true" : "false");
  if (vi) { const bool ov = apply_cmp(op, c, c.get()); if (ov != got) return "wrong-comparison: " + txt + ": x " + kCmpOp[op] + " x is " + (got ? "true" : "false") + " but x " + kCmpOp[op] + " x.get() is " + (ov ? "true" : "false"); }
  return "";
}
static std::string selfcmp_check(int which) {
  const int kind = which / 18, vi = (which / 6) % 3, op = which % 6;
  return kind == 0 ? selfcmp_one<nop::Optional<double>>("Optional<double>", vi, op) : selfcmp_one<nop::Entry<double, 0>>("Entry<double,0>", vi, op);
}

// ------------------------------------------------------------------------------------------------
// Reduced alphabets for the bounded-exhaustive driver
// ------------------------------------------------------------------------------------------------
static Op mkop(int k, int a, int b = -1, uint64_t n = 0) { Op o{}; o.kind = (uint8_t)k; o.a = (uint8_t)a; o.b = (uint8_t)(b < 0 ? a : b); o.n = n; return o; }
struct Scene { const char* name; std::vector<Op> alpha; };
static std::vector<Scene> scenes() {
  return {
      {"optional", {mkop(ASGV, O1A, -1, 1), mkop(ASGR, O1B, -1, 2), mkop(ASGC, O1A, O1B), mkop(ASGC, O1B, O1A), mkop(ASGM, O1A, O1B), mkop(ASGM, O1B, O1A),
                    mkop(ASGC, O1A, O1A), mkop(ASGM, O1A, O1A), mkop(CLR, O1A), mkop(TKC, O1B), mkop(COPY, O1A, O1B), mkop(MOVE, O1B, O1A),
                    mkop(ASGC, OC, O1A), mkop(ASGM, OC, O1B), mkop(ARM, 0), mkop(KILL, O1B), mkop(DFLT, O1B), mkop(ASGS, O1A)}},
      {"result", {mkop(ASGV, R1A, -1, 1), mkop(ASGR, R1B, -1, 2), mkop(ASGE, R1A, -1, 0), mkop(ASGE, R1B, -1, 1), mkop(ASGN, R1A), mkop(ASGC, R1A, R1B),
                  mkop(ASGC, R1B, R1A), mkop(ASGM, R1A, R1B), mkop(ASGM, R1B, R1A), mkop(ASGC, R1A, R1A), mkop(ASGM, R1B, R1B), mkop(CLR, R1A), mkop(TKC, R1B),
                  mkop(COPY, R1A, R1B), mkop(MOVE, R1B, R1A), mkop(ARM, 0), mkop(KILL, R1A), mkop(CERR, R1A, -1, 2), mkop(ASGS, R1A)}},
      {"entry", {mkop(ASGV, EN, -1, 1), mkop(ASGM, EN, O1A), mkop(ASGM, O1A, EN), mkop(ASGC, EN, O1A), mkop(ASGC, O1A, EN), mkop(ASGR, O1A, -1, 2),
                 mkop(COPY, EN, EN), mkop(MOVE, EN, EN), mkop(CLR, EN), mkop(TKC, EN), mkop(ASGC, EN, EN), mkop(ASGM, EN, EN), mkop(ARM, 0),
                 mkop(ASGC, OC, EN), mkop(ASGM, OC, EN), mkop(ASUR, OC, -1, 3), mkop(CNVR, O2, -1, 4), mkop(ASGS, EN),
                 mkop(ASGV, EN2, -1, 5), mkop(ASGM, EN, EN2), mkop(ASGM, EN2, EN), mkop(ASGC, EN2, EN), mkop(MOVE, EN2, EN)}},
      {"trivial", {mkop(ASGV, OI, -1, 1), mkop(ASGR, OI2, -1, 2), mkop(ASGC, OI, OI2), mkop(ASGM, OI2, OI), mkop(ASGM, OI, OI2), mkop(ASGC, OL, OI), mkop(ASGM, OI, OL),
                   mkop(ASGM, OL, OI), mkop(ASUL, OI, -1, 3), mkop(CLR, OI), mkop(TKC, OI), mkop(COPY, OI2, OI), mkop(MOVE, OI, OI2), mkop(ASGM, OI, OI), mkop(KILL, OI2)}},
      {"void-status", {mkop(ASGE, RV, -1, 1), mkop(ASGE, RV2, -1, 2), mkop(ASGN, RV), mkop(ASGC, RV, RV2), mkop(ASGM, RV, RV2), mkop(ASGM, RV2, RV), mkop(ASGM, RV, RV),
                       mkop(MOVE, RV2, RV), mkop(COPY, RV, RV2), mkop(CLR, RV), mkop(ASGV, RI, -1, 1), mkop(ASGE, RI, -1, 0), mkop(ASGM, RI, RI), mkop(ASGV, ST, -1, 4),
                       mkop(ASGE, ST, -1, 15), mkop(COPY, ST, ST), mkop(MOVE, ST, ST)}},
  };
}

// ------------------------------------------------------------------------------------------------
int main(int argc, char** argv) {
  Args a = Args::parse(argc, argv);
  Report rep; rep.property = "C13"; rep.tier = a.tier; rep.seed = a.seed; rep.out_path = a.out; rep.unit = a.unit.empty() ? "optres" : a.unit;
  install_report(&rep);
  const bool thorough = a.tier == "thorough";

  if (!a.replay.empty()) {
    FILE* f = fopen(a.replay.c_str(), "r"); if (!f) { fprintf(stderr, "cannot open replay file\n"); return 2; }
    char line[1 << 16]; std::string text;
    while (fgets(line, sizeof line, f)) { std::string l = line; while (!l.empty() && (l.back() == '\n' || l.back() == '\r')) l.pop_back(); if (!l.empty() && l[0] != '#') text = l; }
    fclose(f);
    std::string m;
    if (text.rfind("prop=C13 ops=", 0) == 0) {
      std::vector<Op> ops;
      if (!ops_parse(text.substr(13), ops)) { fprintf(stderr, "bad ops in replay file\n"); return 2; }
      rep.current_case = text;
      m = run_ops(ops, rep);
    } else if (text.rfind("prop=C13 cmp=", 0) == 0) {
      char ty[32], sh[8], op[8], l[32], r[32];
      if (sscanf(text.c_str() + 13, "%31s %7s %7s %31s %31s", ty, sh, op, l, r) != 5) { fprintf(stderr, "bad cmp in replay file\n"); return 2; }
      int shape = -1, opi = -1; Opd lo, ro;
      for (int i = 0; i < 3; i++) if (!strcmp(sh, kShape[i])) shape = i;
      for (int i = 0; i < 6; i++) if (!strcmp(op, kCmpOp[i])) opi = i;
      if (shape < 0 || opi < 0 || !opd_parse(l, lo) || !opd_parse(r, ro)) { fprintf(stderr, "bad cmp in replay file\n"); return 2; }
      m = cmp_check(ty, shape, opi, lo, ro);
      if (m == "skip") { fprintf(stderr, "cmp case does not exist\n"); return 2; }
    } else if (text.rfind("prop=C13 boolres=", 0) == 0) {
      m = boolres_check(atoi(text.c_str() + 17));
    } else if (text.rfind("prop=C13 selfcmp=", 0) == 0) {
      m = selfcmp_check(atoi(text.c_str() + 17));
    } else if (text.rfind("prop=C13 msg=", 0) == 0) {
      m = msg_check(atol(text.c_str() + 13));
    } else { fprintf(stderr, "no C13 case in replay file\n"); return 2; }
    if (!m.empty()) { printf("REPLAY-FAIL %s\n", m.c_str()); return 1; }
    printf("REPLAY-PASS\n"); return 0;
  }

  // ---- PART A ----
  auto account = [&](const std::vector<Op>& ops, const std::string& text, const RunInfo& info) {
    rep.evaluations++;
    rep.label("A:steps", info.steps);
    if (info.nontriv) rep.nontriv(hash_str(text));
    if (info.self_asg) rep.label("A:seq-with-self-assignment");
    if (info.move_asg) rep.label("A:seq-with-move-assignment");
    if (info.conv_asg) rep.label("A:seq-with-converting-assignment");
    if (info.self_value) rep.label("A:seq-with-assignment-from-own-value");
    if (info.take_clear) rep.label("A:seq-with-take+clear");
    if (info.threw) rep.label("A:seq-with-throwing-constructor");
    if (info.err2val) rep.label("A:seq-with-result-error->value");
    if (info.val2err) rep.label("A:seq-with-result-value->error");
    (void)ops;
  };
  auto record_failure = [&](const std::string& m, const std::string& text, const RunInfo& info) {
    rep.fail(m, "prop=C13 ops=" + text, "C13|" + (info.obj.empty() ? std::string("?") : info.obj) + "|" + fail_class(m));
  };

  // (a) bounded-exhaustive
  {
    const int L = thorough ? 4 : 3;
    long idx = 0, done = 0;
    for (const Scene& sc : scenes()) {
      bool ok = true;
      const size_t A = sc.alpha.size();
      for (int len = 1; len <= L && ok; len++) {
        std::vector<size_t> d((size_t)len, 0);
        for (;;) {
          if ((int)(idx++ % a.nshards) == a.shard) {
            std::vector<Op> ops; for (size_t x : d) ops.push_back(sc.alpha[x]);
            std::string text = ops_text(ops);
            rep.current_case = "prop=C13 ops=" + text;
            RunInfo info; std::string m = run_ops(ops, rep, &info);
            account(ops, text, info); done++;
            if (!m.empty()) { record_failure(m, text, info); ok = false; break; }
          }
          int p = len - 1; while (p >= 0 && ++d[(size_t)p] == A) { d[(size_t)p] = 0; p--; }
          if (p < 0) break;
        }
      }
      rep.label(std::string("A:exhaustive-len<=") + std::to_string(L) + ":" + sc.name + "(alphabet " + std::to_string(A) + ")");
    }
    rep.label("A:exhaustive-sequences", done);
  }

  // (b) random sequences
  if (rep.ok()) {
    long n = (thorough ? 200000 : 5000) * a.scale / a.nshards; if (n < 1) n = 1;
    long ran = 0; int sampled = 0;
    TapeRun r = rc_tapes(a.seed * 0x9e3779b97f4a7c15ull + (uint64_t)a.shard, (int)n, 100, 2.5, [&](const std::vector<uint64_t>& tape) {
      Tape t(tape);
      std::vector<Op> ops = decode_ops(t);
      std::string text = ops_text(ops);
      rep.current_case = "prop=C13 ops=" + text;
      RunInfo info; std::string m = run_ops(ops, rep, &info);
      account(ops, text, info); ran++;
      if (m.empty() && info.nontriv && ops.size() >= 4 && ops.size() <= 10 && sampled < 4) { rep.sample("ops=" + text); sampled++; }
      return m;
    });
    rep.label("A:random-sequences", ran);
    if (!r.ok) {
      if (r.message.rfind("HARNESS:", 0) == 0) rep.fail("harness-error: " + r.message, "prop=C13 ops=", "C13|harness|harness-error");
      else {
        Tape t(r.tape); std::vector<Op> ops = decode_ops(t);
        RunInfo info; std::string m = run_ops(ops, rep, &info);
        if (m.empty()) m = r.message;
        record_failure(m, ops_text(ops), info);
      }
    }
  }

  // ---- PART D ----
  if (a.shard == 0) {
    for (int w = 0; w < 64; w++) {
      rep.current_case = "prop=C13 boolres=" + std::to_string(w); rep.evaluations++;
      std::string m = boolres_check(w);
      if (!m.empty()) { std::string key = "C13|Result<Err,bool>|" + std::to_string(w / 16); bool seen = false; for (auto& f : rep.failures) if (f.key == key) seen = true; if (!seen) rep.fail(m, rep.current_case, key); }
      else if (w % 4 != (w / 4) % 4) rep.nontriv(hash_str(rep.current_case));
    }
    rep.label("D:result-of-bool-assignments", 64);
  }
  // ---- PART E ----
  if (a.shard == 0) {
    for (int w = 0; w < 36; w++) {
      rep.current_case = "prop=C13 selfcmp=" + std::to_string(w); rep.evaluations++;
      std::string m = selfcmp_check(w);
      if (!m.empty()) { std::string key = "C13|selfcmp|" + std::to_string(w / 18); bool seen = false; for (auto& f : rep.failures) if (f.key == key) seen = true; if (!seen) rep.fail(m, rep.current_case, key); }
      else if ((w / 6) % 3) rep.nontriv(hash_str(rep.current_case));
    }
    rep.label("E:self-comparisons", 36);
  }
  // ---- PART B ----
  if (a.shard == 0) {
    for (const char* type : {"int", "tracked", "int-long", "int-half", "entry", "opt-entry", "nested"}) {
      long cnt = 0;
      for (int shape = 0; shape < 3; shape++)
        for (int op = 0; op < 6; op++)
          for (int li = 0; li < 6; li++)
            for (int ri = 0; ri < 6; ri++) {
              Opd l = li ? Opd{true, kCmpValues[li - 1]} : Opd{false, 0}, r = ri ? Opd{true, kCmpValues[ri - 1]} : Opd{false, 0};
              if (!strcmp(type, "nested")) { if (l.has && l.v == -3) l.v = kInnerEmpty; if (r.has && r.v == -3) r.v = kInnerEmpty; }
              std::string ct = cmp_case_text(type, shape, op, l, r);
              rep.current_case = ct; rep.current_detail = "comparison";
              std::string m = cmp_check(type, shape, op, l, r);
              if (m == "skip") continue;
              rep.evaluations++; cnt++;
              if (li != ri) rep.nontriv(hash_str(ct));
              if (!m.empty()) {
                std::string key = std::string("C13|Optional<") + type + "> " + kShape[shape] + " " + kCmpOp[op] + "|" + fail_class(m);
                bool seen = false; for (auto& f : rep.failures) if (f.key == key) seen = true;
                if (!seen) rep.fail(m, ct, key); else rep.label("B:further-mismatches-same-operator");
              }
            }
      rep.label(std::string("B:comparisons-exhaustive:") + type, cnt);
    }
    rep.sample(cmp_case_text("tracked", 2, 5, Opd{true, 1}, Opd{false, 0}) + " -> true");

    // ---- PART C ----
    for (long code : {0L, 1L, 2L, 3L, 4L, 5L, 6L, 7L, 8L, 9L, 10L, 11L, 12L, 13L, 14L, 15L, 16L, 17L, 18L, 19L, 1000L, -1L}) {
      rep.current_case = "prop=C13 msg=" + std::to_string(code); rep.current_detail = "GetErrorMessage";
      rep.evaluations++;
      std::string m = msg_check(code);
      if (code >= 0 && code <= 18) rep.nontriv(hash_str(rep.current_case));
      if (!m.empty()) rep.fail(m, rep.current_case, "C13|Status::GetErrorMessage|" + fail_class(m));
    }
    rep.label("C:error-messages-checked", 22);
    static_assert((int)nop::ErrorStatus::DebugError == 18, "ErrorStatus grew: extend PART C");
  }

  rep.current_case.clear(); rep.current_detail.clear();
  rep.exhaustive = false;
  rep.write("done");
  for (auto& f : rep.failures) fprintf(stderr, "FAIL %s\n  case: %s\n", f.message.c_str(), f.case_text.c_str());
  return rep.ok() ? 0 : 1;
}
