// C15 part (b): a UniqueHandle closes the resource it owns exactly once - on destruction, on
// move-assignment over it, or on close() - and never closes a resource that was released or moved away.
//
// Real objects: 4 slots of nop::UniqueHandle<CountingPolicy> (destroyable / re-creatable); the policy
// records every Close(id) of a valid id in a global log (Close of the empty value -1 is not a resource
// and is ignored). Every construct(id) uses a fresh id, so an id denotes one resource for the whole case.
//
// Ops (text form): C<s> construct(fresh id), D<s> default-construct, M<d><s> move-construct d from s,
// A<d><s> move-assign d = move(s) (d == s: self), T<s> move-assign from a temporary holding a fresh id,
// R<s> release(), X<s> close(), G<s> get(), B<s> explicit bool, K<s> destroy. Inapplicable ops are no-ops.
//
// Model: per slot {dead | live holding id or empty}; per resource {owned | closed | released}; the list of
// closes predicted so far. Invariant after every step: the policy's close log == the predicted list
// (each resource at most once, exactly when its owner is destroyed / overwritten by move-assignment /
// close()d), get() and explicit bool of every live slot agree with the model, release() returns the owned
// id. At the end all slots are destroyed: every resource still owned is closed exactly once, every
// released one never.
//
// File-handle part (fd_ops=...): the same op alphabet on nop::UniqueFileHandle (FileHandlePolicy, real
// descriptors). Every resource is a dup() of one memfd; descriptor 0 is freed before each case so the
// first handle of a case owns fd 0. Oracle after every step: each descriptor the model says is owned or
// released still refers to the memfd (fstat dev/ino), each one the model says is closed does not.
//
// Drivers: exhaustive sequences (length <=4 quick / <=5 thorough) over a 22-letter alphabet on 2 slots;
// rapidcheck tapes (<=60 ops on 4 slots); --replay.
#include <cinttypes>
#include <cstdio>
#include <cstring>
#include <map>
#include <optional>
#include <set>
#include <sstream>

#include <fcntl.h>
#include <sys/mman.h>
#include <sys/stat.h>
#include <unistd.h>

#include <nop/types/file_handle.h>
#include <nop/types/handle.h>

#include "kit/core.h"
#include "kit/gen.h"
#include "kit/rcdrv.h"
#include "kit/report.h"

using namespace vk;

// ---- counting policy ---------------------------------------------------------------------------
static std::vector<int> g_closes;      // every Close() of a valid id, in order

struct CountingPolicy {
  using Type = int;
  static constexpr int Default() { return -1; }
  static bool IsValid(int v) { return v >= 0; }
  static void Close(int* v) { if (*v >= 0) g_closes.push_back(*v); *v = -1; }
  static int Release(int* v) { int t = *v; *v = -1; return t; }
  static constexpr std::uint64_t HandleType() { return 9; }
};
using UH = nop::UniqueHandle<CountingPolicy>;

// ---- operations ----------------------------------------------------------------------------------
enum Kind : uint8_t { K_Construct, K_Default, K_MoveConstruct, K_MoveAssign, K_Release, K_Close, K_Get, K_Bool, K_Destroy, K_AssignTemp, K_COUNT };
static const char kLetters[] = "CDMARXGBKT";   // T<s>: slot s = UniqueHandle(fresh id), a move-assignment from a temporary
static const int kSlots = 4;
// a = destination / subject slot, b = source slot (MoveConstruct, MoveAssign)
struct Op { uint8_t kind = 0, a = 0, b = 0; uint64_t n = 0; };
static bool two_slots(uint8_t k) { return k == K_MoveConstruct || k == K_MoveAssign; }

static std::string op_text(const Op& o) {
  std::string s(1, kLetters[o.kind]);
  s += (char)('0' + o.a);
  if (two_slots(o.kind)) s += (char)('0' + o.b);
  return s;
}
static std::string ops_text(const std::vector<Op>& ops) {
  std::string s;
  for (size_t i = 0; i < ops.size(); i++) { if (i) s += ' '; s += op_text(ops[i]); }
  return s;
}
static bool ops_parse(const std::string& text, std::vector<Op>* ops) {
  std::istringstream is(text);
  std::string tok;
  while (is >> tok) {
    const char* p = strchr(kLetters, tok[0]);
    if (!p || !*p) return false;
    Op o; o.kind = (uint8_t)(p - kLetters);
    if (tok.size() != (two_slots(o.kind) ? 3u : 2u)) return false;
    if (tok[1] < '0' || tok[1] >= '0' + kSlots) return false;
    o.a = (uint8_t)(tok[1] - '0');
    if (two_slots(o.kind)) { if (tok[2] < '0' || tok[2] >= '0' + kSlots) return false; o.b = (uint8_t)(tok[2] - '0'); }
    ops->push_back(o);
  }
  return true;
}
static std::string case_text(const std::vector<Op>& ops) { return "prop=C15 uh_ops=" + ops_text(ops); }

static std::vector<Op> decode_ops(Tape& t, int slots, size_t max_ops) {
  // weights: construct 4, default 1, move-construct 2, move-assign 5, release 2, close 2, get 1, bool 1, destroy 2, assign-temporary 3
  static const uint8_t pick[] = {K_Construct, K_Construct, K_Construct, K_Construct, K_Default, K_MoveConstruct, K_MoveConstruct, K_MoveAssign, K_MoveAssign, K_MoveAssign,
                                 K_MoveAssign, K_MoveAssign, K_Release, K_Release, K_Close, K_Close, K_Get, K_Bool, K_Destroy, K_Destroy, K_AssignTemp, K_AssignTemp, K_AssignTemp};
  // Liveness of a slot depends on the op text only (not on the library), so the decoder may track it and
  // steer a choice that would be inapplicable to the next slot in the required state (3 times out of 4).
  bool live[kSlots] = {false, false, false, false};
  auto steer = [&](uint8_t s, bool want_live) -> uint8_t {
    for (int k = 0; k < slots; k++) { uint8_t c = (uint8_t)((s + k) % slots); if (live[c] == want_live) return c; }
    return s;
  };
  std::vector<Op> ops;
  while (!t.exhausted() && ops.size() < max_ops) {
    Op o; o.kind = pick[t.below(sizeof pick)];
    o.a = (uint8_t)t.below((uint64_t)slots);
    if (two_slots(o.kind)) o.b = (uint8_t)t.below((uint64_t)slots);
    if (t.below(4) != 3) {
      const bool creates = o.kind == K_Construct || o.kind == K_Default || o.kind == K_MoveConstruct;
      o.a = steer(o.a, !creates);
      if (two_slots(o.kind)) o.b = steer(o.b, true);
    }
    if ((o.kind == K_Construct || o.kind == K_Default) && !live[o.a]) live[o.a] = true;
    else if (o.kind == K_MoveConstruct && !live[o.a] && live[o.b] && o.a != o.b) live[o.a] = true;
    else if (o.kind == K_Destroy) live[o.a] = false;
    ops.push_back(o);
  }
  return ops;
}

// ---- execution against the real objects and the model -------------------------------------------
struct Flags { bool assign_over_nonempty = false, self_assign = false, release = false, release_empty = false, close_owned = false, close_empty = false, move_construct = false, destroy_owner = false, assign_from_empty = false, assign_temp = false, slot_over_nonempty = false; };
enum ResState : uint8_t { R_Owned, R_Closed, R_Released };

static std::string closes_text(const std::vector<int>& v) {
  std::string s = "[";
  for (size_t i = 0; i < v.size(); i++) { if (i) s += ' '; s += std::to_string(v[i]); }
  return s + "]";
}

// Returns "" or "<class>: <detail> at step k".
static std::string run_ops(const std::vector<Op>& ops, Flags& f, Report& rep) {
  g_closes.clear();
  std::string result;
  {
    std::optional<UH> slot[kSlots];
    // the model
    bool live[kSlots] = {false, false, false, false};
    int held[kSlots] = {-1, -1, -1, -1};
    std::map<int, ResState> res;
    std::vector<int> expect_closes;
    int next_id = 100;

    auto at = [&](size_t i, const std::string& cls, const std::string& detail) {
      return cls + ": " + detail + " at step " + std::to_string(i) + (i < ops.size() ? " (" + op_text(ops[i]) + ")" : " (final destruction)");
    };
    auto model_close = [&](int s) { if (held[s] >= 0) { expect_closes.push_back(held[s]); res[held[s]] = R_Closed; held[s] = -1; } };
    auto invariant = [&](size_t i) -> std::string {
      if (g_closes != expect_closes) {
        // classify: something closed that should not be / twice / missing
        std::map<int, int> cnt; for (int id : g_closes) cnt[id]++;
        for (auto& kv : cnt) if (kv.second > 1) return at(i, "double-close", "resource " + std::to_string(kv.first) + " closed " + std::to_string(kv.second) + " times; close log " + closes_text(g_closes) + ", expected " + closes_text(expect_closes));
        for (int id : g_closes) {
          auto it = res.find(id);
          if (it == res.end()) return at(i, "close-unknown", "Close(" + std::to_string(id) + ") of an id that was never handed out; close log " + closes_text(g_closes));
          if (it->second == R_Released) return at(i, "close-released", "released resource " + std::to_string(id) + " was closed; close log " + closes_text(g_closes) + ", expected " + closes_text(expect_closes));
          if (it->second == R_Owned) return at(i, "close-early", "resource " + std::to_string(id) + " is still owned by a live handle but was closed; close log " + closes_text(g_closes) + ", expected " + closes_text(expect_closes));
        }
        if (g_closes.size() < expect_closes.size()) return at(i, "missing-close", "close log " + closes_text(g_closes) + ", expected " + closes_text(expect_closes));
        return at(i, "close-order", "close log " + closes_text(g_closes) + ", expected " + closes_text(expect_closes));
      }
      for (int s = 0; s < kSlots; s++) {
        if (!live[s]) continue;
        const UH& h = *slot[s];
        if (h.get() != held[s]) return at(i, "wrong-owner", "slot " + std::to_string(s) + " get() is " + std::to_string(h.get()) + ", the model says " + std::to_string(held[s]));
        if (static_cast<bool>(h) != (held[s] >= 0)) return at(i, "wrong-bool", "slot " + std::to_string(s) + " bool is " + (static_cast<bool>(h) ? "true" : "false") + " holding " + std::to_string(held[s]));
      }
      return "";
    };

    for (size_t i = 0; i < ops.size() && result.empty(); i++) {
      const Op& op = ops[i];
      const int a = op.a, b = op.b;
      rep.current_detail = op_text(op) + " at step " + std::to_string(i);
      switch (op.kind) {
        case K_Construct:
          if (live[a]) break;
          { const int id = next_id++; slot[a].emplace(id); live[a] = true; held[a] = id; res[id] = R_Owned; }
          break;
        case K_Default:
          if (live[a]) break;
          slot[a].emplace(); live[a] = true; held[a] = -1;
          break;
        case K_MoveConstruct:
          if (live[a] || !live[b] || a == b) break;
          f.move_construct = true;
          slot[a].emplace(std::move(*slot[b])); live[a] = true; held[a] = held[b]; held[b] = -1;
          break;
        case K_MoveAssign: {
          if (!live[a] || !live[b]) break;
          UH& dst = *slot[a]; UH& srch = *slot[b];
          dst = std::move(srch);
          if (a == b) { f.self_assign = true; break; }
          if (held[a] >= 0) f.assign_over_nonempty = f.slot_over_nonempty = true;
          if (held[b] < 0) f.assign_from_empty = true;
          model_close(a); held[a] = held[b]; held[b] = -1;
          break; }
        case K_Release: {
          if (!live[a]) break;
          const int got = slot[a]->release();
          if (got != held[a]) { result = at(i, "wrong-release", "release() returned " + std::to_string(got) + ", the handle owned " + std::to_string(held[a])); break; }
          if (held[a] >= 0) { f.release = true; res[held[a]] = R_Released; held[a] = -1; } else f.release_empty = true;
          break; }
        case K_Close:
          if (!live[a]) break;
          if (held[a] >= 0) f.close_owned = true; else f.close_empty = true;
          slot[a]->close(); model_close(a);
          break;
        case K_Get:
          if (!live[a]) break;
          if (slot[a]->get() != held[a]) result = at(i, "wrong-owner", "get() is " + std::to_string(slot[a]->get()) + ", the model says " + std::to_string(held[a]));
          break;
        case K_Bool:
          if (!live[a]) break;
          if (static_cast<bool>(*slot[a]) != (held[a] >= 0)) result = at(i, "wrong-bool", std::string("bool is ") + (static_cast<bool>(*slot[a]) ? "true" : "false") + " holding " + std::to_string(held[a]));
          break;
        case K_Destroy:
          if (!live[a]) break;
          if (held[a] >= 0) f.destroy_owner = true;
          slot[a].reset(); live[a] = false; model_close(a);
          break;
        default: {   // K_AssignTemp: the temporary is destroyed right after the assignment and must close nothing
          if (!live[a]) break;
          const int id = next_id++; res[id] = R_Owned;
          if (held[a] >= 0) f.assign_over_nonempty = true;
          f.assign_temp = true;
          { UH temp(id); *slot[a] = std::move(temp); }
          model_close(a); held[a] = id;
          break; }
      }
      if (result.empty()) result = invariant(i);
    }
    // final destruction of every live slot, one at a time
    for (int s = 0; s < kSlots && result.empty(); s++) {
      if (!live[s]) continue;
      rep.current_detail = "final destruction of slot " + std::to_string(s);
      slot[s].reset(); live[s] = false; model_close(s);
      result = invariant(ops.size());
    }
    if (result.empty()) {
      std::map<int, int> cnt; for (int id : g_closes) cnt[id]++;
      for (auto& kv : res) {
        const int n = cnt.count(kv.first) ? cnt[kv.first] : 0;
        if (kv.second == R_Owned) result = at(ops.size(), "HARNESS", "resource " + std::to_string(kv.first) + " still owned in the model after final destruction");
        else if (kv.second == R_Closed && n != 1) result = at(ops.size(), n ? "double-close" : "missing-close", "resource " + std::to_string(kv.first) + " closed " + std::to_string(n) + " times");
        else if (kv.second == R_Released && n != 0) result = at(ops.size(), "close-released", "released resource " + std::to_string(kv.first) + " closed " + std::to_string(n) + " times");
        if (!result.empty()) break;
      }
    }
    // on failure the remaining live slots are destroyed by leaving this scope
  }
  return result;
}

// ---- file-handle part: nop::UniqueFileHandle over real descriptors --------------------------------
static int g_base_fd = -1;            // the memfd every resource is a dup() of (kept at a high number)
static dev_t g_base_dev; static ino_t g_base_ino;
static bool fd_is_ours(int fd) {
  struct stat st;
  return fd >= 0 && fstat(fd, &st) == 0 && st.st_dev == g_base_dev && st.st_ino == g_base_ino;
}
static bool fd_setup() {
  if (g_base_fd >= 0) return true;
  int m = memfd_create("c15", 0); if (m < 0) return false;
  g_base_fd = fcntl(m, F_DUPFD, 300); close(m); if (g_base_fd < 0) return false;
  struct stat st; if (fstat(g_base_fd, &st) != 0) return false;
  g_base_dev = st.st_dev; g_base_ino = st.st_ino;
  int keep = fcntl(0, F_DUPFD, 301); (void)keep;   // stdin (if any) moves out of the way; never restored, nothing here reads it
  close(0);
  return true;
}
static std::string fd_case_text(const std::vector<Op>& ops) { return "prop=C15 fd_ops=" + ops_text(ops); }

static std::string run_ops_fd(const std::vector<Op>& ops, Flags& f, Report& rep, bool* fd0_closed_by_handle) {
  if (!fd_setup()) return "HARNESS: memfd_create / dup failed";
  std::string result;
  std::map<int, ResState> res;       // by descriptor number; a re-used number denotes the new resource
  {
    std::optional<nop::UniqueFileHandle> slot[kSlots];
    bool live[kSlots] = {false, false, false, false};
    int held[kSlots] = {-1, -1, -1, -1};
    long made = 0;
    auto at = [&](size_t i, const std::string& cls, const std::string& detail) {
      return cls + ": " + detail + " at step " + std::to_string(i) + (i < ops.size() ? " (" + op_text(ops[i]) + ")" : " (final destruction)");
    };
    auto model_close = [&](int s) { if (held[s] >= 0) { if (held[s] == 0) *fd0_closed_by_handle = true; res[held[s]] = R_Closed; held[s] = -1; } };
    auto invariant = [&](size_t i) -> std::string {
      for (auto& kv : res) {
        const bool ours = fd_is_ours(kv.first);
        if (kv.second == R_Closed && ours) return at(i, "missing-close", "descriptor " + std::to_string(kv.first) + " should have been closed by its UniqueFileHandle and is still open");
        if (kv.second == R_Owned && !ours) return at(i, "close-early", "descriptor " + std::to_string(kv.first) + " is owned by a live handle and is closed");
        if (kv.second == R_Released && !ours) return at(i, "close-released", "released descriptor " + std::to_string(kv.first) + " was closed");
      }
      for (int s = 0; s < kSlots; s++) {
        if (!live[s]) continue;
        const nop::UniqueFileHandle& h = *slot[s];
        if (h.get() != held[s]) return at(i, "wrong-owner", "slot " + std::to_string(s) + " get() is " + std::to_string(h.get()) + ", the model says " + std::to_string(held[s]));
        if (static_cast<bool>(h) != (held[s] >= 0)) return at(i, "wrong-bool", "slot " + std::to_string(s) + " bool is " + (static_cast<bool>(h) ? "true" : "false") + " holding " + std::to_string(held[s]));
      }
      return "";
    };
    for (size_t i = 0; i < ops.size() && result.empty(); i++) {
      const Op& op = ops[i];
      const int a = op.a, b = op.b;
      rep.current_detail = op_text(op) + " at step " + std::to_string(i);
      switch (op.kind) {
        case K_Construct: {
          if (live[a]) break;
          int id;
          if (made++ % 2 == 0) { id = dup(g_base_fd); slot[a].emplace(id); }
          else { slot[a].emplace(nop::UniqueFileHandle::AsDuplicate(nop::FileHandle{g_base_fd})); id = slot[a]->get(); }
          if (id < 0 || !fd_is_ours(id)) { result = at(i, "HARNESS", "dup failed"); break; }
          live[a] = true; held[a] = id; res[id] = R_Owned;
          break; }
        case K_Default:
          if (live[a]) break;
          slot[a].emplace(); live[a] = true; held[a] = -1;
          break;
        case K_MoveConstruct:
          if (live[a] || !live[b] || a == b) break;
          f.move_construct = true;
          slot[a].emplace(std::move(*slot[b])); live[a] = true; held[a] = held[b]; held[b] = -1;
          break;
        case K_MoveAssign: {
          if (!live[a] || !live[b]) break;
          nop::UniqueFileHandle& dst = *slot[a]; nop::UniqueFileHandle& srch = *slot[b];
          dst = std::move(srch);
          if (a == b) { f.self_assign = true; break; }
          if (held[a] >= 0) f.assign_over_nonempty = f.slot_over_nonempty = true;
          if (held[b] < 0) f.assign_from_empty = true;
          model_close(a); held[a] = held[b]; held[b] = -1;
          break; }
        case K_Release: {
          if (!live[a]) break;
          const int got = slot[a]->release();
          if (got != held[a]) { result = at(i, "wrong-release", "release() returned " + std::to_string(got) + ", the handle owned " + std::to_string(held[a])); break; }
          if (held[a] >= 0) { f.release = true; res[held[a]] = R_Released; held[a] = -1; } else f.release_empty = true;
          break; }
        case K_Close:
          if (!live[a]) break;
          if (held[a] >= 0) f.close_owned = true; else f.close_empty = true;
          slot[a]->close(); model_close(a);
          break;
        case K_Get:
          if (!live[a]) break;
          if (slot[a]->get() != held[a]) result = at(i, "wrong-owner", "get() is " + std::to_string(slot[a]->get()) + ", the model says " + std::to_string(held[a]));
          break;
        case K_Bool:
          if (!live[a]) break;
          if (static_cast<bool>(*slot[a]) != (held[a] >= 0)) result = at(i, "wrong-bool", std::string("bool is ") + (static_cast<bool>(*slot[a]) ? "true" : "false") + " holding " + std::to_string(held[a]));
          break;
        case K_Destroy:
          if (!live[a]) break;
          if (held[a] >= 0) f.destroy_owner = true;
          slot[a].reset(); live[a] = false; model_close(a);
          break;
        default: {
          if (!live[a]) break;
          if (held[a] >= 0) f.assign_over_nonempty = true;
          f.assign_temp = true;
          // the new descriptor exists before the old one is closed, so it gets a different number
          int id = dup(g_base_fd);
          if (id < 0) { result = at(i, "HARNESS", "dup failed"); break; }
          { nop::UniqueFileHandle temp(id); *slot[a] = std::move(temp); }
          model_close(a); held[a] = id; res[id] = R_Owned;
          break; }
      }
      if (result.empty()) result = invariant(i);
    }
    for (int s = 0; s < kSlots && result.empty(); s++) {
      if (!live[s]) continue;
      rep.current_detail = "final destruction of slot " + std::to_string(s);
      slot[s].reset(); live[s] = false; model_close(s);
      result = invariant(ops.size());
    }
  }
  // the harness closes what was released (and, after a failure, whatever is left) so the next case starts with fd 0 free
  for (auto& kv : res) if (fd_is_ours(kv.first)) close(kv.first);
  return result;
}

static std::string class_of(const std::string& m) { size_t p = m.find(':'); return p == std::string::npos ? m : m.substr(0, p); }

int main(int argc, char** argv) {
  Args a = Args::parse(argc, argv);
  Report rep; rep.property = "C15"; rep.tier = a.tier; rep.seed = a.seed; rep.out_path = a.out; rep.unit = a.unit.empty() ? "uhandle" : a.unit;
  install_report(&rep);
  const bool thorough = a.tier == "thorough";

  if (!a.replay.empty()) {
    FILE* fp = fopen(a.replay.c_str(), "r"); if (!fp) return 2;
    char line[16384]; std::string text;
    while (fgets(line, sizeof line, fp)) if (line[0] != '#' && line[0] != '\n') text = line;
    fclose(fp);
    const std::string head = "prop=C15 uh_ops=";
    const std::string fhead = "prop=C15 fd_ops=";
    if (text.compare(0, fhead.size(), fhead) == 0) {
      std::vector<Op> ops;
      if (!ops_parse(text.substr(fhead.size()), &ops)) { fprintf(stderr, "bad replay file\n"); return 2; }
      Flags f; bool z = false; rep.current_case = fd_case_text(ops);
      std::string m = run_ops_fd(ops, f, rep, &z);
      if (!m.empty()) { printf("REPLAY-FAIL %s\n", m.c_str()); return 1; }
      printf("REPLAY-PASS\n"); return 0;
    }
    if (text.compare(0, head.size(), head) != 0) { fprintf(stderr, "bad replay file\n"); return 2; }
    std::vector<Op> ops;
    if (!ops_parse(text.substr(head.size()), &ops)) { fprintf(stderr, "bad replay file\n"); return 2; }
    Flags f; rep.current_case = case_text(ops);
    std::string m = run_ops(ops, f, rep);
    if (!m.empty()) { printf("REPLAY-FAIL %s\n", m.c_str()); return 1; }
    printf("REPLAY-PASS\n"); return 0;
  }

  std::set<std::string> seen_keys;
  auto record = [&](const std::string& m, const std::vector<Op>& ops) {
    std::string key = "C15|UniqueHandle|" + class_of(m);
    if (seen_keys.insert(key).second) rep.fail(m, case_text(ops), key);
  };
  long sampled = 0;
  auto account = [&](const Flags& f, const std::vector<Op>& ops, bool random) {
    if (f.assign_over_nonempty) rep.label("move-assign-over-nonempty");
    if (f.slot_over_nonempty) rep.label("move-assign-over-nonempty:slot-to-slot");
    if (f.assign_from_empty) rep.label("move-assign-from-empty");
    if (f.self_assign) rep.label("self-move-assign");
    if (f.move_construct) rep.label("move-construct");
    if (f.release) rep.label("release-owned");
    if (f.release_empty) rep.label("release-empty");
    if (f.close_owned) rep.label("close-owned");
    if (f.close_empty) rep.label("close-empty");
    if (f.destroy_owner) rep.label("destroy-owner");
    if (f.assign_temp) rep.label("move-assign-from-temporary");
    if (f.assign_over_nonempty) {
      std::string text = case_text(ops);
      rep.nontriv(hash_str(text)); rep.label(random ? "non-trivial:random" : "non-trivial:exhaustive");
      if (random ? (f.release && f.self_assign && f.move_construct) : (sampled++ % 4001 == 0 && rep.samples.size() < 3)) rep.sample(text);
    }
  };

  // (a) bounded-exhaustive enumeration on 2 slots
  {
    const size_t L = thorough ? 5 : 4;
    std::vector<Op> alpha;
    if (!ops_parse("C0 C1 D0 D1 M01 M10 A00 A01 A10 A11 T0 T1 R0 R1 X0 X1 G0 G1 B0 B1 K0 K1", &alpha)) abort();
    long seqs = 0; bool failed = false;
    std::vector<Op> ops;
    for (size_t len = 1; len <= L && !failed; len++) {
      std::vector<size_t> idx(len, 0);
      for (long ord = 0;; ord++) {
        if (ord % a.nshards == a.shard) {
          ops.clear();
          for (size_t k = 0; k < len; k++) ops.push_back(alpha[idx[k]]);
          rep.current_case = case_text(ops); rep.evaluations++; seqs++;
          Flags f;
          std::string m = run_ops(ops, f, rep);
          if (!m.empty()) { record(m, ops); failed = true; break; }
          account(f, ops, false);
        }
        size_t k = len;
        while (k > 0 && ++idx[k - 1] == alpha.size()) idx[--k] = 0;
        if (k == 0) break;
      }
    }
    rep.label(std::string("exhaustive:len<=") + std::to_string(L) + ":alphabet22:2slots", seqs);
  }

  // (b) random sequences on 4 slots
  {
    const long total = (thorough ? 200000 : 5000) * a.scale / a.nshards;
    const uint64_t seed = (a.seed * 0x100000001b3ull) ^ hash_str("C15/uhandle") ^ ((uint64_t)a.shard << 40);
    TapeRun r = rc_tapes(seed, (int)total, 100, 3.5, [&](const std::vector<uint64_t>& tape) {
      Tape t(tape);
      std::vector<Op> ops = decode_ops(t, kSlots, 60);
      rep.current_case = case_text(ops); rep.evaluations++;
      Flags f;
      std::string m = run_ops(ops, f, rep);
      if (m.empty()) account(f, ops, true);
      return m;
    });
    if (!r.ok) {
      if (r.message.rfind("HARNESS:", 0) == 0) { rep.notes["harness_error"] = r.message; rep.fail(r.message, "", "harness"); }
      else {
        Tape t(r.tape);
        std::vector<Op> ops = decode_ops(t, kSlots, 60);
        record(r.message, ops);
        rep.notes["random-failure"] = r.message + " | " + case_text(ops);
      }
    }
    rep.label("random<=60ops:4slots", r.successes);
  }

  // (c) UniqueFileHandle over real descriptors: exhaustive on 2 slots, then random on 4 slots
  {
    std::set<std::string> fd_keys;
    auto record_fd = [&](const std::string& m, const std::vector<Op>& ops) {
      std::string key = "C15|UniqueFileHandle|" + class_of(m);
      if (fd_keys.insert(key).second) rep.fail(m, fd_case_text(ops), key);
    };
    auto account_fd = [&](const Flags& f, const std::vector<Op>& ops, bool fd0) {
      if (fd0) rep.label("fd:handle-closes-descriptor-0");
      if (f.release) rep.label("fd:release-owned");
      if (f.assign_over_nonempty) { rep.label("fd:move-assign-over-nonempty"); rep.nontriv(hash_str(fd_case_text(ops))); }
    };
    const size_t L = thorough ? 4 : 3;
    std::vector<Op> alpha;
    if (!ops_parse("C0 C1 D0 D1 M01 M10 A00 A01 A10 A11 T0 T1 R0 R1 X0 X1 G0 G1 B0 B1 K0 K1", &alpha)) abort();
    long seqs = 0; bool failed = false;
    std::vector<Op> ops;
    for (size_t len = 1; len <= L && !failed; len++) {
      std::vector<size_t> idx(len, 0);
      for (long ord = 0;; ord++) {
        if (ord % a.nshards == a.shard) {
          ops.clear();
          for (size_t k = 0; k < len; k++) ops.push_back(alpha[idx[k]]);
          rep.current_case = fd_case_text(ops); rep.evaluations++; seqs++;
          Flags f; bool z = false;
          std::string m = run_ops_fd(ops, f, rep, &z);
          if (!m.empty()) { record_fd(m, ops); failed = true; break; }
          account_fd(f, ops, z);
        }
        size_t k = len;
        while (k > 0 && ++idx[k - 1] == alpha.size()) idx[--k] = 0;
        if (k == 0) break;
      }
    }
    rep.label(std::string("fd:exhaustive:len<=") + std::to_string(L) + ":alphabet22:2slots", seqs);
    const long total = (thorough ? 60000 : 2000) * a.scale / a.nshards;
    const uint64_t seed = (a.seed * 0x100000001b3ull) ^ hash_str("C15/filehandle") ^ ((uint64_t)a.shard << 40);
    TapeRun r = rc_tapes(seed, (int)total, 100, 3.5, [&](const std::vector<uint64_t>& tape) {
      Tape t(tape);
      std::vector<Op> o2 = decode_ops(t, kSlots, 60);
      rep.current_case = fd_case_text(o2); rep.evaluations++;
      Flags f; bool z = false;
      std::string m = run_ops_fd(o2, f, rep, &z);
      if (m.empty()) account_fd(f, o2, z);
      return m;
    });
    if (!r.ok) {
      if (r.message.rfind("HARNESS:", 0) == 0) { rep.notes["harness_error"] = r.message; rep.fail(r.message, "", "harness"); }
      else { Tape t(r.tape); std::vector<Op> o2 = decode_ops(t, kSlots, 60); record_fd(r.message, o2); rep.notes["fd-random-failure"] = r.message + " | " + fd_case_text(o2); }
    }
    rep.label("fd:random<=60ops:4slots", r.successes);
  }

  rep.exhaustive = false;
  rep.write("done");
  for (auto& f : rep.failures) fprintf(stderr, "FAIL %s\n  case: %s\n", f.message.c_str(), f.case_text.c_str());
  return rep.ok() ? 0 : 1;
}
