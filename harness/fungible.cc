// C09: IsFungible<A,B> implies wire compatibility; it is reflexive and symmetric; the documented
// fungible pairs evaluate to true. Pairs come from verif/gen_fungible.py.
#include "harness/codec.h"
#include <cstdarg>
#include <cstdio>

namespace vk {
struct PairTraits { bool ab, ba, aa, bb; int protocol_status; int sig_mismatch; int protocol_admits; };
struct PairDef { const char* a; const char* b; int expected; const char* rules; PairTraits (*traits)(); };
std::vector<PairDef> fung_pairs();
}
using namespace vk;

static std::string fmt(const char* f, ...) __attribute__((format(printf, 1, 2)));
static std::string fmt(const char* f, ...) { char b[2048]; va_list ap; va_start(ap, f); vsnprintf(b, sizeof b, f, ap); va_end(ap); return b; }

// Structural wire compatibility of two schemas (same prefixes and element structure; capacities
// and fixed counts aside). This is the relation IsFungible is supposed to imply.
static bool compatible(const Schema& a, const Schema& b) {
  auto seq_like = [](const Schema& s) { return s.k == K::Seq || s.k == K::Tup; };
  if (seq_like(a) && seq_like(b)) {
    if (a.k == K::Seq && b.k == K::Seq) return compatible(*a.kids[0], *b.kids[0]);
    if (a.k == K::Tup && b.k == K::Tup) { if (a.kids.size() != b.kids.size()) return false; for (size_t i = 0; i < a.kids.size(); i++) if (!compatible(*a.kids[i], *b.kids[i])) return false; return true; }
    const Schema& s = a.k == K::Seq ? a : b; const Schema& t = a.k == K::Seq ? b : a;
    if (s.fixed >= 0 && (size_t)s.fixed != t.kids.size()) return false;
    for (auto& m : t.kids) if (!compatible(*s.kids[0], *m)) return false;
    return true;
  }
  if (a.k != b.k) return false;
  switch (a.k) {
    case K::Bool: case K::F32: case K::F64: return true;
    case K::Int: return a.bits == b.bits && a.sgn == b.sgn;
    case K::Str: return a.bits == b.bits;
    case K::Bin: return a.bits == b.bits;
    case K::Stu: { if (a.kids.size() != b.kids.size()) return false; for (size_t i = 0; i < a.kids.size(); i++) if (!compatible(*a.kids[i], *b.kids[i])) return false; return true; }
    case K::Map: return compatible(*a.kids[0], *b.kids[0]) && compatible(*a.kids[1], *b.kids[1]);
    case K::Opt: return compatible(*a.kids[0], *b.kids[0]);
    case K::Res: return a.bits == b.bits && a.sgn == b.sgn && compatible(*a.kids[0], *b.kids[0]);
    case K::Var: { if (a.kids.size() != b.kids.size()) return false; for (size_t i = 0; i < a.kids.size(); i++) if (!compatible(*a.kids[i], *b.kids[i])) return false; return true; }
    case K::Hnd: return a.htype == b.htype;
    case K::Tab: {
      if (a.hash != b.hash || a.entries.size() != b.entries.size()) return false;
      for (size_t i = 0; i < a.entries.size(); i++) if (a.entries[i].id != b.entries[i].id || a.entries[i].active != b.entries[i].active || !compatible(*a.entries[i].type, *b.entries[i].type)) return false;
      return true; }
    default: return false;
  }
}

// Do the element counts of value v (generated for some compatible schema) fit schema s?
static bool fits(const Schema& s, const Value& v) {
  switch (s.k) {
    case K::Bin: { size_t n = v.bytes.size() / (size_t)(s.bits / 8); if (s.fixed >= 0 && n != (size_t)s.fixed) return false; if (s.maxc >= 0 && n > (size_t)s.maxc) return false; return true; }
    case K::Seq: if (s.fixed >= 0 && v.kids.size() != (size_t)s.fixed) return false; if (s.maxc >= 0 && v.kids.size() > (size_t)s.maxc) return false; for (auto& e : v.kids) if (!fits(*s.kids[0], e)) return false; return true;
    case K::Tup: case K::Stu: if (v.kids.size() != s.kids.size()) return false; for (size_t i = 0; i < s.kids.size(); i++) if (!fits(*s.kids[i], v.kids[i])) return false; return true;
    case K::Map: for (size_t i = 0; i + 1 < v.kids.size(); i += 2) if (!fits(*s.kids[0], v.kids[i]) || !fits(*s.kids[1], v.kids[i + 1])) return false; return true;
    case K::Opt: return !v.tag || fits(*s.kids[0], v.kids[0]);
    case K::Res: return v.tag != 2 || fits(*s.kids[0], v.kids[0]);
    case K::Var: return v.tag < 0 || ((size_t)v.tag < s.kids.size() && fits(*s.kids[v.tag], v.kids[0]));
    case K::Tab: if (v.kids.size() != s.entries.size()) return false; for (size_t i = 0; i < s.entries.size(); i++) if (v.kids[i].tag && !fits(*s.entries[i].type, v.kids[i].kids[0])) return false; return true;
    default: return true;
  }
}
static bool nonempty_container(const Value& v) { if (!v.bytes.empty() || !v.kids.empty()) return true; return false; }

struct FCtx { Ctx c; std::vector<PairDef> pairs; std::map<std::string, size_t> by_name; };

// One direction: values of X (that fit Y) written as X, read as Y, re-encoded as Y.
static std::string cross(FCtx& fc, const TypeOps& X, const TypeOps& Y, Tape& tp, bool* nontrivial) {
  Ctx& c = fc.c;
  GenCfg cfg = c.cfg; cfg.budget = 100;
  Value v = gen_value(*X.schema, tp, cfg);
  if (!fits(*Y.schema, v)) {
    Value v2 = gen_value(*Y.schema, tp, cfg);
    if (!fits(*X.schema, v2)) { c.rep.exclude("no generated value fits both capacities"); return ""; }
    v = v2;
  }
  tp.continue_pseudo_randomly();
  auto ox = X.make(); ox->assign(v); Value xv = ox->get();
  std::vector<int64_t> refs; if (X.has_handle) { std::vector<const Value*> hs; collect_handles(*X.schema, xv, hs); refs = gen_refs(tp, hs.size()); }
  Written wx = lib_encode(X, *ox, &refs);
  if (wx.status != 0) return fmt("write-failed: %s as %s", err_name(wx.status), X.name.c_str());
  auto oy = Y.make();
  ReaderBox r; r.open(Y.has_handle ? R_Log : R_Ped, wx.bytes); load_handles(r.log, wx.pushed);
  int s = oy->read(r);
  c.rep.evaluations++;
  if (s != 0) return fmt("cross-decode-failed: encoded as %s, decoding as %s returned %s; value %s bytes %s", X.name.c_str(), Y.name.c_str(), err_name(s), to_text(*X.schema, xv).c_str(), hex(wx.bytes).substr(0, 160).c_str());
  if (r.position() != wx.bytes.size()) return fmt("cross-decode-consumed: %s -> %s consumed %zu of %zu", X.name.c_str(), Y.name.c_str(), r.position(), wx.bytes.size());
  Value yv = oy->get();
  {
    // corresponding value: same value tree under a wire-compatible schema (maps compared as sets)
    Value a = xv, b = yv; canon(*X.schema, a); canon(*Y.schema, b);
    if (!(a == b)) return fmt("cross-decode-value: %s %s decoded as %s gives %s", X.name.c_str(), to_text(*X.schema, xv).c_str(), Y.name.c_str(), to_text(*Y.schema, yv).c_str());
  }
  Written wy = lib_encode(Y, *oy, &refs);
  if (wy.status != 0) return fmt("re-encode-failed: %s", err_name(wy.status));
  if (wy.bytes != wx.bytes) {
    // allowed difference: MAP entry order when an unordered_map is involved
    if (has_unordered(*X.schema) || has_unordered(*Y.schema) || has_kind(*X.schema, K::Map)) {
      // Each encoding is decoded with the references ITS writer handed out: with another entry order the
      // handles are pushed in another order and receive other references (of possibly another encoded size).
      DecodeOpts dopt; auto ht = handle_table(wx.pushed); dopt.handles = &ht;
      DecodeOpts dopt2; auto ht2 = handle_table(wy.pushed); dopt2.handles = &ht2;
      Decoded d1 = ref_decode(*Y.schema, wx.bytes, dopt), d2 = ref_decode(*Y.schema, wy.bytes, dopt2);
      if (!d1.ok || !d2.ok || !value_equal(*Y.schema, d1.value, d2.value) || (!Y.has_handle && wx.bytes.size() != wy.bytes.size())) return fmt("re-encode-differs: %s -> %s: %s vs %s", X.name.c_str(), Y.name.c_str(), hex(wx.bytes).substr(0, 120).c_str(), hex(wy.bytes).substr(0, 120).c_str());
      c.rep.exclude("re-encoding compared up to MAP entry order");
    } else return fmt("re-encode-differs: %s -> %s: %s vs %s", X.name.c_str(), Y.name.c_str(), hex(wx.bytes).substr(0, 120).c_str(), hex(wy.bytes).substr(0, 120).c_str());
  }
  if (nonempty_container(xv) || xv.tag != 0) *nontrivial = true;
  return "";
}

static std::string pair_case(FCtx& fc, size_t pi, const std::vector<uint64_t>& tape) {
  Ctx& c = fc.c;
  const PairDef& p = fc.pairs[pi];
  const TypeOps& A = c.types[fc.by_name[p.a]]; const TypeOps& B = c.types[fc.by_name[p.b]];
  PairTraits t = p.traits();
  Tape tp(tape);
  if (!t.ab && !t.ba) return "";
  bool nt = false;
  if (t.ab) { std::string m = cross(fc, A, B, tp, &nt); if (!m.empty()) return m; }
  if (t.ba) { Tape tp2(tape); std::string m = cross(fc, B, A, tp2, &nt); if (!m.empty()) return m; }
  if (nt && A.name != B.name) c.rep.nontriv(hash_str(std::string(p.a) + "|" + p.b + "|" + tape_text(tape)));
  return "";
}

int main(int argc, char** argv) {
  FCtx fc; Ctx& c = fc.c;
  c.args = Args::parse(argc, argv);
  c.types = shard_types();
  for (size_t i = 0; i < c.types.size(); i++) fc.by_name[c.types[i].name] = i;
  fc.pairs = fung_pairs();
  c.rep.property = "C09"; c.rep.tier = c.args.tier; c.rep.seed = c.args.seed; c.rep.out_path = c.args.out; c.rep.unit = c.args.unit.empty() ? "fungible" : c.args.unit;
  c.thorough = c.args.tier == "thorough";
  install_report(&c.rep);

  if (!c.args.replay.empty()) {
    FILE* f = fopen(c.args.replay.c_str(), "r"); if (!f) return 2;
    std::string text; char buf[4096]; size_t n; while ((n = fread(buf, 1, sizeof buf, f)) > 0) text.append(buf, n); fclose(f);
    size_t p = text.find("prop=C09"); if (p == std::string::npos) return 2;
    std::string line = text.substr(p, text.find('\n', p) - p);
    size_t pi = 0; if (sscanf(line.c_str(), "prop=C09 pair=%zu", &pi) != 1 || pi >= fc.pairs.size()) return 2;
    if (!fc.pairs[pi].traits) { fprintf(stderr, "pair is ill-formed in this build\n"); return 2; }
    size_t tpos = line.find(" tape=");
    std::string m;
    if (tpos == std::string::npos) {
      // static failure: recompute
      PairTraits t = fc.pairs[pi].traits();
      const TypeOps& A = c.types[fc.by_name[fc.pairs[pi].a]]; const TypeOps& B = c.types[fc.by_name[fc.pairs[pi].b]];
      bool comp = compatible(*A.schema, *B.schema);
      if (!t.aa || !t.bb || t.ab != t.ba || ((t.ab || t.ba) && !comp) || (fc.pairs[pi].expected == 1 && comp && !(t.ab && t.ba)) || t.sig_mismatch > 0 || (t.protocol_admits != 0) != t.ab) m = "static trait check fails";
    } else m = pair_case(fc, pi, tape_parse(line.substr(tpos + 6)));
    if (!m.empty()) { printf("REPLAY-FAIL %s\n", m.c_str()); return 1; }
    printf("REPLAY-PASS\n"); return 0;
  }

  long per_pair = c.args.geti("n", c.thorough ? 5000 : 3000);
  long illformed = 0;
  for (size_t pi = 0; pi < fc.pairs.size(); pi++) {
    if ((int)(pi % (size_t)c.args.nshards) != c.args.shard) continue;
    const PairDef& p = fc.pairs[pi];
    if (!p.traits) { illformed++; c.rep.exclude("pair outside the domain: IsFungible<A,B> is ill-formed (does not compile)"); c.rep.notes[fmt("illformed_pair_%zu", pi)] = std::string(p.a) + " | " + p.b; continue; }
    if (!fc.by_name.count(p.a) || !fc.by_name.count(p.b)) { c.rep.fail("HARNESS: type missing", "", "harness"); continue; }
    const TypeOps& A = c.types[fc.by_name[p.a]]; const TypeOps& B = c.types[fc.by_name[p.b]];
    PairTraits t = p.traits();
    const bool comp = compatible(*A.schema, *B.schema);
    c.rep.evaluations++;
    std::string ctext = fmt("prop=C09 pair=%zu A=%s B=%s", pi, p.a, p.b);
    std::string key = fmt("C09|pair|%s", "");
    std::string stat;
    if (!t.aa) stat = fmt("not-reflexive: IsFungible<A,A> is false for A = %s", p.a);
    else if (!t.bb) stat = fmt("not-reflexive: IsFungible<B,B> is false for B = %s", p.b);
    else if (t.ab != t.ba) stat = fmt("not-symmetric: IsFungible<A,B>=%d but IsFungible<B,A>=%d for A = %s, B = %s", t.ab, t.ba, p.a, p.b);
    else if ((t.ab || t.ba) && !comp) stat = fmt("fungible-but-incompatible: IsFungible is true but the wire formats differ: A = %s (%s), B = %s (%s) [rules %s]", p.a, schema_text(*A.schema).c_str(), p.b, schema_text(*B.schema).c_str(), p.rules);
    else if (p.expected == 1 && comp && !(t.ab && t.ba)) stat = fmt("documented-pair-not-fungible: A = %s, B = %s built by documented rules [%s] evaluates to false", p.a, p.b, p.rules);
    else if (t.sig_mismatch > 0) stat = fmt("signature-trait: IsFungible on function signatures built from A = %s and B = %s disagrees with IsFungible<A,B>=%d / IsFungible<B,A>=%d (forms: 1 void(const A&) 2 int(A&&,int) 4 void(const A&)/void(B) 8 A()/B() 16 A(const B&)/B(const A&) 32 arity 64 reversed 128 fourth-argument 256 third-of-five; mask %d)", p.a, p.b, t.ab, t.ba, t.sig_mismatch);
    else if ((t.protocol_admits != 0) != t.ab) stat = fmt("protocol-admission: IsFungible<A,B>=%d but Protocol<A>::Write/Read %s an argument of type B (A = %s, B = %s)", t.ab, t.protocol_admits ? "admit" : "do not admit", p.a, p.b);
    else if (t.protocol_status > 0) stat = fmt("protocol-write-read-failed: Protocol<A>::Write/Read with B returned an error (%d) for A = %s, B = %s", t.protocol_status, p.a, p.b);
    if (!stat.empty()) { c.rep.fail(stat, ctext, "C09|" + stat.substr(0, stat.find(':')) + "|" + p.rules); continue; }
    c.rep.label(t.ab ? "trait-true" : "trait-false");
    if (t.sig_mismatch == 0) c.rep.label("signature-forms-checked");
    if (p.expected == 1 && !comp) c.rep.exclude("rule composition that is not wire-compatible: no expectation on the trait");
    if (p.expected == 1) c.rep.label("expected-true"); else c.rep.label("near-miss");
    if (std::string(p.a) != p.b && t.ab) c.rep.label("true-and-distinct");
    if (!t.ab) continue;
    TapeRun r = rc_tapes(c.args.seed * 7919ull ^ hash_str(ctext), (int)per_pair, 100, 2.0, [&](const std::vector<uint64_t>& tape) { c.rep.current_case = ctext + " tape=" + tape_text(tape); return pair_case(fc, pi, tape); });
    if (!r.ok) {
      if (r.message.rfind("HARNESS:", 0) == 0) { c.rep.fail(r.message, "", "harness"); continue; }
      c.rep.fail(r.message + fmt(" [rules %s]", p.rules), ctext + " tape=" + tape_text(r.tape), "C09|" + r.message.substr(0, r.message.find(':')) + "|" + p.rules);
    }
    if (c.rep.samples.size() < c.rep.max_samples) c.rep.sample(fmt("A=%s  B=%s  fungible=%d rules=%s", p.a, p.b, t.ab, p.rules));
  }
  c.rep.label("ill-formed-pairs", illformed);
  c.rep.write("done");
  for (auto& f : c.rep.failures) fprintf(stderr, "FAIL %s\n  case: %s\n", f.message.c_str(), f.case_text.c_str());
  return c.rep.ok() ? 0 : 1;
}
