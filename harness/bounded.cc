// C16: BoundedReader / BoundedWriter confine all traffic to their byte limit.
//
// Objects: nop::BoundedReader<vk::LogReader> over a source of `src` bytes (byte i = (i*7+3)&0xff) and
// nop::BoundedWriter<vk::LogWriter> over a sink of capacity `src`; the wrapped object may be smaller or
// larger than the limit and may fail at its j-th call with an arbitrary error code (FaultPlan).
//
// Model (independent of the library): `used <= limit`, the wrapped cursor, the number of wrapped calls.
//   * a call asking for more than limit-used bytes must return Read/WriteLimitReached and must not reach
//     the wrapped object (its call log is unchanged);
//   * every other call reaches the wrapped object exactly once with the same size, its status is returned
//     unchanged, `used` (== size()) advances by the byte count iff the wrapped call succeeded; Ensure and
//     Prepare are forwarded when within the limit and never advance;
//   * data read == source bytes at the wrapped cursor (nothing outside [begin,end) is touched, nothing at
//     all on failure); data written reaches the wrapped writer unchanged;
//   * ReadPadding / WritePadding ask the wrapped object for exactly limit-used bytes (of the requested
//     value) and leave used == limit when that succeeds;
//   * the wrapped cursor never exceeds the limit; capacity() == limit, empty() == (used == limit).
// Sizes are symbolic relative to the remaining budget (r-1, r, r+1, 2^64-r, 2^63, 2^64-1) or absolute.
//
// Drivers: exhaustive sequences (length <=3 quick / <=4 thorough) over a 20-letter alphabet x 4 limits x
// with/without a scripted wrapped failure x both sides; rapidcheck tapes (<=40 ops); --replay.
// `--exclude prepare-overflow` skips (and counts) Prepare(n) calls for which used+n wraps around 2^64.
#include <cinttypes>
#include <cstdio>
#include <cstring>
#include <memory>
#include <set>

#include <nop/utility/bounded_reader.h>
#include <nop/utility/bounded_writer.h>

#include "kit/core.h"
#include "kit/gen.h"
#include "kit/io.h"
#include "kit/rcdrv.h"
#include "kit/report.h"

using namespace vk;

using BR = nop::BoundedReader<LogReader>;
using BW = nop::BoundedWriter<LogWriter>;

// ---- operations -------------------------------------------------------------------------------
enum Kind : uint8_t { K_Ensure, K_One, K_Block, K_Skip, K_Pad };
enum SizeMode : uint8_t { SM_Abs, SM_RemM1, SM_Rem, SM_RemP1, SM_Half, SM_Compl, SM_Max, SM_COUNT };

// Ensure/Prepare: b = size mode, n = absolute size.     One (Read(uint8_t*)/Write(uint8_t)): a = value.
// Block: a = element width (1|2|4|8), n = element count. Skip: b = size mode, n = absolute, a = value.
// Pad (ReadPadding/WritePadding): a = value.   Values are only used on the writer side.
struct Op { uint8_t kind = 0, a = 0, b = 0; uint64_t n = 0; };

struct Case {
  bool writer = false;
  uint64_t limit = 0;
  uint64_t src = 0;        // source size (reader) / sink capacity (writer)
  long fault_at = -1;      // wrapped call index that fails, -1: none
  int fault_err = E_IOError;
  std::vector<Op> ops;
};

static uint64_t resolve(uint8_t mode, uint64_t n, uint64_t rem) {
  switch (mode) {
    case SM_RemM1: return rem - 1;
    case SM_Rem: return rem;
    case SM_RemP1: return rem + 1;
    case SM_Half: return 1ull << 63;
    case SM_Compl: return 0 - rem;
    case SM_Max: return ~0ull;
    default: return n;
  }
}
static std::string size_text(uint8_t mode, uint64_t n) {
  switch (mode) {
    case SM_RemM1: return "r-1";
    case SM_Rem: return "r";
    case SM_RemP1: return "r+1";
    case SM_Half: return "2^63";
    case SM_Compl: return "2^64-r";
    case SM_Max: return "2^64-1";
    default: return std::to_string(n);
  }
}
static bool size_parse(const std::string& s, uint8_t* mode, uint64_t* n) {
  *n = 0;
  for (uint8_t m = 1; m < SM_COUNT; m++) if (s == size_text(m, 0)) { *mode = m; return true; }
  if (s.empty() || s.find_first_not_of("0123456789") != std::string::npos) return false;
  *mode = SM_Abs; *n = strtoull(s.c_str(), nullptr, 10);
  return true;
}

static std::string op_text(const Op& o, bool writer) {
  switch (o.kind) {
    case K_Ensure: return "E:" + size_text(o.b, o.n);
    case K_One: return writer ? "W:" + std::to_string(o.a) : "R";
    case K_Block: return "B:" + std::to_string(o.a) + "x" + std::to_string(o.n);
    case K_Skip: return "S:" + size_text(o.b, o.n) + (writer ? "," + std::to_string(o.a) : "");
    default: return writer ? "P:" + std::to_string(o.a) : "P";
  }
}
static const char* op_call(const Op& o, bool writer) {
  switch (o.kind) {
    case K_Ensure: return writer ? "Prepare" : "Ensure";
    case K_One: return writer ? "Write(uint8_t)" : "Read(uint8_t*)";
    case K_Block: return writer ? "Write(begin,end)" : "Read(begin,end)";
    case K_Skip: return "Skip";
    default: return writer ? "WritePadding" : "ReadPadding";
  }
}
static bool op_parse(const std::string& tok, Op* o) {
  if (tok.empty()) return false;
  *o = Op();
  std::string arg = tok.size() > 2 && tok[1] == ':' ? tok.substr(2) : "";
  if (tok.size() > 1 && tok[1] != ':') return false;
  switch (tok[0]) {
    case 'E': o->kind = K_Ensure; return size_parse(arg, &o->b, &o->n);
    case 'R': case 'W': o->kind = K_One; o->a = (uint8_t)strtoul(arg.c_str(), nullptr, 10); return true;
    case 'B': {
      unsigned w = 0; unsigned long long c = 0;
      if (sscanf(arg.c_str(), "%ux%llu", &w, &c) != 2) return false;
      if ((w != 1 && w != 2 && w != 4 && w != 8) || c > 64) return false;
      o->kind = K_Block; o->a = (uint8_t)w; o->n = c; return true; }
    case 'S': {
      o->kind = K_Skip;
      size_t comma = arg.find(',');
      if (comma != std::string::npos) o->a = (uint8_t)strtoul(arg.c_str() + comma + 1, nullptr, 10);
      return size_parse(arg.substr(0, comma), &o->b, &o->n); }
    case 'P': o->kind = K_Pad; o->a = (uint8_t)strtoul(arg.c_str(), nullptr, 10); return true;
  }
  return false;
}
static std::string ops_text(const Case& c) {
  std::string s;
  for (size_t i = 0; i < c.ops.size(); i++) { if (i) s += ' '; s += op_text(c.ops[i], c.writer); }
  return s;
}
static std::string case_text(const Case& c) {
  char b[160];
  snprintf(b, sizeof b, "prop=C16 side=%c limit=%" PRIu64 " src=%" PRIu64 " fault=%ld:%d ops=", c.writer ? 'w' : 'r', c.limit, c.src, c.fault_at, c.fault_at < 0 ? 0 : c.fault_err);
  return b + ops_text(c);
}
static bool case_parse(const std::string& line, Case* c) {
  char side = 0; uint64_t limit = 0, src = 0; long fa = -1; int fe = 0; int used = 0;
  if (sscanf(line.c_str(), "prop=C16 side=%c limit=%" SCNu64 " src=%" SCNu64 " fault=%ld:%d ops=%n", &side, &limit, &src, &fa, &fe, &used) < 5 || used == 0) return false;
  if (side != 'r' && side != 'w') return false;
  if (src > (1u << 20)) return false;
  if (fa >= 0 && (fe < 1 || fe > 18)) return false;
  *c = Case(); c->writer = side == 'w'; c->limit = limit; c->src = src; c->fault_at = fa < 0 ? -1 : fa; c->fault_err = fa < 0 ? E_IOError : fe;
  std::istringstream is(line.substr((size_t)used));
  std::string tok;
  while (is >> tok) { Op o; if (!op_parse(tok, &o)) return false; c->ops.push_back(o); }
  return true;
}

// ---- execution against the real objects and the model -------------------------------------------
struct Flags { bool on_limit = false, crossing = false, huge = false, wf_script = false, wf_cap = false, padding = false, wf_followed = false, excluded = false; };
static bool nontrivial(const Flags& f) { return (f.on_limit && f.crossing) || f.wf_followed; }

template <typename T>
static int do_read_block(BR& br, size_t count, Bytes& raw) {
  std::vector<T> buf(count + 2);
  std::memset(buf.data(), 0xCD, buf.size() * sizeof(T));
  auto s = br.Read(buf.data() + 1, buf.data() + 1 + count);
  const uint8_t* p = reinterpret_cast<const uint8_t*>(buf.data());
  raw.assign(p, p + buf.size() * sizeof(T));
  return st(s);
}
template <typename T>
static int do_write_block(BW& bw, size_t count, const Bytes& payload) {
  std::vector<T> buf(count + 1);
  if (count) std::memcpy(buf.data(), payload.data(), count * sizeof(T));
  const T* b = buf.data();
  return st(bw.Write(b, b + count));
}

static std::string u64s(uint64_t v) {
  if (v == ~0ull) return "2^64-1";
  if (v == (1ull << 63)) return "2^63";
  if (v > (1ull << 62)) return "2^64-" + std::to_string(0 - v);
  return std::to_string(v);
}

// Returns "" or "<class>: <detail> at step k".
static std::string run_case(const Case& c, Flags& f, Report& rep, bool excl_prepare_overflow) {
  const bool W = c.writer;
  const int lim_err = W ? E_WriteLimitReached : E_ReadLimitReached;
  const char* wname = W ? "writer" : "reader";

  std::unique_ptr<uint8_t[]> src;
  LogReader lr; LogWriter lw;
  if (!W) {
    src.reset(new uint8_t[c.src]);   // exactly src bytes: ASan sees any over-read
    for (uint64_t i = 0; i < c.src; i++) src[i] = (uint8_t)((i * 7 + 3) & 0xff);
    lr.data = src.get(); lr.n = (size_t)c.src; lr.fault.fail_at = c.fault_at; lr.fault.err = c.fault_err;
  } else {
    lw.cap = (size_t)c.src; lw.fault.fail_at = c.fault_at; lw.fault.err = c.fault_err;
  }
  BR br(&lr, (size_t)c.limit);
  BW bw(&lw, (size_t)c.limit);
  const std::vector<CallRec>& log = W ? lw.log : lr.log;

  // the model
  uint64_t used = 0, wpos = 0;
  long wcalls = 0;
  Bytes mout;
  bool failure_seen = false;

  auto at = [&](size_t i, const std::string& cls, const std::string& detail) {
    return cls + ": " + detail + " at step " + std::to_string(i) + " (" + op_text(c.ops[i], W) + ", used=" + u64s(used) + " of limit " + u64s(c.limit) + ")";
  };
  auto observers = [&](size_t i) -> std::string {
    const uint64_t size = W ? bw.size() : br.size(), cap = W ? bw.capacity() : br.capacity();
    if (size != used) return at(i, "wrong-count", "size() is " + u64s(size) + ", the model counted " + u64s(used));
    if (cap != c.limit) return at(i, "observer", "capacity() is " + u64s(cap));
    if (!W && br.empty() != (used == c.limit)) return at(i, "observer", std::string("empty() is ") + (br.empty() ? "true" : "false"));
    return "";
  };
  {
    const uint64_t size = W ? bw.size() : br.size();
    if (size != 0) return "wrong-count: size() is " + u64s(size) + " right after construction at step 0";
  }

  for (size_t i = 0; i < c.ops.size(); i++) {
    const Op& op = c.ops[i];
    const uint64_t rem = c.limit - used;
    if (failure_seen) f.wf_followed = true;
    uint64_t bytes = 0; bool one = false; uint8_t ck = 0;
    switch (op.kind) {
      case K_Ensure: bytes = resolve(op.b, op.n, rem); ck = W ? CK_Prepare : CK_Ensure; break;
      case K_One: bytes = 1; one = true; ck = W ? CK_Write1 : CK_Read1; break;
      case K_Block: bytes = (uint64_t)op.a * op.n; ck = W ? CK_WriteN : CK_ReadN; break;
      case K_Skip: bytes = resolve(op.b, op.n, rem); ck = W ? CK_SkipW : CK_SkipR; break;
      default: bytes = rem; ck = W ? CK_SkipW : CK_SkipR; f.padding = true; break;
    }
    if (excl_prepare_overflow && W && op.kind == K_Ensure && bytes > ~0ull - used) { rep.exclude("prepare-overflow"); f.excluded = true; continue; }
    if (bytes >= (1ull << 32)) f.huge = true;

    // what the model expects
    const bool cross = op.kind != K_Pad && bytes > rem;
    int exp_status = 0; uint64_t adv = 0; bool scripted = false;
    if (cross) { exp_status = lim_err; f.crossing = true; }
    else {
      const long idx = wcalls++;
      if (idx == c.fault_at) { exp_status = c.fault_err; scripted = true; }
      else if (one ? wpos >= c.src : bytes > c.src - wpos) exp_status = lim_err;
      if (exp_status == 0 && op.kind != K_Ensure) adv = bytes;
      if (exp_status == 0 && bytes == rem && rem > 0) f.on_limit = true;
      if (exp_status != 0) { (scripted ? f.wf_script : f.wf_cap) = true; failure_seen = true; }
    }

    // the real call
    rep.current_detail = std::string(op_call(op, W)) + " at step " + std::to_string(i);
    const size_t log_before = log.size();
    int got = 0;
    uint8_t rbyte = 0xA5; Bytes raw, payload;
    if (!W) {
      switch (op.kind) {
        case K_Ensure: got = st(br.Ensure((size_t)bytes)); break;
        case K_One: got = st(br.Read(&rbyte)); break;
        case K_Block:
          switch (op.a) {
            case 1: got = do_read_block<uint8_t>(br, (size_t)op.n, raw); break;
            case 2: got = do_read_block<uint16_t>(br, (size_t)op.n, raw); break;
            case 4: got = do_read_block<uint32_t>(br, (size_t)op.n, raw); break;
            default: got = do_read_block<uint64_t>(br, (size_t)op.n, raw); break;
          }
          break;
        case K_Skip: got = st(br.Skip((size_t)bytes)); break;
        default: got = st(br.ReadPadding()); break;
      }
    } else {
      switch (op.kind) {
        case K_Ensure: got = st(bw.Prepare((size_t)bytes)); break;
        case K_One: got = st(bw.Write(op.a)); payload.assign(1, op.a); break;
        case K_Block:
          payload.resize((size_t)bytes);
          for (size_t k = 0; k < payload.size(); k++) payload[k] = (uint8_t)(i * 31 + k * 13 + 5);
          switch (op.a) {
            case 1: got = do_write_block<uint8_t>(bw, (size_t)op.n, payload); break;
            case 2: got = do_write_block<uint16_t>(bw, (size_t)op.n, payload); break;
            case 4: got = do_write_block<uint32_t>(bw, (size_t)op.n, payload); break;
            default: got = do_write_block<uint64_t>(bw, (size_t)op.n, payload); break;
          }
          break;
        case K_Skip: got = st(bw.Skip((size_t)bytes, op.a)); if (adv) payload.assign((size_t)adv, op.a); break;
        default: got = st(bw.WritePadding(op.a)); if (adv) payload.assign((size_t)adv, op.a); break;
      }
    }

    // 1. traffic to the wrapped object
    const size_t grew = log.size() - log_before;
    if (cross && grew != 0)
      return at(i, "wrapped-touched", std::string(op_call(op, W)) + "(" + u64s(bytes) + ") exceeds the remaining budget " + u64s(rem) + " but reached the wrapped " + wname + " as " + call_name(log.back().kind) + "(" + u64s(log.back().size) + ")" + (got == lim_err ? "" : std::string(" and returned ") + err_name(got)));
    if (!cross && grew == 0)
      return at(i, "not-forwarded", std::string(op_call(op, W)) + "(" + u64s(bytes) + ") is within the remaining budget " + u64s(rem) + " but the wrapped " + wname + " was not called (returned " + err_name(got) + ")");
    if (grew > 1) return at(i, "multi-forward", std::to_string(grew) + " wrapped calls for one " + op_call(op, W));
    if (!cross && (log.back().kind != ck || log.back().size != bytes))
      return at(i, "wrong-forward", std::string("wrapped ") + wname + " saw " + call_name(log.back().kind) + "(" + u64s(log.back().size) + "), expected " + call_name(ck) + "(" + u64s(bytes) + ")");
    // 2. status
    if (got != exp_status)
      return at(i, "wrong-status", std::string(op_call(op, W)) + "(" + u64s(bytes) + ") returned " + err_name(got) + ", expected " + err_name(exp_status) + (cross ? " (over the limit)" : scripted ? " (scripted wrapped failure)" : " (status of the wrapped call)"));

    // 3. data (before the model advances: wpos is the cursor the call started from)
    if (!W) {
      if (op.kind == K_One) {
        if (exp_status == 0 && rbyte != src[wpos]) return at(i, "wrong-data", "read byte " + std::to_string(rbyte) + ", source byte at " + u64s(wpos) + " is " + std::to_string(src[wpos]));
        if (exp_status != 0 && rbyte != 0xA5) return at(i, "wrong-data", "destination byte modified by a failing Read");
      } else if (op.kind == K_Block) {
        const size_t w = op.a, nb = (size_t)bytes;
        for (size_t k = 0; k < raw.size(); k++) {
          const bool inside = k >= w && k < w + nb;
          const uint8_t want = (inside && exp_status == 0) ? src[wpos + (k - w)] : 0xCD;
          if (raw[k] != want) return at(i, "wrong-data", std::string(inside ? "payload" : "guard") + " byte " + std::to_string((long)k - (long)w) + " of the destination is " + std::to_string(raw[k]) + ", expected " + std::to_string(want));
        }
      }
    }
    used += adv; wpos += adv;
    if (W) {
      if (adv) mout.insert(mout.end(), payload.begin(), payload.begin() + (std::ptrdiff_t)adv);
      if (lw.out.size() != wpos) return at(i, "wrapped-cursor", "wrapped writer holds " + u64s(lw.out.size()) + " bytes, expected " + u64s(wpos));
      for (uint64_t k = wpos - adv; k < wpos; k++)
        if (lw.out[(size_t)k] != mout[(size_t)k]) return at(i, "wrong-data", "output byte " + u64s(k) + " is " + std::to_string(lw.out[(size_t)k]) + ", expected " + std::to_string(mout[(size_t)k]));
    } else {
      if (lr.pos != wpos) return at(i, "wrapped-cursor", "wrapped reader is at " + u64s(lr.pos) + ", expected " + u64s(wpos));
    }
    // 4. confinement and observers
    const uint64_t moved = W ? lw.out.size() : lr.pos;
    if (moved > c.limit) return at(i, "over-limit", u64s(moved) + " bytes went through the wrapped " + wname);
    if (op.kind == K_Pad && exp_status == 0 && moved != c.limit) return at(i, "padding", "wrapped cursor at " + u64s(moved) + " after padding");
    if (used > c.limit) return at(i, "HARNESS", "model exceeded the limit");
    std::string m = observers(i);
    if (!m.empty()) return m;
  }
  if (W && lw.out != mout) return "wrong-data: final output differs from the model at step " + std::to_string(c.ops.size());
  return "";
}

// ---- generation -------------------------------------------------------------------------------------
static void decode_size(Tape& t, Op* o) {
  switch (t.below(11)) {
    case 0: o->b = SM_Abs; o->n = t.below(17); break;
    case 1: o->b = SM_Rem; break;
    case 2: o->b = SM_RemP1; break;
    case 3: o->b = SM_RemM1; break;
    case 4: o->b = SM_Abs; o->n = 0; break;
    case 5: o->b = SM_Abs; o->n = 1; break;
    case 6: o->b = SM_Half; break;
    case 7: o->b = SM_Compl; break;
    case 8: o->b = SM_Max; break;
    case 9: o->b = SM_Abs; o->n = t.next(); break;
    default: o->b = SM_Abs; o->n = t.below(80); break;
  }
}
static Op decode_op(Tape& t, bool writer) {
  Op o;
  const uint64_t k = t.below(12);
  if (k <= 1) { o.kind = K_One; if (writer) o.a = (uint8_t)t.next(); }
  else if (k <= 4) { o.kind = K_Block; o.a = (uint8_t)(1u << t.below(4)); o.n = t.below(10); }
  else if (k <= 7) { o.kind = K_Skip; decode_size(t, &o); if (writer) o.a = (uint8_t)t.next(); }
  else if (k <= 10) { o.kind = K_Ensure; decode_size(t, &o); }
  else { o.kind = K_Pad; if (writer) o.a = (uint8_t)t.next(); }
  return o;
}
static Case decode_case(Tape& t, bool writer) {
  static const uint64_t fixed[] = {0, 1, 2, 7, 8, 64, ~0ull};
  Case c; c.writer = writer;
  const uint64_t li = t.below(10);
  c.limit = li < 7 ? fixed[li] : li == 7 ? 3 + t.below(30) : li == 8 ? t.below(400) : t.next();
  uint64_t s = 0;
  switch (t.below(8)) {
    case 0: s = c.limit + 3; break;
    case 1: s = c.limit; break;
    case 2: s = c.limit + 1; break;
    case 3: s = c.limit - 1; break;
    case 4: s = 0; break;
    case 5: s = 1; break;
    case 6: s = t.below(100); break;
    default: s = t.below(3000); break;
  }
  c.src = std::min<uint64_t>(s, 4096);
  if (t.below(2)) { c.fault_at = (long)t.below(12); c.fault_err = 1 + (int)t.below(18); }
  while (!t.exhausted() && c.ops.size() < 40) c.ops.push_back(decode_op(t, writer));
  return c;
}

static std::vector<Op> alphabet(bool writer) {
  const char* r[] = {"E:0", "E:r", "E:r+1", "E:2^64-r", "E:2^64-1", "R", "B:1x0", "B:1x1", "B:2x1", "B:4x1", "B:8x1", "B:1x3",
                     "S:0", "S:1", "S:r-1", "S:r", "S:r+1", "S:2^63", "S:2^64-1", "P"};
  const char* w[] = {"E:0", "E:r", "E:r+1", "E:2^64-r", "E:2^64-1", "W:90", "B:1x0", "B:1x1", "B:2x1", "B:4x1", "B:8x1", "B:1x3",
                     "S:0,17", "S:1,167", "S:r-1,33", "S:r,201", "S:r+1,7", "S:2^63,9", "S:2^64-1,11", "P:195"};
  std::vector<Op> a;
  for (int i = 0; i < 20; i++) { Op o; if (!op_parse(writer ? w[i] : r[i], &o)) abort(); a.push_back(o); }
  return a;
}

static std::string class_of(const std::string& m) { size_t p = m.find(':'); return p == std::string::npos ? m : m.substr(0, p); }

int main(int argc, char** argv) {
  Args a = Args::parse(argc, argv);
  Report rep; rep.property = "C16"; rep.tier = a.tier; rep.seed = a.seed; rep.out_path = a.out; rep.unit = a.unit.empty() ? "bounded" : a.unit;
  install_report(&rep);
  const bool thorough = a.tier == "thorough";
  const std::string excl_arg = a.get("exclude");
  if (!excl_arg.empty() && excl_arg != "prepare-overflow") { fprintf(stderr, "unknown --exclude %s\n", excl_arg.c_str()); return 2; }
  const bool excl = excl_arg == "prepare-overflow";
  if (excl) rep.notes["exclude"] = "prepare-overflow: Prepare(n) with used+n >= 2^64 is skipped";

  if (!a.replay.empty()) {
    FILE* fp = fopen(a.replay.c_str(), "r"); if (!fp) return 2;
    char line[16384]; std::string text;
    while (fgets(line, sizeof line, fp)) if (line[0] != '#' && line[0] != '\n') text = line;
    fclose(fp);
    while (!text.empty() && (text.back() == '\n' || text.back() == '\r' || text.back() == ' ')) text.pop_back();
    Case c;
    if (!case_parse(text, &c)) { fprintf(stderr, "bad replay file\n"); return 2; }
    Flags f; rep.current_case = case_text(c);
    std::string m = run_case(c, f, rep, excl);
    if (!m.empty()) { printf("REPLAY-FAIL %s\n", m.c_str()); return 1; }
    printf("REPLAY-PASS\n"); return 0;
  }

  std::set<std::string> seen_keys;
  auto record = [&](const std::string& m, const Case& c) {
    std::string key = std::string("C16|") + (c.writer ? "BoundedWriter" : "BoundedReader") + "|" + class_of(m);
    if (seen_keys.insert(key).second) rep.fail(m, case_text(c), key);
  };
  long sampled_exh = 0;
  auto account = [&](const Flags& f, const std::string& text, bool random) {
    if (f.on_limit) rep.label("exactly-on-limit");
    if (f.crossing) rep.label("crossing");
    if (f.huge) rep.label("huge-n");
    if (f.wf_script) rep.label("wrapped-failure:scripted");
    if (f.wf_cap) rep.label("wrapped-failure:capacity");
    if (f.wf_script || f.wf_cap) rep.label("wrapped-failure");
    if (f.wf_followed) rep.label("wrapped-failure-then-more-calls");
    if (f.padding) rep.label("padding");
    if (nontrivial(f)) { rep.nontriv(hash_str(text)); rep.label(random ? "non-trivial:random" : "non-trivial:exhaustive"); if (random ? (f.on_limit && f.crossing && f.wf_followed && rep.samples.size() < (text.find("side=w") != std::string::npos ? 8u : 5u)) : (sampled_exh++ % 9973 == 0 && rep.samples.size() < 2)) rep.sample(text); }
  };

  // (a) bounded-exhaustive enumeration
  {
    const size_t L = thorough ? 4 : 3;
    const uint64_t limits[4] = {0, 2, 8, ~0ull};
    int cfg = 0; long seqs = 0;
    for (int side = 0; side < 2; side++) {
      const std::vector<Op> alpha = alphabet(side == 1);
      for (uint64_t limit : limits)
        for (int with_fault = 0; with_fault < 2; with_fault++, cfg++) {
          if (cfg % a.nshards != a.shard) continue;
          Case c; c.writer = side == 1; c.limit = limit; c.src = limit == ~0ull ? 16 : limit + 3;
          if (with_fault) { c.fault_at = 1; c.fault_err = E_IOError; }
          bool failed = false;
          for (size_t len = 1; len <= L && !failed; len++) {
            std::vector<size_t> idx(len, 0);
            for (;;) {
              c.ops.clear();
              for (size_t k = 0; k < len; k++) c.ops.push_back(alpha[idx[k]]);
              std::string text = case_text(c);
              rep.current_case = text; rep.evaluations++; seqs++;
              Flags f;
              std::string m = run_case(c, f, rep, excl);
              if (!m.empty()) { record(m, c); failed = true; break; }
              account(f, text, false);
              size_t k = len;
              while (k > 0 && ++idx[k - 1] == alpha.size()) idx[--k] = 0;
              if (k == 0) break;
            }
          }
        }
    }
    rep.label(std::string("exhaustive:len<=") + std::to_string(L) + ":alphabet20:limits{0,2,8,2^64-1}:fault{none,1}", seqs);
  }

  // (b) random sequences (rapidcheck tapes), one run per side so that one side cannot mask the other
  {
    const long total = (thorough ? 500000 : 20000) * a.scale / a.nshards;
    for (int side = 0; side < 2; side++) {
      const bool writer = side == 1;
      const uint64_t seed = (a.seed * 0x100000001b3ull) ^ hash_str(writer ? "C16/w" : "C16/r") ^ ((uint64_t)a.shard << 40);
      TapeRun r = rc_tapes(seed, (int)(total / 2), 100, 2.0, [&](const std::vector<uint64_t>& tape) {
        Tape t(tape);
        Case c = decode_case(t, writer);
        std::string text = case_text(c);
        rep.current_case = text; rep.evaluations++;
        Flags f;
        std::string m = run_case(c, f, rep, excl);
        if (m.empty()) account(f, text, true);
        return m;
      });
      if (!r.ok) {
        if (r.message.rfind("HARNESS:", 0) == 0) { rep.notes["harness_error"] = r.message; rep.fail(r.message, "", "harness"); continue; }
        Tape t(r.tape);
        Case c = decode_case(t, writer);
        record(r.message, c);
        // record() drops a class already reported by the exhaustive pass; keep the shrunk random case as a note
        rep.notes[std::string("random-failure:") + (writer ? "w" : "r")] = r.message + " | " + case_text(c);
      }
      rep.label(std::string("random<=40ops:") + (writer ? "writer" : "reader"), r.successes);
    }
  }

  rep.exhaustive = false;
  rep.write("done");
  for (auto& f : rep.failures) fprintf(stderr, "FAIL %s\n  case: %s\n", f.message.c_str(), f.case_text.c_str());
  return rep.ok() ? 0 : 1;
}
