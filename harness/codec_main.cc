// Driver of the codec-family harness. One binary per type shard; --prop selects the property.
#include "harness/codec.h"
#include <cstdio>

using namespace vk;

int main(int argc, char** argv) {
  Ctx c;
  c.args = Args::parse(argc, argv);
  c.types = shard_types();
  c.rep.property = c.args.prop; c.rep.tier = c.args.tier; c.rep.seed = c.args.seed; c.rep.out_path = c.args.out;
  c.rep.unit = c.args.unit.empty() ? "codec" : c.args.unit;
  c.thorough = c.args.tier == "thorough";
  install_report(&c.rep);
  if (c.args.get("list") == "1") { for (auto& t : c.types) printf("%s\t%s\n", t.name.c_str(), schema_text(*t.schema).c_str()); return 0; }

  struct PropDef { const char* id; Body body; long quick_n; long thorough_n; bool variants; void (*extra)(Ctx&); };
  std::vector<PropDef> defs = {
      {"C01", body_C01, 600, 6000, true, nullptr},
      {"C03", body_C03, 1500, 15000, true, extra_C03},
      {"C05", body_C05, 40, 1000, true, nullptr},
      {"C06", body_C06, 300, 3000, true, nullptr},
      {"C10", body_C10, 100, 1000, true, nullptr},
      {"C11", body_C11, 1500, 20000, true, nullptr},
      {"C02", body_C02, 1200, 8000, true, nullptr},
      {"C04", body_C04, 500, 8000, true, extra_C04},
      {"C15", body_C15, 3000, 30000, true, nullptr},
  };
  const PropDef* d = nullptr;
  for (auto& x : defs) if (c.args.prop == x.id) d = &x;
  if (!d) { fprintf(stderr, "unknown --prop\n"); return 2; }
  c.n_random = c.args.geti("n", c.thorough ? d->thorough_n : d->quick_n);
  c.cfg.big = c.thorough;
  if (c.thorough) { c.cfg.budget = 1200; c.cfg.max_len = 40; c.scale = 4.0; }

  if (!c.args.replay.empty()) {
    FILE* f = fopen(c.args.replay.c_str(), "r");
    if (!f) { fprintf(stderr, "cannot open replay file\n"); return 2; }
    std::string text; char buf[4096]; size_t n;
    while ((n = fread(buf, 1, sizeof buf, f)) > 0) text.append(buf, n);
    fclose(f);
    size_t p = text.find("prop=");
    if (p == std::string::npos) { fprintf(stderr, "no case in replay file\n"); return 2; }
    std::string line = text.substr(p, text.find('\n', p) - p);
    std::string m = replay_case(c, line, d->body);
    if (m.rfind("REPLAY:", 0) == 0) { fprintf(stderr, "%s\n", m.c_str()); return 2; }
    if (!m.empty()) { printf("REPLAY-FAIL %s\n", m.c_str()); c.rep.fail(m, line, "replay"); c.rep.write("done"); return 1; }
    printf("REPLAY-PASS\n"); c.rep.write("done");
    return 0;
  }

  if (d->extra) d->extra(c);
  if (c.rep.ok()) run_per_type(c, d->body, d->variants);
  c.rep.write("done");
  for (auto& f : c.rep.failures) fprintf(stderr, "FAIL %s\n  case: %s\n", f.message.c_str(), f.case_text.c_str());
  return c.rep.ok() ? 0 : 1;
}
