// Property bodies C01 C03 C05 C06 C10 (valid-value side of the codec family).
#include "harness/codec.h"
#include <csignal>
#include <climits>
#include <cstdarg>
#include <thread>
#include <sched.h>
#include <sys/ioctl.h>

namespace vk {

static std::string fmt(const char* f, ...) __attribute__((format(printf, 1, 2)));
static std::string fmt(const char* f, ...) {
  char b[1024]; va_list ap; va_start(ap, f); vsnprintf(b, sizeof b, f, ap); va_end(ap); return b;
}
static uint64_t case_hash(const TypeOps& t, const Value& v, uint64_t extra = 0) {
  return hash_str(t.name) * 31 + hash_str(to_text(*t.schema, v)) + extra * 0x9e3779b97f4a7c15ull;
}

// Makes a value whose logical-buffer size member is out of range (above capacity or negative).
// Returns false when the schema has no bounded logical buffer on a path that is always encoded.
bool break_lbuf(const Schema& s, Value& v, Tape& t) {
  switch (s.k) {
    case K::Bin: case K::Seq:
      if (s.maxc >= 0 && !s.unbounded) {
        long cap_max = s.size_bits >= 63 ? LONG_MAX : (s.size_sgn ? (1l << (s.size_bits - 1)) - 1 : (1l << s.size_bits) - 1);
        bool neg = s.size_sgn && t.below(2);
        if (neg) { v.tag = -(int)(1 + t.below(100)); if (s.size_bits == 8 && v.tag < -128) v.tag = -128; return true; }
        long n = s.maxc + 1 + (long)t.below(3);
        if (n > cap_max) return false;   // size member cannot express an over-capacity count
        v.tag = (int)n; return true;
      }
      if (s.k == K::Seq) for (auto& e : v.kids) if (break_lbuf(*s.kids[0], e, t)) return true;
      return false;
    case K::Tup: case K::Stu:
      for (size_t i = 0; i < s.kids.size(); i++) if (break_lbuf(*s.kids[i], v.kids[i], t)) return true;
      return false;
    case K::Opt: return v.tag ? break_lbuf(*s.kids[0], v.kids[0], t) : false;
    case K::Res: return v.tag == 2 ? break_lbuf(*s.kids[0], v.kids[0], t) : false;
    case K::Var: return v.tag >= 0 ? break_lbuf(*s.kids[v.tag], v.kids[0], t) : false;
    case K::Map: for (size_t i = 1; i < v.kids.size(); i += 2) if (break_lbuf(*s.kids[1], v.kids[i], t)) return true; return false;
    case K::Tab: for (size_t i = 0; i < s.entries.size(); i++) if (s.entries[i].active && v.kids[i].tag && break_lbuf(*s.entries[i].type, v.kids[i].kids[0], t)) return true; return false;
    default: return false;
  }
}

// ------------------------------------------------------------------------------------------------
// C01: round trip, exact consumption, every writer x reader pairing, several values per stream.
std::string body_C01(Ctx& c, CaseIn& in) {
  // growable byte / integral sequences: whenever the empty value comes up, a payload larger than a stream buffer
  // (20-33 KB) makes the round trip too (file streams refill piecewise; fd readers read in pieces)
  if ((in.t->schema->k == K::Bin || in.t->schema->k == K::Str) && in.t->schema->fixed < 0 && in.t->schema->maxc < 0 && in.v.bytes.empty() && !in.nested) {
    CaseIn big = in; big.nested = true;
    const size_t es = in.t->schema->bits / 8;
    lcg_fill(big.v.bytes, (size_t)(20000 + in.rest->below(13000)) / es * es, 91);
    std::string m = body_C01(c, big);
    if (!m.empty()) return m;
    c.rep.label("large-payload-round-trip");
  }
  FormGuard form_guard(in); c.rep.label(std::string("form:") + FormGuard::name());
  Tape& tp = *in.rest;
  // The stream: the case's own (type, value) first, then 0..3 further values of shard types.
  struct Item { const TypeOps* t; Value v; std::unique_ptr<Obj> o; Value expect; };
  std::vector<Item> items;
  items.push_back({in.t, in.v, nullptr, Value()});
  size_t extra = (size_t)tp.below(4);
  for (size_t i = 0; i < extra; i++) {
    const TypeOps& t2 = c.types[tp.below(c.types.size())];
    GenCfg small = c.cfg; small.budget = 60;
    items.push_back({&t2, gen_value(*t2.schema, tp, small), nullptr, Value()});
  }
  size_t total = 0; bool any_handle = false, nontrivial = items.size() >= 2;
  for (auto& it : items) {
    it.o = it.t->make(); it.o->assign(it.v); it.expect = it.o->get();
    total += it.o->get_size();
    any_handle |= it.t->has_handle;
    Shape sh = shape_of(*it.t->schema, it.expect);
    nontrivial |= sh.nonfix_int || sh.nonempty_container;
  }
  auto sup_w = [&](int k) { for (auto& it : items) if (!it.t->supports_writer(k)) return false; return true; };
  auto sup_r = [&](int k) { for (auto& it : items) if (!it.t->supports_reader(k)) return false; return true; };
  std::vector<int> ws, rs;
  for (int k = 0; k < W_COUNT; k++) if (sup_w(k)) ws.push_back(k);
  for (int k = 0; k < R_COUNT; k++) if (sup_r(k)) rs.push_back(k);
  // Pairings: everything for small must-hit cases, a sampled subset otherwise.
  std::vector<std::pair<int, int>> pairs;
  bool all_pairs = in.src[0] == 'v' && total <= 300;
  if (all_pairs) { for (int w : ws) for (int r : rs) pairs.push_back({w, r}); }
  else {
    pairs.push_back({ws[0], rs[0]});
    for (int i = 0; i < 3; i++) pairs.push_back({ws[tp.below(ws.size())], rs[tp.below(rs.size())]});
  }
  std::vector<int64_t> refs;
  if (any_handle) { size_t nh = 0; for (auto& it : items) { std::vector<const Value*> hs; collect_handles(*it.t->schema, it.expect, hs); nh += hs.size(); } refs = gen_refs(tp, nh); }

  Bytes first_bytes; bool have_first = false; int first_w = -1;
  std::map<int, std::pair<Bytes, std::vector<size_t>>> written;   // per writer kind: bytes, positions
  std::map<int, std::vector<PushRec>> pushed_by_w;
  for (auto& pr : pairs) {
    int wk = pr.first, rk = pr.second;
    if ((wk == W_Fd || rk == R_Fd) && total > 2048) continue;
    if (!written.count(wk)) {
      WriterBox w; w.open(wk, total, wk_bounded(wk) ? total : SIZE_MAX);
      if (wk == W_Log || wk == W_BLog) w.log.refs_to_return = refs;
      std::vector<size_t> pos;
      for (size_t i = 0; i < items.size(); i++) {
        int s = items[i].o->write(w);
        if (s != 0) return fmt("write-failed: value %zu via %s returned %s", i, wk_name(wk), err_name(s));
        pos.push_back(w.position());
        if (wk_bounded(wk) && w.bounded_count() != w.position()) return fmt("bounded-count: %s counted %zu but %zu bytes were produced", wk_name(wk), w.bounded_count(), w.position());
      }
      Bytes b = w.bytes();
      if (b.size() != pos.back()) return fmt("writer-position: %s reports %zu bytes, produced %zu", wk_name(wk), pos.back(), b.size());
      if (!have_first) { first_bytes = b; have_first = true; first_w = wk; }
      else if (b != first_bytes) {
        // handle-bearing streams contain writer-assigned references; same refs are used for all
        return fmt("writers-differ: %s and %s produced different bytes (%s vs %s)", wk_name(first_w), wk_name(wk), hex(first_bytes).substr(0, 80).c_str(), hex(b).substr(0, 80).c_str());
      }
      pushed_by_w[wk] = w.log.pushed;
      written[wk] = {b, pos};
      c.rep.label(std::string("writer:") + wk_name(wk));
    }
    const Bytes& bytes = written[wk].first;
    const std::vector<size_t>& pos = written[wk].second;
    ReaderBox r; r.open(rk, bytes, bytes.size());
    if (rk == R_Log || rk == R_BLog) load_handles(r.log, pushed_by_w[wk]);
    for (size_t i = 0; i < items.size(); i++) {
      auto o2 = items[i].t->make();
      int s = o2->read(r);
      if (s != 0) return fmt("read-failed: value %zu written by %s, read by %s: %s", i, wk_name(wk), rk_name(rk), err_name(s));
      Value got = o2->get();
      if (!value_equal(*items[i].t->schema, got, items[i].expect))
        return fmt("value-differs: value %zu (%s) written by %s read by %s: got %s want %s", i, items[i].t->name.c_str(), wk_name(wk), rk_name(rk),
                   to_text(*items[i].t->schema, got).c_str(), to_text(*items[i].t->schema, items[i].expect).c_str());
      if (r.position() != pos[i]) return fmt("position: after value %zu reader %s is at %zu, writer %s was at %zu", i, rk_name(rk), r.position(), wk_name(wk), pos[i]);
      if (rk_bounded(rk) && r.bounded_count() != pos[i]) return fmt("bounded-count: %s counted %zu, expected %zu", rk_name(rk), r.bounded_count(), pos[i]);
    }
    if (r.position() != bytes.size()) return fmt("leftover: reader %s at %zu of %zu", rk_name(rk), r.position(), bytes.size());
    c.rep.label(std::string("reader:") + rk_name(rk));
    c.rep.label("pairings");
  }
  // FdReader over a PIPE that delivers the stream in two bursts: a short read(2) must not be taken for a
  // complete block. (The oracle is schedule independent: whatever the timing, the values must come back.)
  if (have_first && sup_r(R_Fd) && first_bytes.size() >= 2 && first_bytes.size() <= 4096 && tp.below(4) == 0) {
    int fds[2];
    static const bool sigpipe_ignored = (signal(SIGPIPE, SIG_IGN), true); (void)sigpipe_ignored;   // a reader that gives up early must not kill the feeder
    if (pipe(fds) == 0) {
      const size_t split = 1 + (size_t)tp.below(first_bytes.size() - 1);
      const Bytes data = first_bytes;
      std::thread feeder([fd = fds[1], rfd = fds[0], data, split] {
        size_t off = 0;
        while (off < split) { ssize_t w = ::write(fd, data.data() + off, split - off); if (w <= 0) break; off += (size_t)w; }
        // second burst only after the reader has drained the first one (so a reader that issues one
        // large read(2) deterministically gets a short count)
        for (int spins = 0; spins < 2000000; spins++) { int avail = 0; if (ioctl(rfd, FIONREAD, &avail) != 0 || avail == 0) break; sched_yield(); }
        usleep(200);
        while (off < data.size()) { ssize_t w = ::write(fd, data.data() + off, data.size() - off); if (w <= 0) break; off += (size_t)w; }
        ::close(fd);
      });
      std::string verdict;
      {
        ReaderBox r; r.open_fd(fds[0]);
        for (size_t i = 0; i < items.size() && verdict.empty(); i++) {
          auto o2 = items[i].t->make();
          int s = o2->read(r);
          if (s != 0) verdict = fmt("read-failed: value %zu read by FdReader from a pipe fed in two bursts (%zu + %zu bytes): %s", i, split, data.size() - split, err_name(s));
          else if (!value_equal(*items[i].t->schema, o2->get(), items[i].expect)) verdict = fmt("value-differs: value %zu read by FdReader from a pipe fed in two bursts (%zu + %zu bytes): got %s want %s", i, split, data.size() - split, to_text(*items[i].t->schema, o2->get()).c_str(), to_text(*items[i].t->schema, items[i].expect).c_str());
        }
      }
      feeder.join();
      c.rep.label("reader:FdReader-over-pipe-two-bursts");
      if (!verdict.empty()) return verdict;
    }
  }
  if (nontrivial) c.rep.nontriv(case_hash(*in.t, items[0].expect, items.size()));
  if (items.size() >= 2) c.rep.label("multi-value-stream");
  c.rep.sample(in.t->name + " " + to_text(*in.t->schema, items[0].expect) + (items.size() > 1 ? fmt(" (+%zu more values)", items.size() - 1) : ""));

  // Sub-check: a logical buffer whose size member is above capacity or negative must be rejected by Write.
  {
    Value bad = in.v;
    if (break_lbuf(*in.t->schema, bad, tp)) {
      auto o = in.t->make(); o->assign(bad);
      Written w = write_with(*o, in.t->has_handle ? W_Log : W_Ped, 1 << 20);
      c.rep.label("lbuf-overflow-write");
      if (w.status == 0) return fmt("lbuf-accepted: Write succeeded for a logical buffer whose size member is out of range (%zu bytes written)", w.bytes.size());
    }
  }
  return "";
}

// ------------------------------------------------------------------------------------------------
// C03: the encoder emits exactly the documented bytes.
std::string body_C03(Ctx& c, CaseIn& in) {
  const TypeOps& t = *in.t;
  Tape& tp = *in.rest;
  auto o = t.make(); o->assign(in.v);
  Value actual = o->get();   // unordered_map: the container's own iteration order
  std::vector<int64_t> refs; if (t.has_handle) { std::vector<const Value*> hs0; collect_handles(*t.schema, actual, hs0); refs = gen_refs(tp, hs0.size()); }
  Written w1 = lib_encode(t, *o, &refs);
  if (w1.status != 0) return fmt("write-failed: %s", err_name(w1.status));
  EncodeOpts eo;
  if (t.has_handle) {
    // the reference encoder is told which reference the writer handed out for the i-th handle
    std::vector<const Value*> hs; collect_handles(*t.schema, actual, hs);
    eo.has_refs = true;
    for (size_t i = 0; i < hs.size(); i++) eo.refs.push_back(i < refs.size() ? refs[i] : (int64_t)i);
  }
  Encoded ref = ref_encode(*t.schema, actual, eo);
  size_t diff = 0;
  if (!bytes_equal_mod_padding(w1.bytes, ref, &diff))
    return fmt("bytes-differ: at offset %zu: lib %s ref %s", diff, hex(w1.bytes).substr(0, 160).c_str(), hex(ref.bytes).substr(0, 160).c_str());
  Written w2 = lib_encode(t, *o, &refs);
  if (w2.status != 0 || w2.bytes != w1.bytes) return fmt("nondeterministic: second write of the same object differs");
  Shape sh = shape_of(*t.schema, actual);
  if (sh.nonfix_int || sh.omitted_entry) c.rep.nontriv(case_hash(t, actual));
  if (sh.nonfix_int) c.rep.label("nonfix-int");
  if (sh.omitted_entry) c.rep.label("omitted-entry");
  if (sh.len_class) c.rep.label(fmt("len-class-%dB", sh.len_class));
  if (!ref.padding.empty()) c.rep.label("entry-padding");
  c.rep.sample(t.name + " " + to_text(*t.schema, actual) + " -> " + hex(w1.bytes).substr(0, 64));
  return "";
}

std::string int_sweep_one(Ctx& c, const TypeOps& t, uint64_t u) {
  Value v; v.u = norm_int(u, t.schema->bits, t.schema->sgn);
  auto o = t.make(); o->assign(v);
  Written w = lib_encode(t, *o);
  Encoded ref = ref_encode(*t.schema, v);
  c.rep.evaluations++;
  if (w.status != 0 || w.bytes != ref.bytes) return fmt("bytes-differ: integer sweep value %s: lib %s ref %s", to_text(*t.schema, v).c_str(), hex(w.bytes).c_str(), hex(ref.bytes).c_str());
  if (ref.bytes.size() > 1) c.rep.nontriv(case_hash(t, v));
  return "";
}

// Exhaustive side-car: top-level integer types, every value near every class boundary, and all
// values of 8/16-bit types.
void extra_C03(Ctx& c) {
  for (size_t ti = 0; ti < c.types.size(); ti++) {
    const TypeOps& t = c.types[ti];
    if (t.schema->k != K::Int) continue;
    const int bits = t.schema->bits; const bool sgn = t.schema->sgn;
    std::vector<uint64_t> vals;
    if (bits <= 16) { for (uint64_t u = 0; u < (1ull << bits); u++) vals.push_back(norm_int(u, bits, sgn)); }
    else {
      static const int64_t edges[] = {0, 127, 255, 65535, -64, -128, -32768, 2147483647ll, -2147483648ll, 4294967295ll, INT64_MAX, INT64_MIN};
      for (int64_t e : edges) for (int64_t d = -300; d <= 300; d++) {
        int64_t v; if (__builtin_add_overflow(e, d, &v)) continue;
        if (int_fits(v, bits, sgn)) vals.push_back(norm_int((uint64_t)v, bits, sgn));
      }
      if (!sgn) for (int64_t d = 0; d <= 300; d++) vals.push_back(norm_int(~0ull - (uint64_t)d, bits, false));
    }
    for (uint64_t u : vals) {
      std::string m = int_sweep_one(c, t, u);
      if (!m.empty()) { c.rep.fail(m, "prop=C03 type=" + t.name + " src=int:" + std::to_string(u), "C03|" + t.name + "|bytes-differ"); break; }
    }
    c.rep.label("int-sweep-values", (long)vals.size());
  }
}

// ------------------------------------------------------------------------------------------------
// C06: GetSize is an upper bound (exact without handles); buffer writers never overrun.
std::string body_C06(Ctx& c, CaseIn& in) {
  FormGuard form_guard(in); c.rep.label(std::string("form:") + FormGuard::name());
  const TypeOps& t = *in.t;
  Tape& tp = *in.rest;
  auto o = t.make(); o->assign(in.v);
  Value actual = o->get();
  const size_t G = o->get_size();
  std::vector<int64_t> refs; if (t.has_handle) { std::vector<const Value*> hs0; collect_handles(*t.schema, actual, hs0); refs = gen_refs(tp, hs0.size()); }
  Written full = lib_encode(t, *o, &refs);
  if (full.status != 0) return fmt("write-failed: %s", err_name(full.status));
  if (G < full.bytes.size()) return fmt("getsize-under: GetSize=%zu but Write emitted %zu bytes", G, full.bytes.size());
  if (!t.has_handle && G != full.bytes.size()) return fmt("getsize-inexact: GetSize=%zu, Write emitted %zu bytes (type has no handles)", G, full.bytes.size());
  size_t ru = ref_size_upper(*t.schema, actual);
  if (G != ru) return fmt("getsize-vs-doc: GetSize=%zu, documented estimate=%zu", G, ru);
  // every table entry frame is consistent: the reference decoder walks the library's bytes exactly
  {
    DecodeOpts dopt; auto ht = handle_table(full.pushed); dopt.handles = &ht;
    Decoded d = ref_decode(*t.schema, full.bytes, dopt);
    if (!d.ok || d.consumed != full.bytes.size()) return fmt("frames: reference decoder %s the library's bytes (consumed %zu of %zu, %s)", d.ok ? "did not consume all of" : "rejects", d.consumed, full.bytes.size(), err_name(d.err));
  }
  std::vector<int> kinds;
  for (int k : {W_Buf, W_Ped, W_Cex, W_BBuf, W_BPed, W_BCex, W_Log, W_BLog}) if (t.supports_writer(k)) kinds.push_back(k);
  std::vector<size_t> caps;
  if (G <= 512) for (size_t cap = 0; cap <= G + 1; cap++) caps.push_back(cap);
  else { caps = {0, 1, G / 2, G - 1, G, G + 1}; for (int i = 0; i < 10; i++) caps.push_back((size_t)tp.below(G)); }
  bool strictly_between = false;
  for (int k : kinds) {
    for (size_t cap : caps) {
      for (int mode = 0; mode < (wk_bounded(k) ? 2 : 1); mode++) {
        // mode 0: capacity = cap (bounded: limit ample); mode 1: bounded limit = cap, backing ample
        size_t backing = mode == 0 ? cap : G + 8, limit = mode == 0 ? SIZE_MAX : cap;
        Written w = write_with(*o, k, backing, limit, &refs);
        c.rep.evaluations++;
        if (cap >= G) {
          if (w.status != 0) return fmt("no-space: %s with %s=%zu >= GetSize=%zu failed: %s", wk_name(k), mode ? "limit" : "capacity", cap, G, err_name(w.status));
          if (w.bytes != full.bytes) return fmt("bytes-differ: %s with capacity %zu wrote different bytes", wk_name(k), cap);
        } else {
          if (w.status != E_WriteLimitReached) return fmt("overrun-status: %s with %s=%zu < GetSize=%zu returned %s", wk_name(k), mode ? "limit" : "capacity", cap, G, err_name(w.status));
          if (w.position != 0) return fmt("partial-write: %s with %s=%zu < GetSize=%zu wrote %zu bytes", wk_name(k), mode ? "limit" : "capacity", cap, G, w.position);
          if (cap > 0) strictly_between = true;
        }
      }
    }
  }
  // The statement speaks of REMAINING capacity: the same sweep on a writer that already holds one copy of
  // the value (capacity = bytes of the first copy + cap).
  if (!t.has_handle) {
    const size_t W = full.bytes.size();
    std::vector<size_t> caps2;
    if (G <= 16) for (size_t cap = 0; cap <= G + 1; cap++) caps2.push_back(cap);
    else { caps2 = {0, 1, G / 2, G - 1, G, G + 1}; for (int i = 0; i < 4; i++) caps2.push_back((size_t)tp.below(G)); }
    for (int k : kinds) {
      if (k == W_Log || k == W_BLog) continue;
      for (size_t cap : caps2) {
        for (int mode = 0; mode < (wk_bounded(k) ? 2 : 1); mode++) {
          WriterBox w; w.open(k, mode == 0 ? W + cap : W + G + 8, mode == 0 ? SIZE_MAX : W + cap);
          int s1 = o->write(w);
          c.rep.evaluations++;
          if (s1 != 0 || w.position() != W) return fmt("no-space: first of two writes into %s with %zu >= GetSize=%zu bytes failed: %s", wk_name(k), W + cap, G, err_name(s1));
          int s2 = o->write(w);
          if (cap >= G) {
            if (s2 != 0) return fmt("no-space: %s holding %zu bytes with %zu >= GetSize=%zu bytes remaining (%s) failed: %s", wk_name(k), W, cap, G, mode ? "limit" : "capacity", err_name(s2));
            Bytes twice = full.bytes; twice.insert(twice.end(), full.bytes.begin(), full.bytes.end());
            if (w.bytes() != twice) return fmt("bytes-differ: second write into %s with %zu bytes remaining wrote different bytes", wk_name(k), cap);
          } else {
            if (s2 != E_WriteLimitReached) return fmt("overrun-status: %s holding %zu bytes with %zu < GetSize=%zu bytes remaining (%s) returned %s", wk_name(k), W, cap, G, mode ? "limit" : "capacity", err_name(s2));
            if (w.position() != W) return fmt("partial-write: %s holding %zu bytes with %zu < GetSize=%zu bytes remaining wrote %zu more bytes", wk_name(k), W, cap, G, w.position() - W);
          }
        }
      }
    }
    c.rep.label("second-write-into-partly-filled-writer");
    // GetSize and Write through ONE Serializer object with the value changed in between (same address): the
    // capacity needed is the one of the value that is written
    {
      GenCfg small = c.cfg; small.budget = 60;
      Value v2 = gen_value(*t.schema, tp, small);
      auto o2 = t.make(); o2->assign(v2); Value a2 = o2->get();
      const size_t G2 = o2->get_size();
      Written full2 = lib_encode(t, *o2, &refs);
      for (int k : {W_Buf, W_Ped}) {
        if (!t.supports_writer(k)) continue;
        for (size_t cap : {G2, G2 > 0 ? G2 - 1 : G2, G, G > 0 ? G - 1 : G}) {
          auto ob = t.make(); ob->assign(in.v);
          WriterBox w; w.open(k, cap, SIZE_MAX);
          size_t first = 0;
          int s = ob->size_assign_write(w, a2, &first);
          c.rep.evaluations++;
          if (s == kUnsupported) continue;
          if (first != G) return fmt("getsize-unstable: GetSize through a second Serializer is %zu, was %zu", first, G);
          if (cap >= G2) {
            if (s != 0) return fmt("no-space: %s with capacity %zu >= GetSize=%zu of the written value failed (%s); the Serializer had been asked GetSize of the object's previous value (%zu) first", wk_name(k), cap, G2, err_name(s), G);
            if (w.bytes() != full2.bytes) {
              // the same logical value in another object may iterate an unordered_map differently: compare what was written
              Decoded d = ref_decode(*t.schema, w.bytes());
              if (!d.ok || d.consumed != w.bytes().size() || !value_equal(*t.schema, d.value, a2)) return fmt("bytes-differ: %s after GetSize(previous value) wrote bytes that do not decode to the written value", wk_name(k));
            }
          } else {
            if (s != E_WriteLimitReached) return fmt("overrun-status: %s with capacity %zu < GetSize=%zu of the written value returned %s; the Serializer had been asked GetSize of the object's previous value (%zu) first", wk_name(k), cap, G2, err_name(s), G);
            if (w.position() != 0) return fmt("partial-write: %s wrote %zu bytes although the value does not fit", wk_name(k), w.position());
          }
        }
      }
      if (G2 != G) c.rep.label("getsize-then-changed-value-then-write");
    }
  }
  if (G >= 3 && strictly_between) c.rep.nontriv(case_hash(t, actual));
  if (t.has_handle && full.pushed.size()) c.rep.label("handle-bearing");
  if (G > full.bytes.size()) c.rep.label("getsize-overestimates");
  if (G > 512) c.rep.label("sampled-capacities"); else c.rep.label("full-capacity-sweep");
  c.rep.sample(fmt("%s GetSize=%zu written=%zu caps=%zu kinds=%zu", t.name.c_str(), G, full.bytes.size(), caps.size(), kinds.size()));
  return "";
}

// ------------------------------------------------------------------------------------------------
// C05: no strict prefix of a valid message decodes successfully.
static std::string cuts_fail(Ctx& c, const TypeOps& t, const Bytes& bytes, const std::map<int64_t, int64_t>& handles, Tape& tp, bool* inner_cut) {
  std::vector<size_t> cuts;
  if (bytes.size() <= 2048) for (size_t k = 0; k < bytes.size(); k++) cuts.push_back(k);
  else { cuts = {0, 1, bytes.size() / 2, bytes.size() - 1}; for (int i = 0; i < 60; i++) cuts.push_back((size_t)tp.below(bytes.size())); }
  for (int rk : readers_for(t)) {
    if (rk == R_Fd && bytes.size() > 300) continue;
    for (size_t k : cuts) {
      for (int mode = 0; mode < (rk_bounded(rk) ? 2 : 1); mode++) {
        // mode 0: the source itself ends after k bytes; mode 1: bounded limit k over the full buffer
        ReaderBox r;
        if (mode == 0) r.open(rk, bytes.data(), k, rk_bounded(rk) ? bytes.size() : SIZE_MAX); else r.open(rk, bytes.data(), bytes.size(), k);
        if (rk == R_Log || rk == R_BLog) r.log.handles = handles;
        auto o = t.make();
        int s = o->read(r);
        c.rep.evaluations++;
        if (s == 0) return fmt("prefix-accepted: %s accepted the first %zu of %zu bytes (%s) %s", rk_name(rk), k, bytes.size(), mode ? "bounded limit" : "source cut", hex(bytes).substr(0, 120).c_str());
        if (k > 1 && k + 1 < bytes.size()) *inner_cut = true;
      }
    }
    c.rep.label(std::string("reader:") + rk_name(rk));
  }
  return "";
}

std::string body_C05(Ctx& c, CaseIn& in) {
  FormGuard form_guard(in); c.rep.label(std::string("form:") + FormGuard::name());
  const TypeOps& t = *in.t;
  Tape& tp = *in.rest;
  auto o = t.make(); o->assign(in.v);
  Value actual = o->get();
  std::vector<int64_t> refs; if (t.has_handle) { std::vector<const Value*> hs0; collect_handles(*t.schema, actual, hs0); refs = gen_refs(tp, hs0.size()); }
  Written w = lib_encode(t, *o, &refs);
  if (w.status != 0) return fmt("write-failed: %s", err_name(w.status));
  bool inner = false;
  std::string m = cuts_fail(c, t, w.bytes, handle_table(w.pushed), tp, &inner);
  if (!m.empty()) return m;
  // Encodings that contain entries the reading definition skips (deleted / unknown ids), and
  // entries with surplus padding: produced by the reference encoder from a writer-side schema.
  if (t.has_table) {
    bool changed = false;
    SchemaP ws = writer_variant(*t.schema, tp, &changed);
    GenCfg small = c.cfg; small.budget = 80;
    Value wv = gen_value(*ws, tp, small);
    EncodeOpts eo;
    // grow one entry's declared size with matching padding
    Encoded probe = ref_encode(*ws, wv);
    std::vector<size_t> size_fields;
    for (size_t i = 0; i < probe.fields.size(); i++) if (probe.fields[i].kind == F::EntrySize) size_fields.push_back(i);
    if (!size_fields.empty() && tp.below(2)) { Override ov; ov.what = Override::EntrySizeDelta; ov.delta = 1 + (long)tp.below(5); ov.pad = true; eo.overrides[size_fields[tp.below(size_fields.size())]] = ov; c.rep.label("cut-in-surplus-padding"); }
    Encoded enc = ref_encode(*ws, wv, eo);
    auto ht = default_handle_table(*ws, wv);
    // sanity: the full message must be accepted by the library with the value the reader should see
    ReaderBox r; r.open(t.has_handle ? R_Log : R_Ped, enc.bytes); r.log.handles = ht;
    auto o2 = t.make(); int s = o2->read(r);
    if (s != 0 || r.position() != enc.bytes.size()) return fmt("skip-read-failed: message with skipped entries: status %s, consumed %zu of %zu: %s", err_name(s), r.position(), enc.bytes.size(), hex(enc.bytes).substr(0, 120).c_str());
    Value want = reader_view(*t.schema, *ws, wv);
    if (!value_equal(*t.schema, o2->get(), want)) return fmt("skip-read-value: got %s want %s", to_text(*t.schema, o2->get()).c_str(), to_text(*t.schema, want).c_str());
    m = cuts_fail(c, t, enc.bytes, ht, tp, &inner);
    if (!m.empty()) return "skipped-entry-" + m;
    c.rep.label("with-skipped-entries");
  }
  if (inner) c.rep.nontriv(case_hash(t, actual));
  c.rep.sample(fmt("%s %s: %zu bytes, every cut", t.name.c_str(), to_text(*t.schema, actual).substr(0, 100).c_str(), w.bytes.size()));
  return "";
}

// ------------------------------------------------------------------------------------------------
// C10: I/O errors propagate verbatim and stop the operation.
std::string body_C10(Ctx& c, CaseIn& in) {
  const TypeOps& t = *in.t;
  Tape& tp = *in.rest;
  static const int errs[] = {E_WriteLimitReached, E_StreamError, E_IOError, E_SystemError, E_ProtocolError, E_InvalidHandleReference, E_DebugError};
  // growable byte/integral sequences: whenever the empty value comes up, a payload of several KiB is run too
  // (an implementation that transfers large payloads in pieces has more than one block transfer to fail in)
  if ((t.schema->k == K::Bin || t.schema->k == K::Str) && t.schema->fixed < 0 && t.schema->maxc < 0 && in.v.bytes.empty() && !in.nested) {
    CaseIn big = in; big.nested = true;
    lcg_fill(big.v.bytes, (size_t)(9000 + tp.below(4000)) / (t.schema->bits / 8) * (t.schema->bits / 8), 77);
    std::string m = body_C10(c, big);
    if (!m.empty()) return m;
    c.rep.label("large-payload-faults");
  }
  auto o = t.make(); o->assign(in.v);
  Value actual = o->get();
  std::vector<int64_t> refs; if (t.has_handle) { std::vector<const Value*> hs0; collect_handles(*t.schema, actual, hs0); refs = gen_refs(tp, hs0.size()); }
  bool composite = !t.schema->kids.empty() || !t.schema->entries.empty();
  bool nontrivial = false;
  const uint64_t any_base = tp.below(18);
  Bytes clean_bytes; std::vector<PushRec> clean_pushed;
  // ---- write direction
  for (int wk : {W_Log, W_BLog}) {
    WriterBox w0; w0.open(wk, SIZE_MAX, SIZE_MAX); w0.log.refs_to_return = refs;
    int s0 = o->write(w0);
    if (s0 != 0) return fmt("clean-write-failed: %s: %s", wk_name(wk), err_name(s0));
    if (w0.log.calls_after_failure) return fmt("clean-run-inconsistent");
    size_t n = w0.log.log.size();
    if (wk == W_Log) { clean_bytes = w0.log.out; clean_pushed = w0.log.pushed; }
    for (size_t k = 0; k < n; k++) {
      for (size_t ei = 0; ei < 8; ei++) {
        if (n > 150 && ei != k % 7 && ei != 7) continue;
        int e = ei < 7 ? errs[ei] : 1 + (int)((any_base + k) % 18);   // the 8th code cycles through ALL ErrorStatus values
        WriterBox w; w.open(wk, SIZE_MAX, SIZE_MAX); w.log.refs_to_return = refs; w.log.fault.fail_at = (long)k; w.log.fault.err = e;
        int s = o->write(w);
        c.rep.evaluations++;
        if (s != e) return fmt("error-not-propagated: write via %s, call %zu (%s) failed with %s but Write returned %s", wk_name(wk), k, call_name(w0.log.log[k].kind), err_name(e), err_name(s));
        if (w.log.log.size() != k + 1) return fmt("calls-after-failure: write via %s, call %zu (%s) failed with %s; %zu further calls were issued", wk_name(wk), k, call_name(w0.log.log[k].kind), err_name(e), w.log.log.size() - (k + 1));
        if (k == 0 && !w.log.out.empty()) return fmt("prepare-failed-but-wrote: %zu bytes", w.log.out.size());
        if (k >= 2 && composite) nontrivial = true;
      }
    }
    c.rep.label(std::string("write-faults:") + wk_name(wk), (long)n);
  }
  // ---- read direction
  static const int rerrs[] = {E_ReadLimitReached, E_StreamError, E_IOError, E_SystemError, E_ProtocolError, E_InvalidHandleReference, E_DebugError};
  auto ht = handle_table(clean_pushed);
  for (int rk : {R_Log, R_BLog}) {
    ReaderBox r0; r0.open(rk, clean_bytes); r0.log.handles = ht;
    auto o0 = t.make();
    int s0 = o0->read(r0);
    if (s0 != 0) return fmt("clean-read-failed: %s: %s", rk_name(rk), err_name(s0));
    size_t n = r0.log.log.size();
    for (size_t k = 0; k < n; k++) {
      for (size_t ei = 0; ei < 8; ei++) {
        if (n > 150 && ei != k % 7 && ei != 7) continue;
        int e = ei < 7 ? rerrs[ei] : 1 + (int)((any_base + k + 5) % 18);
        ReaderBox r; r.open(rk, clean_bytes); r.log.handles = ht; r.log.fault.fail_at = (long)k; r.log.fault.err = e;
        auto o2 = t.make();
        int s = o2->read(r);
        c.rep.evaluations++;
        if (s != e) return fmt("error-not-propagated: read via %s, call %zu (%s) failed with %s but Read returned %s", rk_name(rk), k, call_name(r0.log.log[k].kind), err_name(e), err_name(s));
        if (r.log.log.size() != k + 1) return fmt("calls-after-failure: read via %s, call %zu (%s) failed with %s; %zu further calls were issued", rk_name(rk), k, call_name(r0.log.log[k].kind), err_name(e), r.log.log.size() - (k + 1));
        if (k >= 2 && composite) nontrivial = true;
      }
    }
    c.rep.label(std::string("read-faults:") + rk_name(rk), (long)n);
  }
  if (nontrivial) c.rep.nontriv(case_hash(t, actual));
  c.rep.sample(fmt("%s %s: every call index x 8 errors (7 fixed + one cycling through all 18 codes), both directions", t.name.c_str(), to_text(*t.schema, actual).substr(0, 100).c_str()));
  return "";
}

}  // namespace vk
