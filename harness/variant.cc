// C12: a nop::Variant always holds exactly one live alternative or none.
//
// Model-based operation-sequence harness. Six slots of three Variant types interact:
//   slots 0,1,2 : VA = Variant<Tracked<1>, Tracked<2>, int, std::string>
//   slots 3,4   : VB = Variant<Tracked<2>, Tracked<1>>         (reordered: converting copy/move/assign into VA)
//   slot  5     : VC = Variant<Tracked<1>, std::string>        (convertible elements: const char* -> string,
//                                                               Tracked<2> -> Tracked<1>, VA/VB -> VC construction)
// Every op is applied to the real objects and to an explicit model {alive, index, payload}; after EVERY step
// index()/empty()/is<T>()/get<T>()/get<I>()/const Visit of every live slot are compared with the model, every
// Tracked alternative must be in tracker().live, tracker().live.size() must equal the number of model slots that
// hold a Tracked alternative and tracker().errors must be 0. At the end all slots are destroyed and the tracker
// must be empty with constructed == destroyed.
//
// What libnop's EnableIfConvertible/EnableIfAssignable rules let compile (and therefore what is generated):
//   VA(VB), VA = VB (copy and move); VC(VB), VC(VA) (construction only: VC = VB / VC = VA / VC = Tracked<2> do not
//   compile because Union::Assign needs an implicit conversion and Tracked's converting constructor is explicit);
//   VB(VA) / VB = VA do not compile (std::string / int have no unique target); VA("..."), VC("..."), VA = "...",
//   VC = "..." (const char* -> std::string); VC(Tracked<2>) (-> Tracked<1>); Become(i, args...) needs args that
//   construct EVERY alternative, so only VB takes arguments (an int32, or a Tracked<1> which may throw).
//
// Outcomes the property leaves open (accepted, counted under "excluded"):
//   * after an element constructor threw, the target may be unchanged or empty (model re-synchronised from index());
//   * the payload of a moved-from / self-move-assigned std::string is unspecified (model re-synchronised);
//   * a converting construction VA(VB) may pick any alternative constructible from the source element (libnop takes
//     the FIRST constructible one, so VA(VB holding Tracked<2>) holds Tracked<1>; converting ASSIGNMENT goes through
//     the tagged element path and must produce the identical element type).
//
// Conventions: an op that references a dead slot (other than as the target of a constructor op or destroy) first
// default-constructs it; constructor ops build the new object first and then replace (destroy) the old one;
// "arm" makes the first Tracked copy/move/converting construction of the NEXT op throw TrackedThrow.
#include <cinttypes>
#include <cstdio>
#include <cstring>
#include <limits>   // nop/types/detail/logical_buffer.h uses std::numeric_limits without including it
#include <memory>
#include <string>
#include <tuple>
#include <utility>
#include <vector>

#include <nop/types/variant.h>

#include "kit/core.h"
#include "kit/gen.h"
#include "kit/rcdrv.h"
#include "kit/report.h"
#include "kit/tracked.h"

using namespace vk;

using T1 = Tracked<1>;
using T2 = Tracked<2>;
using VA = nop::Variant<T1, T2, int, std::string>;
using VB = nop::Variant<T2, T1>;
using VC = nop::Variant<T1, std::string>;

// ---------------------------------------------------------------------------------------------- static tables
enum { AK_NONE = -1, AK_T1 = 0, AK_T2 = 1, AK_INT = 2, AK_STR = 3 };
enum { TY_A = 0, TY_B = 1, TY_C = 2 };
static const char* const kTypeName[3] = {"Variant<T1,T2,int,string>", "Variant<T2,T1>", "Variant<T1,string>"};
static const int kNAlt[3] = {4, 2, 2};
static const int kAlt[3][4] = {{AK_T1, AK_T2, AK_INT, AK_STR}, {AK_T2, AK_T1, AK_NONE, AK_NONE}, {AK_T1, AK_STR, AK_NONE, AK_NONE}};
static constexpr int kSlots = 6;
static const int kSlotType[kSlots] = {TY_A, TY_A, TY_A, TY_B, TY_B, TY_C};

static int kind_of(int type, int idx) { return (idx < 0 || idx >= kNAlt[type]) ? AK_NONE : kAlt[type][idx]; }
static int index_of_kind(int type, int kind) { for (int i = 0; i < kNAlt[type]; i++) if (kAlt[type][i] == kind) return i; return -1; }
static bool tracked_kind(int k) { return k == AK_T1 || k == AK_T2; }
// is an element of kind `to` constructible from one of kind `from` (Tracked(int32) and Tracked<A>(Tracked<B>) are explicit ctors)
static bool constructible(int to, int from) {
  if (tracked_kind(to)) return from == AK_T1 || from == AK_T2 || from == AK_INT;
  return to == from;
}
static bool ctor_ok(int ta, int tb) { return ta == tb || (ta == TY_A && tb == TY_B) || (ta == TY_C && tb != TY_C); }
static bool asg_ok(int ta, int tb) { return ta == tb || (ta == TY_A && tb == TY_B); }
template <class X, class Y> static constexpr bool kCtorOk = std::is_same<X, Y>::value || (std::is_same<X, VA>::value && std::is_same<Y, VB>::value) || (std::is_same<X, VC>::value && !std::is_same<Y, VC>::value);
template <class X, class Y> static constexpr bool kAsgOk = std::is_same<X, Y>::value || (std::is_same<X, VA>::value && std::is_same<Y, VB>::value);

template <class V> struct VT;
template <class... Ts> struct VT<nop::Variant<Ts...>> {
  static constexpr size_t N = sizeof...(Ts);
  template <size_t I> using Alt = std::tuple_element_t<I, std::tuple<Ts...>>;
};

// ---------------------------------------------------------------------------------------------- values
struct Val { int kind = AK_NONE; int32_t pay = 0; std::string str; const void* addr = nullptr; };
static bool same_val(const Val& x, const Val& y) {
  if (x.kind != y.kind) return false;
  if (x.kind == AK_NONE) return true;
  return x.kind == AK_STR ? x.str == y.str : x.pay == y.pay;
}
static std::string val_text(const Val& v) {
  static const char* const kn[] = {"T1", "T2", "int", "string"};
  if (v.kind == AK_NONE) return "empty";
  if (v.kind == AK_STR) return std::string("string(len ") + std::to_string(v.str.size()) + " \"" + v.str.substr(0, 12) + "\")";
  return std::string(kn[v.kind]) + "(" + std::to_string(v.pay) + ")";
}
static Val obs(nop::EmptyVariant) { return Val{}; }
static Val obs(const T1& x) { return Val{AK_T1, x.payload, "", &x}; }
static Val obs(const T2& x) { return Val{AK_T2, x.payload, "", &x}; }
static Val obs(const int& x) { return Val{AK_INT, x, "", &x}; }
static Val obs(const std::string& x) { return Val{AK_STR, 0, x, &x}; }

static std::string str_of(uint64_t n) {
  const uint32_t u = (uint32_t)n;
  if (u % 4 == 0) return "";
  if (u % 4 == 3) return std::string(40, (char)('a' + u % 26)) + std::to_string(u);   // beyond SSO: heap owned
  return "s" + std::to_string(u);
}
static Val elem_val(int kind, uint64_t n) {
  Val v; v.kind = kind;
  if (kind == AK_STR) v.str = str_of(n); else if (kind != AK_NONE) v.pay = (int32_t)n;
  return v;
}
static int32_t bump(int32_t p) { return (int32_t)((uint32_t)p + 1u); }

template <class T> struct Mk;
template <int Tag> struct Mk<Tracked<Tag>> { static Tracked<Tag> make(uint64_t n) { return Tracked<Tag>((int32_t)n); } };
template <> struct Mk<int> { static int make(uint64_t n) { return (int32_t)n; } };
template <> struct Mk<std::string> { static std::string make(uint64_t n) { return str_of(n); } };

// calls f(tmp) with an lvalue temporary of alternative `alt` of V (created without any Tracked copy)
template <class V, size_t I = 0, class F> static void with_elem(int alt, uint64_t n, F&& f) {
  if constexpr (I < VT<V>::N) {
    if (alt == (int)I) { using T = typename VT<V>::template Alt<I>; T tmp(Mk<T>::make(n)); f(tmp); }
    else with_elem<V, I + 1>(alt, n, f);
  }
}

// ---------------------------------------------------------------------------------------------- visitors
struct Seen { int calls = 0; Val v; };
struct CVis {   // const visit: records what it saw
  Seen* s;
  void operator()(nop::EmptyVariant e) const { s->calls++; s->v = obs(e); }
  void operator()(const T1& x) const { s->calls++; s->v = obs(x); }
  void operator()(const T2& x) const { s->calls++; s->v = obs(x); }
  void operator()(const int& x) const { s->calls++; s->v = obs(x); }
  void operator()(const std::string& x) const { s->calls++; s->v = obs(x); }
};
struct NVis {   // non-const visit: records, then mutates the element through the reference it was given
  Seen* s;
  void operator()(nop::EmptyVariant e) { s->calls++; s->v = obs(e); }
  void operator()(T1& x) { s->calls++; s->v = obs(x); x.payload = bump(x.payload); }
  void operator()(T2& x) { s->calls++; s->v = obs(x); x.payload = bump(x.payload); }
  void operator()(int& x) { s->calls++; s->v = obs(x); x = bump(x); }
  void operator()(std::string& x) { s->calls++; s->v = obs(x); x += '!'; }
};
static void poke(T1& x, uint64_t n) { x.payload = (int32_t)n; }
static void poke(T2& x, uint64_t n) { x.payload = (int32_t)n; }
static void poke(int& x, uint64_t n) { x = (int32_t)n; }
static void poke(std::string& x, uint64_t n) { x = str_of(n); }

// ---------------------------------------------------------------------------------------------- ops
enum Kind : uint8_t { CTOR0, CTORV, CTORM, CTORC, CCTOR, MCTOR, CASG, MASG, ASGV, ASGM, ASGC, ASGE, BECOME, BECOMEI, BECOMET, VISIT, CVISIT, GET, DESTROY, ARM, NKINDS };
static const char* const kKindName[NKINDS] = {"ctor0", "ctorv", "ctorm", "ctorc", "cctor", "mctor", "casg", "masg", "asgv", "asgm", "asgc", "asge",
                                              "become", "becomei", "becomet", "visit", "cvisit", "get", "destroy", "arm"};
// kind a b n:
//  ctor0   a=slot b=0: V() / 1: V(EmptyVariant{})
//  ctorv/m a=slot b=alternative n=payload         V(const T&) / V(T&&)
//  ctorc   a=slot b=mode n=payload                VA,VC: V(const char*); VC b%3==1: V(const T2&), ==2: V(T2&&)
//  cctor/mctor a=target b=source                  V(const W&) / V(W&&), W same or other Variant type
//  casg/masg   a=target b=source (a==b: self)     v = w / v = std::move(w)
//  asgv/m  a=slot b=alternative n=payload         v = const T& / v = T&&
//  asgc    a=slot n=payload                       v = const char*            (VA, VC)
//  asge    a=slot                                 v = EmptyVariant{}
//  become  a=slot b=index+2                       v.Become(index)
//  becomei a=slot b=index+2 n=payload             VB: v.Become(index, int32)       (other types: as become)
//  becomet a=slot b=index+2 n=payload             VB: v.Become(index, const T1&)   (other types: as become)
//  visit/cvisit/get/destroy a=slot (get: n=payload written through the non-const get<I>() pointer), arm
struct Op { uint8_t kind = 0, a = 0, b = 0; uint64_t n = 0; };
static bool is_become(uint8_t k) { return k == BECOME || k == BECOMEI || k == BECOMET; }

static std::string op_text(const Op& o) {
  char buf[96];
  snprintf(buf, sizeof buf, "%s.%d.%d.%" PRId32, kKindName[o.kind], (int)o.a, is_become(o.kind) ? (int)o.b - 2 : (int)o.b, (int32_t)o.n);
  return buf;
}
static std::string ops_text(const std::vector<Op>& ops) {
  std::string s;
  for (size_t i = 0; i < ops.size(); i++) { if (i) s += ' '; s += op_text(ops[i]); }
  return s;
}
static bool ops_parse(const std::string& text, std::vector<Op>& out) {
  out.clear();
  size_t p = 0;
  while (p < text.size()) {
    while (p < text.size() && isspace((unsigned char)text[p])) p++;
    if (p >= text.size()) break;
    size_t e = p; while (e < text.size() && !isspace((unsigned char)text[e])) e++;
    const std::string tok = text.substr(p, e - p); p = e;
    const size_t d = tok.find('.'); if (d == std::string::npos) return false;
    Op o; int k = -1;
    for (int i = 0; i < NKINDS; i++) if (tok.substr(0, d) == kKindName[i]) k = i;
    if (k < 0) return false;
    long a = 0, b = 0; long long n = 0;
    if (sscanf(tok.c_str() + d, ".%ld.%ld.%lld", &a, &b, &n) != 3) return false;
    o.kind = (uint8_t)k;
    if (is_become(o.kind)) b += 2;
    if (a < 0 || a >= kSlots || b < 0 || b > 255) return false;
    o.a = (uint8_t)a; o.b = (uint8_t)b; o.n = (uint64_t)(int64_t)n;
    out.push_back(o);
  }
  return true;
}
static std::string case_text(const std::vector<Op>& ops) { return "prop=C12 ops=" + ops_text(ops); }

// Become target indices for a type with N alternatives: {-2,-1,0..N-1,N,N+5}
static int become_index(int N, uint64_t c) { c %= (uint64_t)(N + 4); if (c < (uint64_t)(N + 2)) return (int)c - 2; return c == (uint64_t)(N + 2) ? N : N + 5; }

static std::vector<Op> decode_ops(Tape& t) {
  static const uint8_t kWeighted[] = {CTOR0, CTORV, CTORV, CTORV, CTORM, CTORM, CTORC, CTORC, CCTOR, CCTOR, CCTOR, MCTOR, MCTOR, MCTOR, CASG, CASG, CASG, CASG,
                                      MASG, MASG, MASG, MASG, ASGV, ASGV, ASGV, ASGV, ASGM, ASGM, ASGM, ASGC, ASGC, ASGE, ASGE, BECOME, BECOME, BECOME,
                                      BECOMEI, BECOMEI, BECOMET, BECOMET, VISIT, VISIT, CVISIT, CVISIT, GET, GET, DESTROY, DESTROY, ARM, ARM, ARM, ARM, ARM};
  std::vector<Op> ops;
  while (!t.exhausted() && ops.size() < 60) {
    Op o;
    o.kind = kWeighted[t.below(sizeof kWeighted)];
    o.a = (uint8_t)t.below(kSlots);
    const int ta = kSlotType[o.a];
    switch (o.kind) {
      case CTOR0: o.b = (uint8_t)t.below(2); break;
      case CTORV: case CTORM: case ASGV: case ASGM: o.b = (uint8_t)t.below(kNAlt[ta]); break;
      case CTORC: if (ta == TY_B) o.a = (uint8_t)(t.below(2) ? 5 : t.below(3)); o.b = (uint8_t)t.below(3); break;
      case ASGC: if (ta == TY_B) o.a = (uint8_t)(t.below(2) ? 5 : t.below(3)); break;
      case CCTOR: case MCTOR: case CASG: case MASG: {
        int cand[kSlots], nc = 0;
        const bool ctor = o.kind == CCTOR || o.kind == MCTOR;
        for (int s = 0; s < kSlots; s++) if (ctor ? ctor_ok(ta, kSlotType[s]) : asg_ok(ta, kSlotType[s])) cand[nc++] = s;
        o.b = (uint8_t)cand[t.below(nc)];
        break; }
      case BECOME: case BECOMEI: case BECOMET:
        if (o.kind != BECOME && t.below(4)) o.a = (uint8_t)(3 + t.below(2));   // arguments only compile for VB
        o.b = (uint8_t)(become_index(kNAlt[kSlotType[o.a]], t.next()) + 2);
        break;
      default: break;
    }
    switch (o.kind) {
      case CTORV: case CTORM: case CTORC: case ASGV: case ASGM: case ASGC: case BECOMEI: case BECOMET: case GET:
        o.n = t.below(4) == 3 ? gen_int(t, 32, true) : t.below(12);
        break;
      default: break;
    }
    ops.push_back(o);
  }
  return ops;
}

// ---------------------------------------------------------------------------------------------- world + model
struct M { bool alive = false; int idx = -1; int32_t pay = 0; std::string str; };
static Val mval(const M& m, int type) { Val v; v.kind = kind_of(type, m.idx); v.pay = m.pay; v.str = m.str; return v; }
static void mset(M& m, int idx, const Val& v) {
  m.alive = true; m.idx = idx;
  m.pay = (v.kind == AK_STR || v.kind == AK_NONE || idx < 0) ? 0 : v.pay;
  m.str = (v.kind == AK_STR && idx >= 0) ? v.str : std::string();
}

struct World {
  std::unique_ptr<VA> a[3]; std::unique_ptr<VB> b[2]; std::unique_ptr<VC> c[1];
  M m[kSlots];
  bool armed = false;
  // after a detected violation the objects are in an unknown state: abandon them instead of running destructors
  void leak() { for (auto& p : a) (void)p.release(); for (auto& p : b) (void)p.release(); for (auto& p : c) (void)p.release(); }
};
template <class F> static void with(World& w, int s, F&& f) {
  if (s < 3) f(w.a[s]); else if (s < 5) f(w.b[s - 3]); else f(w.c[0]);
}
template <class UP> using VOf = typename std::decay_t<UP>::element_type;

struct Stats { bool cross = false, self = false, threw = false, conv = false, oor = false; };
struct Tally {
  long op[NKINDS] = {}, inapplicable = 0, throws = 0, moved_str = 0, conv_ctor_open = 0, conv_ctor_first = 0, become_noop = 0, materialised = 0;
  long steps = 0;
};
static Tally g_tally;

static int real_index(World& w, int s) { int r = -99; with(w, s, [&](auto& up) { r = up ? up->index() : -99; }); return r; }
static Seen observe(World& w, int s) {
  Seen sn;
  with(w, s, [&](auto& up) { CVis v{&sn}; std::as_const(*up).Visit(v); });
  return sn;
}
static void ensure(World& w, int s) {
  if (w.m[s].alive) return;
  with(w, s, [&](auto& up) { up = std::make_unique<VOf<decltype(up)>>(); });
  w.m[s] = M{}; w.m[s].alive = true;
  g_tally.materialised++;
}
// runs f; when armed, the first Tracked copy/move/converting construction inside f throws
template <class F> static bool guarded(World& w, F&& f) {
  bool threw = false;
  if (w.armed) tracker().throw_countdown = 1;
  try { f(); } catch (const TrackedThrow&) { threw = true; }
  tracker().throw_countdown = -1;
  w.armed = false;
  return threw;
}
static void resync_str(World& w, int s) {
  Seen sn = observe(w, s);
  if (sn.v.kind == AK_STR) w.m[s].str = sn.v.str;
  g_tally.moved_str++;
}

// get<T>() / get<I>() / is<T>() for every alternative, const and non-const
template <class V, size_t I = 0> static void probe(V& v, int idx, std::string& err, const void*& active) {
  if constexpr (I < VT<V>::N) {
    using T = typename VT<V>::template Alt<I>;
    const V& cv = v;
    T* p1 = v.template get<T>(); T* p2 = v.template get<I>();
    const T* p3 = cv.template get<T>(); const T* p4 = cv.template get<I>();
    const bool want = idx == (int)I;
    if (err.empty() && (p1 != nullptr) != want) err = "get-mismatch: get<T>() for alternative " + std::to_string(I) + (p1 ? " is non-null" : " is null") + " while model index is " + std::to_string(idx);
    if (err.empty() && (p2 != p1 || p3 != p1 || p4 != p1)) err = "get-mismatch: get<T>/get<I>/const get disagree for alternative " + std::to_string(I);
    if (err.empty() && cv.template is<T>() != want) err = "get-mismatch: is<T>() wrong for alternative " + std::to_string(I) + " while model index is " + std::to_string(idx);
    if (want) active = p1;
    probe<V, I + 1>(v, idx, err, active);
  }
}
template <class V, size_t I = 0> static void poke_active(V& v, int idx, uint64_t n) {
  if constexpr (I < VT<V>::N) {
    if (idx == (int)I) { auto* p = v.template get<I>(); if (p) poke(*p, n); }
    else poke_active<V, I + 1>(v, idx, n);
  }
}

static std::string slot_name(int s) { return "slot " + std::to_string(s) + " (" + kTypeName[kSlotType[s]] + ")"; }

// compares what a Visit reported with the model
static std::string check_seen(const Seen& sn, const M& m, int s, const char* what) {
  const Val want = mval(m, kSlotType[s]);
  if (sn.calls != 1) return std::string("visit-count: ") + what + " on " + slot_name(s) + " invoked the visitor " + std::to_string(sn.calls) + " times";
  if (sn.v.kind != want.kind) return std::string("visit-mismatch: ") + what + " on " + slot_name(s) + " saw " + val_text(sn.v) + ", model holds " + val_text(want);
  if (!same_val(sn.v, want)) return std::string("payload-mismatch: ") + what + " on " + slot_name(s) + " saw " + val_text(sn.v) + ", model holds " + val_text(want);
  return "";
}

// the invariant, checked after every step
static std::string check_all(World& w) {
  // 1. cheap and safe first: index() of every slot (later checks dereference the active element)
  for (int s = 0; s < kSlots; s++) {
    bool present = false; int idx = -99; bool emp = false;
    with(w, s, [&](auto& up) { present = (bool)up; if (up) { idx = std::as_const(*up).index(); emp = std::as_const(*up).empty(); } });
    if (present != w.m[s].alive) return "harness: " + slot_name(s) + " presence differs from model";
    if (!present) continue;
    if (idx != w.m[s].idx) return "index-mismatch: " + slot_name(s) + " index() = " + std::to_string(idx) + ", model index = " + std::to_string(w.m[s].idx);
    if (emp != (w.m[s].idx == -1)) return "index-mismatch: " + slot_name(s) + " empty() disagrees with index() = " + std::to_string(idx);
  }
  if (tracker().errors) return "tracker-error: " + tracker().first_error;
  // 2. the live set: one live Tracked per slot holding a Tracked alternative, nothing else
  size_t want_live = 0;
  for (int s = 0; s < kSlots; s++) if (w.m[s].alive && tracked_kind(kind_of(kSlotType[s], w.m[s].idx))) want_live++;
  if (tracker().live.size() != want_live)
    return "live-count: " + std::to_string(tracker().live.size()) + " live Tracked objects, model holds " + std::to_string(want_live) + " Tracked alternatives";
  // 3. accessors and Visit
  size_t found_live = 0;
  for (int s = 0; s < kSlots; s++) {
    if (!w.m[s].alive) continue;
    std::string err; const void* active = nullptr;
    with(w, s, [&](auto& up) { probe(*up, w.m[s].idx, err, active); });
    if (!err.empty()) return err + " on " + slot_name(s);
    const int kind = kind_of(kSlotType[s], w.m[s].idx);
    if (tracked_kind(kind)) {
      if (!tracker().live.count(active)) return "not-live: active Tracked alternative of " + slot_name(s) + " is not a live object";
      found_live++;
    }
    Seen sn = observe(w, s);
    err = check_seen(sn, w.m[s], s, "const Visit");
    if (!err.empty()) return err;
    if (kind != AK_NONE && sn.v.addr != active) return "visit-mismatch: const Visit on " + slot_name(s) + " passed an object that is not the one get<T>() returns";
  }
  if (found_live != want_live) return "live-count: internal";
  if (tracker().errors) return "tracker-error: " + tracker().first_error;
  return "";
}

// the property does not say whether the target of an op whose element constructor threw is unchanged or empty
static std::string after_throw(World& w, int s) {
  g_tally.throws++;
  if (!w.m[s].alive) return "";
  const int real = real_index(w, s);
  if (real == w.m[s].idx) return "";                       // unchanged (payload is compared by the invariant)
  if (real == -1) { mset(w.m[s], -1, Val{}); return ""; }   // emptied
  return "throw-state: after a throwing element constructor " + slot_name(s) + " has index() = " + std::to_string(real) + ", neither the previous index " + std::to_string(w.m[s].idx) + " nor empty";
}

static std::string apply(World& w, const Op& op, Stats& st) {
  const int a = op.a % kSlots, ta = kSlotType[a];
  M& ma = w.m[a];
  std::string err;
  bool threw = false, applicable = true;
  g_tally.op[op.kind]++;
  switch (op.kind) {
    case CTOR0: {
      with(w, a, [&](auto& up) {
        using V = VOf<decltype(up)>;
        threw = guarded(w, [&] { auto nu = (op.b & 1) ? std::make_unique<V>(nop::EmptyVariant{}) : std::make_unique<V>(); up = std::move(nu); });
      });
      if (!threw) mset(ma, -1, Val{});
      break; }
    case CTORV: case CTORM: {
      const int alt = op.b % kNAlt[ta];
      const bool mv = op.kind == CTORM;
      with(w, a, [&](auto& up) {
        using V = VOf<decltype(up)>;
        with_elem<V>(alt, op.n, [&](auto& tmp) {
          threw = guarded(w, [&] {
            std::unique_ptr<V> nu;
            if (mv) nu = std::make_unique<V>(std::move(tmp)); else nu = std::make_unique<V>(std::as_const(tmp));
            up = std::move(nu);
          });
        });
      });
      if (!threw) mset(ma, alt, elem_val(kAlt[ta][alt], op.n));
      break; }
    case CTORC: {
      if (ta == TY_B) { applicable = false; break; }
      const int mode = ta == TY_C ? op.b % 3 : 0;
      if (mode == 0) {
        const std::string s = str_of(op.n); const char* p = s.c_str();
        with(w, a, [&](auto& up) {
          using V = VOf<decltype(up)>;
          if constexpr (!std::is_same<V, VB>::value) threw = guarded(w, [&] { auto nu = std::make_unique<V>(p); up = std::move(nu); });
        });
        if (!threw) mset(ma, index_of_kind(ta, AK_STR), elem_val(AK_STR, op.n));
      } else {
        T2 tmp((int32_t)op.n);
        threw = guarded(w, [&] {
          std::unique_ptr<VC> nu;
          if (mode == 2) nu = std::make_unique<VC>(std::move(tmp)); else nu = std::make_unique<VC>(std::as_const(tmp));
          w.c[0] = std::move(nu);
        });
        if (!threw) mset(ma, 0, elem_val(AK_T1, op.n));
      }
      break; }
    case CCTOR: case MCTOR: {
      const int b = op.b % kSlots, tb = kSlotType[b];
      if (!ctor_ok(ta, tb)) { applicable = false; break; }
      ensure(w, b);
      const M src = w.m[b];
      const Val sv = mval(src, tb);
      const bool mv = op.kind == MCTOR;
      int real = -99;
      with(w, a, [&](auto& ua) { with(w, b, [&](auto& ub) {
        using X = VOf<decltype(ua)>; using Y = VOf<decltype(ub)>;
        if constexpr (kCtorOk<X, Y>) {
          threw = guarded(w, [&] {
            std::unique_ptr<X> nu;
            if (mv) nu = std::make_unique<X>(std::move(*ub)); else nu = std::make_unique<X>(std::as_const(*ub));
            ua = std::move(nu);   // a == b: the new object replaces (destroys) its own source
          });
          if (!threw) real = ua->index();
        }
      }); });
      if (ta != tb) st.conv = true;
      if (threw) break;
      if (ta == tb) {
        mset(ma, src.idx, sv);   // a copy compares equal to its source
      } else if (sv.kind == AK_NONE) {
        mset(ma, -1, Val{});
      } else {
        // converting construction: any alternative constructible from the source element is accepted
        if (real < 0 || real >= kNAlt[ta] || !constructible(kAlt[ta][real], sv.kind)) {
          err = "conv-ctor: " + slot_name(a) + " constructed from " + slot_name(b) + " holding " + val_text(sv) + " has index() = " + std::to_string(real) + ", not an alternative constructible from the source";
          break;
        }
        int nallowed = 0; for (int i = 0; i < kNAlt[ta]; i++) if (constructible(kAlt[ta][i], sv.kind)) nallowed++;
        if (nallowed > 1) g_tally.conv_ctor_open++;
        if (kAlt[ta][real] != sv.kind && index_of_kind(ta, sv.kind) >= 0) g_tally.conv_ctor_first++;
        Val nv = sv; nv.kind = kAlt[ta][real];
        mset(ma, real, nv);
      }
      if (mv && a != b && sv.kind == AK_STR) resync_str(w, b);   // moved-from std::string: unspecified payload
      break; }
    case CASG: case MASG: {
      const int b = op.b % kSlots, tb = kSlotType[b];
      if (!asg_ok(ta, tb)) { applicable = false; break; }
      ensure(w, a); ensure(w, b);
      const M src = w.m[b];
      const Val sv = mval(src, tb);
      const int old_kind = kind_of(ta, ma.idx);
      const bool mv = op.kind == MASG;
      if (a == b) st.self = true;
      if (ta != tb) st.conv = true;
      if (old_kind != AK_NONE && sv.kind != AK_NONE && old_kind != sv.kind) st.cross = true;
      with(w, a, [&](auto& ua) { with(w, b, [&](auto& ub) {
        using X = VOf<decltype(ua)>; using Y = VOf<decltype(ub)>;
        if constexpr (kAsgOk<X, Y>) {
          X& dst = *ua; Y& from = *ub;
          threw = guarded(w, [&] { if (mv) dst = std::move(from); else dst = std::as_const(from); });
        }
      }); });
      if (threw) break;
      // same Variant type: same index; other Variant type: assignment goes through the element (tagged) path, identical type
      mset(ma, sv.kind == AK_NONE ? -1 : (ta == tb ? src.idx : index_of_kind(ta, sv.kind)), sv);
      if (mv && sv.kind == AK_STR) resync_str(w, b);   // moved-from (or self-move-assigned) std::string: unspecified payload
      break; }
    case ASGV: case ASGM: {
      const int alt = op.b % kNAlt[ta], nk = kAlt[ta][alt];
      const bool mv = op.kind == ASGM;
      ensure(w, a);
      const int old_kind = kind_of(ta, ma.idx);
      if (old_kind != AK_NONE && old_kind != nk) st.cross = true;
      with(w, a, [&](auto& up) {
        using V = VOf<decltype(up)>;
        with_elem<V>(alt, op.n, [&](auto& tmp) {
          threw = guarded(w, [&] { if (mv) *up = std::move(tmp); else *up = std::as_const(tmp); });
        });
      });
      if (!threw) mset(ma, alt, elem_val(nk, op.n));
      break; }
    case ASGC: {
      if (ta == TY_B) { applicable = false; break; }
      ensure(w, a);
      const int old_kind = kind_of(ta, ma.idx);
      if (old_kind != AK_NONE && old_kind != AK_STR) st.cross = true;
      const std::string s = str_of(op.n); const char* p = s.c_str();
      with(w, a, [&](auto& up) {
        using V = VOf<decltype(up)>;
        if constexpr (!std::is_same<V, VB>::value) threw = guarded(w, [&] { *up = p; });
      });
      if (!threw) mset(ma, index_of_kind(ta, AK_STR), elem_val(AK_STR, op.n));
      break; }
    case ASGE: {
      ensure(w, a);
      with(w, a, [&](auto& up) { threw = guarded(w, [&] { *up = nop::EmptyVariant{}; }); });
      if (!threw) mset(ma, -1, Val{});
      break; }
    case BECOME: case BECOMEI: case BECOMET: {
      const int idx = (int)op.b - 2, N = kNAlt[ta];
      ensure(w, a);
      const bool oor = idx < 0 || idx >= N, noop = idx == ma.idx;
      const bool with_args = op.kind != BECOME && ta == TY_B;
      if (oor) st.oor = true;
      if (!with_args) {
        with(w, a, [&](auto& up) { threw = guarded(w, [&] { up->Become(idx); }); });
      } else if (op.kind == BECOMEI) {
        VB& v = *w.b[a - 3];
        threw = guarded(w, [&] { v.Become(idx, (int32_t)op.n); });
      } else {
        VB& v = *w.b[a - 3];
        T1 tmp((int32_t)op.n);
        threw = guarded(w, [&] { v.Become(idx, std::as_const(tmp)); });
      }
      if (threw) break;
      if (noop) { g_tally.become_noop++; break; }   // Become(current index) is a no-op: the invariant checks the payload stayed
      if (oor) {
        const int real = real_index(w, a);
        if (real != -1) { err = "become-oor: Become(" + std::to_string(idx) + ") on " + slot_name(a) + " left index() = " + std::to_string(real) + ", expected empty"; break; }
        mset(ma, -1, Val{});
      } else {
        mset(ma, idx, elem_val(kAlt[ta][idx], with_args ? op.n : 0));
      }
      break; }
    case VISIT: case CVISIT: {
      ensure(w, a);
      Seen sn;
      if (op.kind == VISIT) with(w, a, [&](auto& up) { NVis v{&sn}; up->Visit(v); });
      else with(w, a, [&](auto& up) { CVis v{&sn}; std::as_const(*up).Visit(v); });
      err = check_seen(sn, ma, a, op.kind == VISIT ? "Visit" : "const Visit");
      if (err.empty() && op.kind == VISIT) {   // the non-const visitor mutated the element it was given
        const int k = kind_of(ta, ma.idx);
        if (k == AK_STR) ma.str += '!'; else if (k != AK_NONE) ma.pay = bump(ma.pay);
      }
      break; }
    case GET: {
      ensure(w, a);
      const void* active = nullptr;
      with(w, a, [&](auto& up) { probe(*up, ma.idx, err, active); });
      if (!err.empty()) { err += " on " + slot_name(a); break; }
      with(w, a, [&](auto& up) { poke_active(*up, ma.idx, op.n); });   // write through the non-const get<I>() pointer
      if (ma.idx >= 0) mset(ma, ma.idx, elem_val(kind_of(ta, ma.idx), op.n));
      break; }
    case DESTROY: {
      if (!ma.alive) { applicable = false; break; }
      with(w, a, [&](auto& up) { up.reset(); });
      ma = M{};
      break; }
    case ARM:
      w.armed = true;
      return "";
    default: applicable = false; break;
  }
  w.armed = false;
  if (!applicable) g_tally.inapplicable++;
  if (threw) { st.threw = true; if (err.empty()) err = after_throw(w, a); }
  return err;
}

// the sequence being executed, for attribution of a sanitizer abort
static const std::vector<Op>* g_cur_ops = nullptr;
static size_t g_cur_step = 0;
static Report* g_rep = nullptr;
static void death_cb() {
  if (g_rep && g_cur_ops) {
    g_rep->current_case = case_text(*g_cur_ops);
    g_rep->current_detail = "step " + std::to_string(g_cur_step) + (g_cur_step < g_cur_ops->size() ? " (" + op_text((*g_cur_ops)[g_cur_step]) + ")" : " (final destruction)");
  }
  on_sanitizer_death();
}
static void terminate_cb() {
  if (g_rep && g_cur_ops) {
    g_rep->current_case = case_text(*g_cur_ops);
    g_rep->current_detail = "step " + std::to_string(g_cur_step) + (g_cur_step < g_cur_ops->size() ? " (" + op_text((*g_cur_ops)[g_cur_step]) + ")" : " (final destruction)");
  }
  on_terminate();
}

// Applies the sequence to the real objects and the model. Returns "" or "<class>: <detail> at step k (<op>)".
static std::string run_ops(const std::vector<Op>& ops, Report& rep, Stats* out = nullptr) {
  (void)rep;
  tracker().reset();
  World w;
  Stats st;
  g_cur_ops = &ops;
  std::string err;
  for (size_t k = 0; k < ops.size() && err.empty(); k++) {
    g_cur_step = k;
    g_tally.steps++;
    try {
      err = apply(w, ops[k], st);
      if (err.empty()) err = check_all(w);
    } catch (const std::exception& e) {   // only TrackedThrow is scripted (and caught in guarded); anything else is a corrupted element
      err = std::string("unexpected-exception: ") + e.what();
    }
    if (!err.empty()) err += " at step " + std::to_string(k) + " (" + op_text(ops[k]) + ")";
  }
  if (err.empty()) {
    g_cur_step = ops.size();
    for (int s = 0; s < kSlots; s++) { with(w, s, [&](auto& up) { up.reset(); }); w.m[s] = M{}; }
    auto& t = tracker();
    if (t.errors) err = "tracker-error: " + t.first_error + " at final destruction";
    else if (!t.live.empty()) err = "final-leak: " + std::to_string(t.live.size()) + " Tracked objects still alive after every Variant was destroyed";
    else if (t.constructed != t.destroyed) err = "final-leak: constructed " + std::to_string(t.constructed) + " != destroyed " + std::to_string(t.destroyed);
  } else {
    w.leak();
  }
  tracker().throw_countdown = -1;
  g_cur_ops = nullptr;
  if (out) *out = st;
  return err;
}

static std::string fail_key(const std::string& msg) { return "C12|Variant|" + msg.substr(0, msg.find(':')); }

// ---------------------------------------------------------------------------------------------- exhaustive alphabets (2 slots each)
static const char* const kAlphaP[] = {   // slots 0 and 1, both Variant<T1,T2,int,string>
    "ctor0.0.1.0", "ctorv.0.0.7", "ctorv.1.1.9", "ctorm.1.3.7", "ctorc.0.0.5", "cctor.1.0.0", "mctor.0.1.0", "casg.0.1.0", "casg.1.0.0", "masg.0.1.0", "masg.1.0.0",
    "casg.0.0.0", "masg.0.0.0", "masg.1.1.0", "asgv.0.0.3", "asgm.0.1.4", "asgv.1.2.5", "asgm.1.3.6", "asgc.0.0.11", "asge.0.0.0", "become.0.0.0", "become.0.3.0",
    "become.1.1.0", "become.0.4.0", "become.1.-2.0", "become.1.9.0", "visit.0.0.0", "cvisit.1.0.0", "get.0.0.21", "destroy.0.0.0", "destroy.1.0.0", "arm.0.0.0"};
static const char* const kAlphaQ[] = {   // slot 0 Variant<T1,T2,int,string>, slot 3 Variant<T2,T1>
    "ctor0.3.0.0", "ctorv.3.0.5", "ctorm.3.1.6", "ctorv.0.1.8", "ctorv.0.3.7", "cctor.0.3.0", "mctor.0.3.0", "cctor.3.3.0", "casg.0.3.0", "masg.0.3.0", "casg.3.3.0",
    "masg.3.3.0", "asgv.3.0.2", "asgm.3.1.3", "asgv.0.0.4", "asgv.0.2.5", "asge.3.0.0", "asge.0.0.0", "becomei.3.0.11", "becomei.3.1.12", "becomet.3.0.13", "becomet.3.1.14",
    "become.3.2.0", "become.3.-1.0", "becomei.3.7.15", "become.0.1.0", "visit.3.0.0", "cvisit.0.0.0", "get.3.0.22", "destroy.3.0.0", "destroy.0.0.0", "arm.0.0.0"};
static const char* const kAlphaR[] = {   // slot 4 Variant<T2,T1>, slot 5 Variant<T1,string>
    "ctor0.5.0.0", "ctorv.5.0.5", "ctorm.5.1.7", "ctorc.5.0.6", "ctorc.5.1.8", "ctorc.5.2.9", "ctorv.4.0.3", "ctorv.4.1.4", "cctor.5.4.0", "mctor.5.4.0", "cctor.5.5.0",
    "mctor.5.5.0", "casg.5.5.0", "masg.5.5.0", "asgv.5.0.2", "asgm.5.1.3", "asgc.5.0.10", "asge.5.0.0", "become.5.0.0", "become.5.1.0", "become.5.2.0", "become.5.7.0",
    "become.5.-2.0", "asgv.4.1.6", "becomet.4.0.1", "visit.5.0.0", "cvisit.5.0.0", "get.5.0.23", "destroy.5.0.0", "destroy.4.0.0", "arm.0.0.0", "casg.4.4.0"};

// ---- wide Variant: more alternatives than a signed byte can index ---------------------------------
namespace wide {
static long g_live = 0, g_bad = 0;
template <int I> struct W {
  int v; unsigned magic;
  explicit W(int x = 0) : v(x), magic(0x57a11fe0u + I) { g_live++; }
  W(const W& o) : v(o.v), magic(0x57a11fe0u + I) { if (o.magic != 0x57a11fe0u + I) g_bad++; g_live++; }
  W& operator=(const W& o) { if (magic != 0x57a11fe0u + I || o.magic != 0x57a11fe0u + I) g_bad++; v = o.v; return *this; }
  ~W() { if (magic != 0x57a11fe0u + I) g_bad++; magic = 0xdeadu; g_live--; }
};
template <typename Seq> struct Make;
template <std::size_t... Is> struct Make<std::index_sequence<Is...>> { using type = nop::Variant<W<(int)Is>...>; };
static constexpr int kCount = 140;
using WV = Make<std::make_index_sequence<kCount>>::type;

template <int I> static int visit_value(const W<I>& x) { return x.v; }
static int visit_value(nop::EmptyVariant) { return -1; }
// One alternative: assign, observe, copy, move, Become to the same index, switch to a neighbour, destroy.
template <int I> static std::string probe() {
  const long live0 = g_live;
  std::string where = "Variant with " + std::to_string(kCount) + " alternatives, alternative " + std::to_string(I) + ": ";
  {
    WV v;
    if (v.index() != -1 || !v.empty()) return "index-mismatch: " + where + "a default-constructed Variant is not empty";
    v = W<I>(I + 1000);
    if (v.index() != I) return "index-mismatch: " + where + "index() is " + std::to_string(v.index()) + " right after assigning that alternative";
    if (!v.template is<W<I>>() || v.template get<W<I>>() == nullptr || v.template get<W<I>>()->v != I + 1000) return "wrong-value: " + where + "is<T>()/get<T>() do not see the assigned value";
    if (g_live != live0 + 1) return "live-count: " + where + std::to_string(g_live - live0) + " elements alive, 1 expected after the assignment";
    int seen = -2; v.Visit([&](const auto& x) { seen = visit_value(x); });
    if (seen != I + 1000) return "wrong-value: " + where + "Visit passed " + (seen == -1 ? std::string("EmptyVariant") : std::to_string(seen));
    WV c(v);
    if (c.index() != I || c.template get<W<I>>() == nullptr || c.template get<W<I>>()->v != I + 1000) return "index-mismatch: " + where + "copy has index " + std::to_string(c.index());
    if (g_live != live0 + 2) return "live-count: " + where + std::to_string(g_live - live0) + " elements alive, 2 expected after a copy";
    WV m(std::move(c));
    if (m.index() != I) return "index-mismatch: " + where + "move-constructed Variant has index " + std::to_string(m.index());
    v.Become(I);   // already holds I: nothing is constructed or destroyed
    if (v.index() != I || v.template get<W<I>>()->v != I + 1000) return "index-mismatch: " + where + "Become(same index) changed the Variant";
    constexpr int J = I > 0 ? I - 1 : I + 1;
    v = W<J>(7);
    if (v.index() != J || v.template is<W<I>>()) return "index-mismatch: " + where + "after switching to alternative " + std::to_string(J) + " index() is " + std::to_string(v.index());
    v = nop::EmptyVariant{};
    if (!v.empty()) return "index-mismatch: " + where + "not empty after assigning EmptyVariant";
  }
  if (g_live != live0) return "final-leak: " + where + std::to_string(g_live - live0) + " elements still alive after all Variants are gone";
  if (g_bad) return "tracker-error: " + where + "an element was used or destroyed while not alive";
  return "";
}
static std::string run(int which) {
  switch (which) {
    case 0: return probe<0>(); case 1: return probe<1>(); case 2: return probe<63>(); case 3: return probe<126>(); case 4: return probe<127>();
    case 5: return probe<128>(); case 6: return probe<129>(); default: return probe<139>();
  }
}
static const int kProbes = 8;
}  // namespace wide

// ---- converting construction / assignment picks the alternative the argument converts to ------------
// (the library documents that a pointer does not select a bool alternative)
namespace conv {
static std::string run(int which) {
  using VS = nop::Variant<bool, std::string>;
  using VI = nop::Variant<bool, int, std::string>;
  switch (which) {
    case 0: { VS v("abc"); if (!v.is<std::string>() || *v.get<std::string>() != "abc") return "index-mismatch: Variant<bool,std::string> constructed from a string literal holds alternative " + std::to_string(v.index()) + ", not the string"; return ""; }
    case 1: { VS v; v = "abc"; if (!v.is<std::string>() || *v.get<std::string>() != "abc") return "index-mismatch: Variant<bool,std::string> assigned a string literal holds alternative " + std::to_string(v.index()); return ""; }
    case 2: { const char* p = "xyz"; VS a(p); VS b; b = p; if (a.index() != b.index() || !a.is<std::string>()) return "index-mismatch: construction from const char* selects alternative " + std::to_string(a.index()) + ", assignment selects " + std::to_string(b.index()); return ""; }
    case 3: { VS v(true); if (!v.is<bool>() || *v.get<bool>() != true) return "index-mismatch: Variant<bool,std::string> constructed from true holds alternative " + std::to_string(v.index()); return ""; }
    case 4: { VI v(7); if (!v.is<int>() || *v.get<int>() != 7) return "index-mismatch: Variant<bool,int,std::string> constructed from 7 holds alternative " + std::to_string(v.index()); return ""; }
    default: { VI v(std::string("s")); VI w("lit"); if (!v.is<std::string>() || !w.is<std::string>()) return "index-mismatch: Variant<bool,int,std::string> constructed from a string holds alternative " + std::to_string(w.index()); return ""; }
  }
}
static const int kProbes = 6;
}  // namespace conv

int main(int argc, char** argv) {
  Args a = Args::parse(argc, argv);
  Report rep; rep.property = "C12"; rep.tier = a.tier; rep.seed = a.seed; rep.out_path = a.out; rep.unit = a.unit.empty() ? "variant" : a.unit;
  install_report(&rep);
  g_rep = &rep;
  std::set_terminate(terminate_cb);
#if defined(__has_feature)
#if __has_feature(address_sanitizer)
  __sanitizer_set_death_callback(death_cb);
#endif
#endif
  const bool thorough = a.tier == "thorough";

  if (!a.replay.empty()) {
    FILE* f = fopen(a.replay.c_str(), "r"); if (!f) return 2;
    std::string text, cur; int ch;
    while ((ch = fgetc(f)) != EOF) { if (ch == '\n') { if (!cur.empty() && cur[0] != '#') text = cur; cur.clear(); } else cur += (char)ch; }
    if (!cur.empty() && cur[0] != '#') text = cur;
    fclose(f);
    if (text.compare(0, 14, "prop=C12 conv=") == 0) {
      std::string m = conv::run(atoi(text.c_str() + 14));
      if (!m.empty()) { printf("REPLAY-FAIL %s\n", m.c_str()); fflush(stdout); _exit(1); }
      printf("REPLAY-PASS\n"); return 0;
    }
    if (text.compare(0, 14, "prop=C12 wide=") == 0) {
      std::string m = wide::run(atoi(text.c_str() + 14));
      if (!m.empty()) { printf("REPLAY-FAIL %s\n", m.c_str()); fflush(stdout); _exit(1); }
      printf("REPLAY-PASS\n"); return 0;
    }
    const std::string pre = "prop=C12 ops=";
    std::vector<Op> ops;
    if (text.compare(0, pre.size(), pre) != 0 || !ops_parse(text.substr(pre.size()), ops)) { fprintf(stderr, "bad replay file\n"); return 2; }
    rep.current_case = text;
    std::string m = run_ops(ops, rep);
    if (!m.empty()) { printf("REPLAY-FAIL %s\n", m.c_str()); fflush(stdout); _exit(1); }
    printf("REPLAY-PASS\n");
    return 0;
  }

  if (a.shard == 0) {
    for (int w = 0; w < wide::kProbes; w++) {
      rep.current_case = "prop=C12 wide=" + std::to_string(w); rep.evaluations++;
      std::string m = wide::run(w);
      if (!m.empty()) rep.fail(m, rep.current_case, "C12|wide|" + m.substr(0, m.find(':')));
      else { rep.label("wide-variant-probes"); rep.nontriv(hash_str(rep.current_case)); }
    }
  }
  if (a.shard == 0) {
    for (int w = 0; w < conv::kProbes; w++) {
      rep.current_case = "prop=C12 conv=" + std::to_string(w); rep.evaluations++;
      std::string m = conv::run(w);
      if (!m.empty()) rep.fail(m, rep.current_case, "C12|conv|" + std::to_string(w));
      else rep.label("converting-construction-probes");
    }
  }
  const std::string only = a.get("only");   // "", "exhaustive" or "random" (development aid)
  long n_cross = 0, n_self = 0, n_threw = 0, n_conv = 0, n_oor = 0;
  auto run_case = [&](const std::vector<Op>& ops) -> std::string {
    rep.evaluations++;
    Stats st;
    std::string m = run_ops(ops, rep, &st);
    if (!m.empty()) return m;
    if (st.cross) n_cross++;
    if (st.self) n_self++;
    if (st.threw) n_threw++;
    if (st.conv) n_conv++;
    if (st.oor) n_oor++;
    if (st.cross || st.threw) rep.nontriv(hash_str(ops_text(ops)));
    return m;
  };

  // (a) bounded-exhaustive: every sequence of length <= L over each 32-op alphabet, shortest first
  bool failed = false;
  if (only != "random") {
    const int L = thorough ? 4 : 3;
    struct Cfg { const char* name; const char* const* alpha; size_t n; };
    const Cfg cfgs[] = {{"VA0+VA1", kAlphaP, sizeof kAlphaP / sizeof *kAlphaP}, {"VA0+VB3", kAlphaQ, sizeof kAlphaQ / sizeof *kAlphaQ}, {"VB4+VC5", kAlphaR, sizeof kAlphaR / sizeof *kAlphaR}};
    uint64_t counter = 0;
    for (const Cfg& c : cfgs) {
      std::vector<Op> alpha;
      for (size_t i = 0; i < c.n; i++) { std::vector<Op> one; if (!ops_parse(c.alpha[i], one) || one.size() != 1) { fprintf(stderr, "bad alphabet entry %s\n", c.alpha[i]); return 2; } alpha.push_back(one[0]); }
      long seqs = 0;
      for (int len = 1; len <= L && !failed; len++) {
        std::vector<size_t> ix((size_t)len, 0);
        std::vector<Op> ops((size_t)len);
        for (;;) {
          if ((int)(counter++ % (uint64_t)a.nshards) == a.shard) {
            for (int i = 0; i < len; i++) ops[(size_t)i] = alpha[ix[(size_t)i]];
            std::string m = run_case(ops);
            seqs++;
            if (!m.empty()) { rep.fail(m, case_text(ops), fail_key(m)); rep.label(std::string("exhaustive-failed:") + c.name); failed = true; break; }
            if (len == L && seqs % 9973 == 0) rep.sample(std::string("exhaustive ") + c.name + ": " + ops_text(ops));
          }
          int p = len - 1;
          while (p >= 0 && ++ix[(size_t)p] == alpha.size()) { ix[(size_t)p] = 0; p--; }
          if (p < 0) break;
        }
      }
      rep.label(std::string("exhaustive-sequences:") + c.name + (thorough ? ":len<=4" : ":len<=3"), seqs);
      if (failed) break;
    }
    rep.label(thorough ? "exhaustive:all-sequences-len<=4-over-3x32-op-alphabets" : "exhaustive:all-sequences-len<=3-over-3x32-op-alphabets");
  }

  // (b) random sequences of up to 60 ops over all six slots
  if (only != "exhaustive" && !failed) {
    long cases = (thorough ? 200000 : 5000) * (a.scale > 0 ? a.scale : 1) / a.nshards;
    if (cases < 1) cases = 1;
    int sampled = 0;
    long total_len = 0;
    TapeRun r = rc_tapes(a.seed * 0x9e3779b97f4a7c15ull + (uint64_t)a.shard, (int)cases, 100, 3.5, [&](const std::vector<uint64_t>& tape) {
      Tape t(tape);
      std::vector<Op> ops = decode_ops(t);
      total_len += (long)ops.size();
      std::string m = run_case(ops);
      if (m.empty() && ops.size() >= 6 && ops.size() <= 14 && sampled < 3 && rep.evaluations % 7 == 0) { sampled++; rep.max_samples = 12; rep.sample("random: " + ops_text(ops)); }
      return m;
    });
    if (!r.ok) {
      if (r.message.rfind("HARNESS:", 0) == 0) { rep.fail(r.message, "prop=C12 ops=", "C12|harness|rapidcheck"); }
      else {
        Tape t(r.tape);
        std::vector<Op> ops = decode_ops(t);
        std::string m = run_ops(ops, rep);   // the shrunk case, re-executed for its own message
        if (m.empty()) m = r.message;
        rep.fail(m, case_text(ops), fail_key(m));
      }
      failed = true;
    }
    rep.label("random-sequences", r.successes);
    rep.label("random-ops-total", total_len);
  }

  rep.label("seq:cross-alternative-assignment", n_cross);
  rep.label("seq:self-assignment", n_self);
  rep.label("seq:throwing-constructor", n_threw);
  rep.label("seq:converting-copy-or-assign", n_conv);
  rep.label("seq:become-out-of-range", n_oor);
  for (int k = 0; k < NKINDS; k++) rep.label(std::string("op:") + kKindName[k], g_tally.op[k]);
  rep.label("op:inapplicable-noop", g_tally.inapplicable);
  rep.label("op:become-current-index-noop", g_tally.become_noop);
  rep.label("op:dead-slot-default-constructed-first", g_tally.materialised);
  rep.label("steps", g_tally.steps);
  rep.label("conv-ctor:picked-first-constructible-over-identical-type", g_tally.conv_ctor_first);
  if (g_tally.throws) rep.exclude("state after throwing constructor: either outcome accepted", g_tally.throws);
  if (g_tally.moved_str) rep.exclude("moved-from / self-move-assigned std::string payload unspecified: model re-synchronised", g_tally.moved_str);
  if (g_tally.conv_ctor_open) rep.exclude("converting construction: any alternative constructible from the source element accepted", g_tally.conv_ctor_open);
  rep.exhaustive = false;
  rep.write("done");
  for (auto& f : rep.failures) fprintf(stderr, "FAIL %s\n  case: %s\n", f.message.c_str(), f.case_text.c_str());
  if (!rep.ok()) { fflush(stdout); fflush(stderr); _exit(1); }   // objects of a failed case were abandoned on purpose: skip the exit-time leak check
  return 0;
}
