// C18: table hashes, interface hashes and method selectors are stable, standard SipHash-2-4 values
// of the name strings; compile-time value == run-time value == reference.
//
// Oracle (independent of the library): ref_siphash24() below, written from the SipHash paper
// (byte-wise little-endian block load from UNSIGNED bytes, 2 compression rounds per block, 4
// finalisation rounds, message length mod 256 in the top byte of the last block). It is checked
// against the 64 official vectors first; a mismatch there is a harness error (exit 2).
//
//  A. run-time nop::SipHash::Compute over BlockReader<uint8_t> AND BlockReader<char> (the form every
//     macro uses) == reference, for every length 0..600 x tape-generated content x tape-generated keys,
//     plus deterministic sweeps (every length, fixed patterns) and a high-byte boundary set.
//  B. constexpr Compute("literal", k0, k1) forced to compile time (HashValue<>::Value) == run-time
//     Compute over the same array (terminating NUL included) == reference.
//  C. generated declarations (gen_consts.h from verif/gen_consts.py): NOP_TABLE_NS tables,
//     NOP_INTERFACE / NOP_INTERFACE32 interfaces, NOP_METHOD selectors == values computed by the
//     Python reference with the keys pinned as literals == (tables) the hash field on the wire.
//
// Case text:  prop=C18 hash form=u8|char k0=<hex> k1=<hex> data=<hex>
//             prop=C18 const=lit:<i> | u8lit:<i> | table:<i> | iface:<i> | method:<iface i>.<Name>
// Switch:     --exclude char-high-bytes   skip (and count) char-form inputs with a byte >= 0x80 and
//             generated names with non-ASCII bytes (and selectors keyed by such an interface hash).
#include <cinttypes>
#include <cstdio>
#include <cstring>
#include <functional>
#include <memory>
#include <set>
#include <type_traits>

#include <nop/rpc/interface.h>
#include <nop/serializer.h>
#include <nop/table.h>
#include <nop/utility/sip_hash.h>

#include "kit/core.h"
#include "kit/gen.h"
#include "kit/io.h"
#include "kit/rcdrv.h"
#include "kit/report.h"

#include "gen_consts.h"

using namespace vk;

// ---- reference SipHash-2-4 (from the paper) ------------------------------------------------------
static inline uint64_t rotl64(uint64_t x, unsigned b) { return (x << b) | (x >> (64 - b)); }
struct SipState {
  uint64_t v0, v1, v2, v3;
  void round() {
    v0 += v1; v1 = rotl64(v1, 13); v1 ^= v0; v0 = rotl64(v0, 32);
    v2 += v3; v3 = rotl64(v3, 16); v3 ^= v2;
    v0 += v3; v3 = rotl64(v3, 21); v3 ^= v0;
    v2 += v1; v1 = rotl64(v1, 17); v1 ^= v2; v2 = rotl64(v2, 32);
  }
};
static uint64_t ref_siphash24(const uint8_t* in, size_t len, uint64_t k0, uint64_t k1) {
  SipState s{k0 ^ 0x736f6d6570736575ull, k1 ^ 0x646f72616e646f6dull, k0 ^ 0x6c7967656e657261ull, k1 ^ 0x7465646279746573ull};
  const size_t nblocks = len / 8;
  for (size_t w = 0; w < nblocks; w++) {
    uint64_t m = 0;
    for (unsigned j = 0; j < 8; j++) m |= (uint64_t)in[8 * w + j] << (8 * j);
    s.v3 ^= m; s.round(); s.round(); s.v0 ^= m;
  }
  uint64_t last = (uint64_t)(len & 0xff) << 56;
  for (size_t j = 0; j < len % 8; j++) last |= (uint64_t)in[8 * nblocks + j] << (8 * j);
  s.v3 ^= last; s.round(); s.round(); s.v0 ^= last;
  s.v2 ^= 0xff;
  s.round(); s.round(); s.round(); s.round();
  return s.v0 ^ s.v1 ^ s.v2 ^ s.v3;
}

// Official SipHash-2-4 64-bit test vectors: key 00..0f, message 00..(n-1), n = 0..63.
static const uint64_t kOfficial[64] = {
    0x726fdb47dd0e0e31ull, 0x74f839c593dc67fdull, 0x0d6c8009d9a94f5aull, 0x85676696d7fb7e2dull,
    0xcf2794e0277187b7ull, 0x18765564cd99a68dull, 0xcbc9466e58fee3ceull, 0xab0200f58b01d137ull,
    0x93f5f5799a932462ull, 0x9e0082df0ba9e4b0ull, 0x7a5dbbc594ddb9f3ull, 0xf4b32f46226bada7ull,
    0x751e8fbc860ee5fbull, 0x14ea5627c0843d90ull, 0xf723ca908e7af2eeull, 0xa129ca6149be45e5ull,
    0x3f2acc7f57c29bdbull, 0x699ae9f52cbe4794ull, 0x4bc1b3f0968dd39cull, 0xbb6dc91da77961bdull,
    0xbed65cf21aa2ee98ull, 0xd0f2cbb02e3b67c7ull, 0x93536795e3a33e88ull, 0xa80c038ccd5ccec8ull,
    0xb8ad50c6f649af94ull, 0xbce192de8a85b8eaull, 0x17d835b85bbb15f3ull, 0x2f2e6163076bcfadull,
    0xde4daaaca71dc9a5ull, 0xa6a2506687956571ull, 0xad87a3535c49ef28ull, 0x32d892fad841c342ull,
    0x7127512f72f27cceull, 0xa7f32346f95978e3ull, 0x12e0b01abb051238ull, 0x15e034d40fa197aeull,
    0x314dffbe0815a3b4ull, 0x027990f029623981ull, 0xcadcd4e59ef40c4dull, 0x9abfd8766a33735cull,
    0x0e3ea96b5304a7d0ull, 0xad0c42d6fc585992ull, 0x187306c89bc215a9ull, 0xd4a60abcf3792b95ull,
    0xf935451de4f21df2ull, 0xa9538f0419755787ull, 0xdb9acddff56ca510ull, 0xd06c98cd5c0975ebull,
    0xe612a3cb9ecba951ull, 0xc766e62cfcadaf96ull, 0xee64435a9752fe72ull, 0xa192d576b245165aull,
    0x0a8787bf8ecb74b2ull, 0x81b3e73d20b49b6full, 0x7fa8220ba3b2eceaull, 0x245731c13ca42499ull,
    0xb78dbfaf3a8d83bdull, 0xea1ad565322a1a0bull, 0x60e61c23a3795013ull, 0x6606d7e446282b93ull,
    0x6ca4ecb15c5f91e1ull, 0x9f626da15c9625f3ull, 0xe51b38608ef25f57ull, 0x958a324ceb064572ull,
};
static std::string reference_self_check() {
  uint8_t msg[64];
  for (int i = 0; i < 64; i++) msg[i] = (uint8_t)i;
  for (size_t n = 0; n < 64; n++) {
    uint64_t got = ref_siphash24(msg, n, 0x0706050403020100ull, 0x0f0e0d0c0b0a0908ull);
    if (got != kOfficial[n]) {
      char b[160]; snprintf(b, sizeof b, "reference SipHash-2-4 fails official vector %zu: 0x%016" PRIx64 " != 0x%016" PRIx64, n, got, kOfficial[n]);
      return b;
    }
  }
  return "";
}

// Keys pinned as literals on purpose (stability across independently built peers).
static const uint64_t kTableK0 = 0xbaadf00ddeadbeefull, kTableK1 = 0x0123456789abcdefull;
static const uint64_t kIfaceK0 = 0xdeadcafebaadf00dull, kIfaceK1 = 0x0123456789abcdefull;

static bool has_high(const uint8_t* p, size_t n) { for (size_t i = 0; i < n; i++) if (p[i] >= 0x80) return true; return false; }
static bool nontrivial_input(const uint8_t* p, size_t n) { return (n >= 9 && n % 8 != 0) || has_high(p, n); }
static uint64_t input_hash(const uint8_t* p, size_t n, uint64_t k0, uint64_t k1) {
  uint64_t h = fnv1a(p, n);
  h = fnv1a(&n, sizeof n, h); h = fnv1a(&k0, 8, h); h = fnv1a(&k1, 8, h);
  return h;
}
static std::string hexs(const uint8_t* p, size_t n) { std::ostringstream os; hex_to(os, p, n); return os.str(); }
static std::string abbreviated(const uint8_t* p, size_t n) { return n <= 24 ? hexs(p, n) : hexs(p, 16) + "..(" + std::to_string(n) + "B)"; }

// ---- library calls, on exact-size heap copies so that ASan sees any over-read -----------------
// F_STRING / F_VSCHAR: the documented generic entry point Compute(container, k0, k1) with a container of plain /
// signed char (std::string, std::vector<signed char>)
enum Form { F_U8 = 0, F_CHAR = 1, F_STRING = 2, F_VSCHAR = 3, F_COUNT = 4 };
static const char* form_name(int f) { static const char* n[] = {"u8", "char", "string", "vschar"}; return n[f]; }
static int form_by_name(const std::string& s) { for (int f = 0; f < F_COUNT; f++) if (s == form_name(f)) return f; return -1; }
static bool form_signed(int f) { return f != F_U8; }

__attribute__((noinline)) static uint64_t lib_hash_u8(const uint8_t* p, size_t n, uint64_t k0, uint64_t k1) {
  std::unique_ptr<uint8_t[]> buf(new uint8_t[n]);
  if (n) std::memcpy(buf.get(), p, n);
  return nop::SipHash::Compute(nop::BlockReader<std::uint8_t>(buf.get(), n), k0, k1);
}
__attribute__((noinline)) static uint64_t lib_hash_char(const uint8_t* p, size_t n, uint64_t k0, uint64_t k1) {
  std::unique_ptr<uint8_t[]> buf(new uint8_t[n]);
  if (n) std::memcpy(buf.get(), p, n);
  return nop::SipHash::Compute(nop::BlockReader<char>(reinterpret_cast<const char*>(buf.get()), n), k0, k1);
}

__attribute__((noinline)) static uint64_t lib_hash_string(const uint8_t* p, size_t n, uint64_t k0, uint64_t k1) {
  std::string c(reinterpret_cast<const char*>(p), n);
  return nop::SipHash::Compute(c, k0, k1);
}
__attribute__((noinline)) static uint64_t lib_hash_vschar(const uint8_t* p, size_t n, uint64_t k0, uint64_t k1) {
  std::vector<signed char> c(n);
  if (n) std::memcpy(c.data(), p, n);
  return nop::SipHash::Compute(c, k0, k1);
}

struct Verdict {
  std::string message;   // "" = pass; otherwise "<class>: ..."
  std::string cls;       // failure class
  std::string object;    // for the key
  bool ok() const { return message.empty(); }
};

// One part-A case.
static Verdict check_hash(int form, uint64_t k0, uint64_t k1, const uint8_t* p, size_t n) {
  Verdict v;
  const uint64_t want = ref_siphash24(p, n, k0, k1);
  const uint64_t got = form == F_U8 ? lib_hash_u8(p, n, k0, k1) : form == F_CHAR ? lib_hash_char(p, n, k0, k1) : form == F_STRING ? lib_hash_string(p, n, k0, k1) : lib_hash_vschar(p, n, k0, k1);
  if (got == want) return v;
  const bool high = has_high(p, n);
  v.cls = (form_signed(form) && high) ? "wrong-hash-high-bytes" : "wrong-hash";
  static const char* objs[] = {"SipHash::Compute(BlockReader<uint8_t>)", "SipHash::Compute(BlockReader<char>)", "SipHash::Compute(std::string)", "SipHash::Compute(std::vector<signed char>)"};
  v.object = objs[form];
  char b[400];
  snprintf(b, sizeof b, "%s: nop::SipHash::Compute(BlockReader<%s>(data, %zu), 0x%016" PRIx64 ", 0x%016" PRIx64 ") = 0x%016" PRIx64
           ", standard SipHash-2-4 of the bytes is 0x%016" PRIx64 " (data=%s%s)",
           v.cls.c_str(), form == F_U8 ? "std::uint8_t" : form == F_CHAR ? "char" : form == F_STRING ? "char> / std::string<" : "signed char> / std::vector<", n, k0, k1, got, want, abbreviated(p, n).c_str(),
           (form_signed(form) && high) ? "; contains bytes >= 0x80 read through signed char" : "");
  v.message = b;
  return v;
}
static std::string hash_case_text(int form, uint64_t k0, uint64_t k1, const uint8_t* p, size_t n) {
  char b[96]; snprintf(b, sizeof b, "prop=C18 hash form=%s k0=%" PRIx64 " k1=%" PRIx64 " data=", form_name(form), k0, k1);
  return std::string(b) + hexs(p, n);
}

// ---- part B: literals -------------------------------------------------------------------------
// X(index, literal, k0, k1). String lengths 0..40 (hashed sizes 1..41: the array overload hashes the
// terminating NUL too), then literals with bytes >= 0x80.
#define C18_LITERALS(X) \
  X(0, "", 0x0ull, 0x0ull) \
  X(1, "u", 0xbaadf00ddeadbeefull, 0x0123456789abcdefull) \
  X(2, "br", 0xdeadcafebaadf00dull, 0x0123456789abcdefull) \
  X(3, " fo", 0x0706050403020100ull, 0x0f0e0d0c0b0a0908ull) \
  X(4, "jump", 0xffffffffffffffffull, 0xffffffffffffffffull) \
  X(5, " over", 0x8000000000000001ull, 0x7fffffffffffffffull) \
  X(6, " the l", 0x9e3779b97f4a7c15ull, 0xc2b2ae3d27d4eb4full) \
  X(7, "lazy do", 0x0ull, 0x0ull) \
  X(8, "dog; io.", 0xbaadf00ddeadbeefull, 0x0123456789abcdefull) \
  X(9, "io.github", 0xdeadcafebaadf00dull, 0x0123456789abcdefull) \
  X(10, "thub.eieio", 0x0706050403020100ull, 0x0f0e0d0c0b0a0908ull) \
  X(11, "eieio.examp", 0xffffffffffffffffull, 0xffffffffffffffffull) \
  X(12, ".example.Int", 0x8000000000000001ull, 0x7fffffffffffffffull) \
  X(13, "ple.Interface", 0x9e3779b97f4a7c15ull, 0xc2b2ae3d27d4eb4full) \
  X(14, "nterfaceName/v", 0x0ull, 0x0ull) \
  X(15, "aceName/v2 ~ [0", 0xbaadf00ddeadbeefull, 0x0123456789abcdefull) \
  X(16, "me/v2 ~ [0123456", 0xdeadcafebaadf00dull, 0x0123456789abcdefull) \
  X(17, " ~ [0123456789] {", 0x0706050403020100ull, 0x0f0e0d0c0b0a0908ull) \
  X(18, "123456789] {A-Z} (", 0xffffffffffffffffull, 0xffffffffffffffffull) \
  X(19, "6789] {A-Z} (a+b)*c", 0x8000000000000001ull, 0x7fffffffffffffffull) \
  X(20, " {A-Z} (a+b)*c != d^", 0x9e3779b97f4a7c15ull, 0xc2b2ae3d27d4eb4full) \
  X(21, "} (a+b)*c != d^e | f&", 0x0ull, 0x0ull) \
  X(22, "b)*c != d^e | f&g, NOP", 0xbaadf00ddeadbeefull, 0x0123456789abcdefull) \
  X(23, "!= d^e | f&g, NOP_TABLE", 0xdeadcafebaadf00dull, 0x0123456789abcdefull) \
  X(24, "e | f&g, NOP_TABLE_NS: l", 0x0706050403020100ull, 0x0f0e0d0c0b0a0908ull) \
  X(25, "&g, NOP_TABLE_NS: libnop#", 0xffffffffffffffffull, 0xffffffffffffffffull) \
  X(26, "OP_TABLE_NS: libnop#rocks ", 0x8000000000000001ull, 0x7fffffffffffffffull) \
  X(27, "BLE_NS: libnop#rocks <tag> ", 0x9e3779b97f4a7c15ull, 0xc2b2ae3d27d4eb4full) \
  X(28, "S: libnop#rocks <tag> 'singl", 0x0ull, 0x0ull) \
  X(29, "bnop#rocks <tag> 'single' @ho", 0xbaadf00ddeadbeefull, 0x0123456789abcdefull) \
  X(30, "quick brown fox jumps over the", 0xdeadcafebaadf00dull, 0x0123456789abcdefull) \
  X(31, " brown fox jumps over the lazy ", 0x0706050403020100ull, 0x0f0e0d0c0b0a0908ull) \
  X(32, "n fox jumps over the lazy dog; i", 0xffffffffffffffffull, 0xffffffffffffffffull) \
  X(33, " jumps over the lazy dog; io.gith", 0x8000000000000001ull, 0x7fffffffffffffffull) \
  X(34, "s over the lazy dog; io.github.eie", 0x9e3779b97f4a7c15ull, 0xc2b2ae3d27d4eb4full) \
  X(35, "r the lazy dog; io.github.eieio.exa", 0x0ull, 0x0ull) \
  X(36, " lazy dog; io.github.eieio.example.I", 0xbaadf00ddeadbeefull, 0x0123456789abcdefull) \
  X(37, " dog; io.github.eieio.example.Interfa", 0xdeadcafebaadf00dull, 0x0123456789abcdefull) \
  X(38, " io.github.eieio.example.InterfaceName", 0x0706050403020100ull, 0x0f0e0d0c0b0a0908ull) \
  X(39, "ithub.eieio.example.InterfaceName/v2 ~ ", 0xffffffffffffffffull, 0xffffffffffffffffull) \
  X(40, ".eieio.example.InterfaceName/v2 ~ [01234", 0x8000000000000001ull, 0x7fffffffffffffffull) \
  X(41, "\xc3\xa9", 0x9e3779b97f4a7c15ull, 0xc2b2ae3d27d4eb4full) \
  X(42, "caf\xc3\xa9", 0x0ull, 0x0ull) \
  X(43, "\x80", 0xbaadf00ddeadbeefull, 0x0123456789abcdefull) \
  X(44, "\xff\xff\xff\xff\xff\xff\xff", 0xdeadcafebaadf00dull, 0x0123456789abcdefull) \
  X(45, "na\xc3\xafve r\xc3\xa9sum\xc3\xa9", 0x0706050403020100ull, 0x0f0e0d0c0b0a0908ull) \
  X(46, "\xe6\x97\xa5\xe6\x9c\xac\xe8\xaa\x9e.Table", 0xffffffffffffffffull, 0xffffffffffffffffull) \
  X(47, "io.github.\xf0\x9f\x98\x80.Interface", 0x8000000000000001ull, 0x7fffffffffffffffull) \
  X(48, "1234567\x80", 0x9e3779b97f4a7c15ull, 0xc2b2ae3d27d4eb4full) \
  X(49, "12345678\x80", 0x0ull, 0x0ull) \
  X(50, "123456\x80", 0xbaadf00ddeadbeefull, 0x0123456789abcdefull) \
  X(51, "\x80" "abcdefghijklmnop", 0xdeadcafebaadf00dull, 0x0123456789abcdefull) \
  X(52, "\xd0\x9f\xd1\x80\xd0\xb8\xd0\xb2\xd0\xb5\xd1\x82, \xd0\xbc\xd0\xb8\xd1\x80!", 0x0706050403020100ull, 0x0f0e0d0c0b0a0908ull) \
  X(53, "abcdefghijklmnopqrstuvwxyz", 0x0ull, 0x0ull)

// constexpr unsigned byte arrays: compile-time evaluation with bytes >= 0x80 that does not go through char.
static constexpr std::uint8_t kU8Lit0[] = {0x80};
static constexpr std::uint8_t kU8Lit1[] = {0xff, 0xfe, 0xfd, 0xfc, 0xfb, 0xfa, 0xf9};
static constexpr std::uint8_t kU8Lit2[] = {0x00, 0x11, 0x22, 0x33, 0x44, 0x55, 0x66, 0x77};
static constexpr std::uint8_t kU8Lit3[] = {0x81, 0x92, 0xa3, 0xb4, 0xc5, 0xd6, 0xe7, 0xf8, 0x09};
static constexpr std::uint8_t kU8Lit4[] = {0xc3, 0xa9, 0x00, 0xe6, 0x97, 0xa5, 0xe6, 0x9c, 0xac, 0xe8, 0xaa, 0x9e, 0x7f, 0x80, 0xff, 0x01, 0x02};
static constexpr std::uint8_t kU8Lit5[] = {0xf0, 0x9f, 0x98, 0x80, 0xf0, 0x9f, 0x98, 0x81, 0xf0, 0x9f, 0x98, 0x82, 0xf0, 0x9f, 0x98, 0x83,
                                           0xf0, 0x9f, 0x98, 0x84, 0xf0, 0x9f, 0x98, 0x85, 0xf0, 0x9f, 0x98, 0x86, 0xf0, 0x9f, 0x98};
#define C18_U8_LITERALS(X) \
  X(0, kU8Lit0, 0x0ull, 0x0ull) \
  X(1, kU8Lit1, 0xbaadf00ddeadbeefull, 0x0123456789abcdefull) \
  X(2, kU8Lit2, 0xdeadcafebaadf00dull, 0x0123456789abcdefull) \
  X(3, kU8Lit3, 0x0706050403020100ull, 0x0f0e0d0c0b0a0908ull) \
  X(4, kU8Lit4, 0xffffffffffffffffull, 0xffffffffffffffffull) \
  X(5, kU8Lit5, 0x9e3779b97f4a7c15ull, 0xc2b2ae3d27d4eb4full)

struct LitRow { int idx; bool u8; Bytes bytes; uint64_t k0, k1, compile_time, compile_time_reader; };   // _reader: Compute(BlockReader<T>(array), ...), the container entry point   // bytes: everything that is hashed
static std::vector<LitRow> literal_rows() {
  std::vector<LitRow> r;
#define X(i, lit, K0, K1) r.push_back({i, false, Bytes(reinterpret_cast<const uint8_t*>(lit), reinterpret_cast<const uint8_t*>(lit) + sizeof(lit)), K0, K1, \
                                       static_cast<uint64_t>(nop::HashValue<nop::SipHash::Compute(lit, K0, K1)>::Value), \
                                       static_cast<uint64_t>(nop::HashValue<nop::SipHash::Compute(nop::BlockReader<char>(lit), K0, K1)>::Value)});
  C18_LITERALS(X)
#undef X
#define X(i, arr, K0, K1) r.push_back({i, true, Bytes(arr, arr + sizeof(arr)), K0, K1, \
                                       static_cast<uint64_t>(nop::HashValue<nop::SipHash::Compute(arr, K0, K1)>::Value), \
                                       static_cast<uint64_t>(nop::HashValue<nop::SipHash::Compute(nop::BlockReader<std::uint8_t>(arr), K0, K1)>::Value)});
  C18_U8_LITERALS(X)
#undef X
  return r;
}
// The compile-time form is also usable where the language demands a constant expression.
enum : std::uint64_t { kEnumForced = nop::SipHash::Compute("io.github.eieio.example.InterfaceName", 0xdeadcafebaadf00dull, 0x0123456789abcdefull) };

static Verdict check_literal(const LitRow& l, bool exclude_high, Report* rep) {
  Verdict v;
  const uint8_t* p = l.bytes.data(); const size_t n = l.bytes.size();
  const bool high = has_high(p, n);
  const uint64_t rt = l.u8 ? lib_hash_u8(p, n, l.k0, l.k1) : lib_hash_char(p, n, l.k0, l.k1);
  const uint64_t want = ref_siphash24(p, n, l.k0, l.k1);
  char b[400];
  v.object = l.u8 ? "constexpr SipHash::Compute(uint8_t[])" : "constexpr SipHash::Compute(literal)";
  if (l.compile_time != rt) {
    v.cls = "ct-rt-mismatch";
    snprintf(b, sizeof b, "ct-rt-mismatch: compile-time SipHash::Compute over %zu bytes (%s) = 0x%016" PRIx64 " but run-time = 0x%016" PRIx64 " (keys 0x%" PRIx64 ", 0x%" PRIx64 ")",
             n, abbreviated(p, n).c_str(), l.compile_time, rt, l.k0, l.k1);
    v.message = b; return v;
  }
  if (l.compile_time_reader != l.compile_time) {
    v.cls = "ct-rt-mismatch";
    snprintf(b, sizeof b, "ct-rt-mismatch: SipHash::Compute(BlockReader<T>(array)) over %zu bytes (%s) = 0x%016" PRIx64 " but SipHash::Compute(array) = 0x%016" PRIx64 " (keys 0x%" PRIx64 ", 0x%" PRIx64 ")",
             n, abbreviated(p, n).c_str(), l.compile_time_reader, l.compile_time, l.k0, l.k1);
    v.message = b; return v;
  }
  if (!l.u8 && high && exclude_high) { if (rep) rep->exclude("char-high-bytes: literal vs reference"); return v; }
  if (l.compile_time != want) {
    v.cls = (!l.u8 && high) ? "wrong-hash-high-bytes" : "wrong-hash";
    snprintf(b, sizeof b, "%s: compile-time SipHash::Compute over %zu bytes (%s, terminator included) = 0x%016" PRIx64 ", standard SipHash-2-4 of the bytes is 0x%016" PRIx64 " (keys 0x%" PRIx64 ", 0x%" PRIx64 ")",
             v.cls.c_str(), n, abbreviated(p, n).c_str(), l.compile_time, want, l.k0, l.k1);
    v.message = b;
  }
  return v;
}

// ---- part C: generated declarations --------------------------------------------------------------
template <typename T>
static Bytes wire_of_default() {
  T value{};
  LogWriter w;
  nop::Serializer<LogWriter*> s{&w};
  auto st = s.Write(value);
  if (!st) return {};
  return w.out;
}
// Decodes the unsigned integer after the 0xb5 table prefix by hand. Returns false when the bytes do
// not have that shape.
static bool wire_table_hash(const Bytes& b, uint64_t* out, std::string* why) {
  if (b.size() < 2) { *why = "fewer than 2 bytes written"; return false; }
  if (b[0] != 0xb5) { *why = "first byte is not the table prefix 0xb5"; return false; }
  const uint8_t p = b[1];
  size_t n;
  if (p < 0x80) { *out = p; return true; }
  else if (p == 0x80) n = 1; else if (p == 0x81) n = 2; else if (p == 0x82) n = 4; else if (p == 0x83) n = 8;
  else { *why = "hash field does not start with an unsigned integer prefix"; return false; }
  if (b.size() < 2 + n) { *why = "hash field truncated"; return false; }
  uint64_t u = 0;
  for (size_t i = 0; i < n; i++) u |= (uint64_t)b[2 + i] << (8 * i);
  *out = u;
  return true;
}

struct TableRow { int idx; const char* type; std::string name; bool non_ascii; uint64_t expected, got; Bytes (*wire)(); };
struct IfaceRow { int idx; const char* type; int bits; std::string name; bool non_ascii; uint64_t expected, got, got_static; };
struct MethodRow { int iface; const char* type; int bits; const char* mname; uint64_t expected, got; bool iface_non_ascii; uint64_t iface_hash_lib; bool selector_type_ok; };

static std::vector<TableRow> table_rows() {
  std::vector<TableRow> r;
#define X(i, Type, lit, na, exp) r.push_back({i, #Type, std::string(lit, sizeof(lit) - 1), na != 0, exp, \
                                              static_cast<uint64_t>(nop::EntryListTraits<Type>::EntryList::Hash), &wire_of_default<Type>});
  GEN_TABLES(X)
#undef X
  return r;
}
static std::vector<IfaceRow> iface_rows() {
  std::vector<IfaceRow> r;
#define X(i, Type, bits, lit, na, exp) r.push_back({i, #Type, bits, std::string(lit, sizeof(lit) - 1), na != 0, exp, \
                                                    nop::Interface<Type>::GetInterfaceHash(), static_cast<uint64_t>(Type::NOP__INTERFACE::Hash)});
  GEN_INTERFACES(X)
#undef X
  return r;
}
static std::vector<MethodRow> method_rows() {
  std::vector<MethodRow> r;
#define X(i, Type, bits, M, mname, exp, na) r.push_back({i, #Type, bits, mname, exp, static_cast<uint64_t>(Type::M::Selector), na != 0, \
                                                         nop::Interface<Type>::GetInterfaceHash(), \
                                                         std::is_same<typename Type::M::MethodSelector, std::conditional<bits == 32, std::uint32_t, std::uint64_t>::type>::value});
  GEN_METHODS(X)
#undef X
  return r;
}

static Bytes with_nul(const std::string& s) { Bytes b(s.begin(), s.end()); b.push_back(0); return b; }

// A disagreement between the Python expectation and the C++ reference is a harness error.
static std::string g_harness_error;

static Verdict check_table(const TableRow& t, bool exclude_high, Report* rep) {
  Verdict v; v.object = "NOP_TABLE_NS";
  Bytes nb = with_nul(t.name);
  const uint64_t ref = ref_siphash24(nb.data(), nb.size(), kTableK0, kTableK1);
  if (ref != t.expected) { g_harness_error = "python and C++ references disagree on table name " + hexs(nb.data(), nb.size()); return v; }
  if (t.non_ascii && exclude_high) { if (rep) rep->exclude("char-high-bytes: table name with non-ASCII bytes"); return v; }
  char b[500];
  if (t.got != t.expected) {
    v.cls = t.non_ascii ? "wrong-hash-high-bytes" : "wrong-hash";
    snprintf(b, sizeof b, "%s: EntryListTraits<%s>::EntryList::Hash = 0x%016" PRIx64 " for NOP_TABLE_NS name bytes %s, expected SipHash-2-4(name + NUL, 0xbaadf00ddeadbeef, 0x0123456789abcdef) = 0x%016" PRIx64,
             v.cls.c_str(), t.type, t.got, hexs((const uint8_t*)t.name.data(), t.name.size()).c_str(), t.expected);
    v.message = b; return v;
  }
  Bytes w = t.wire();
  uint64_t on_wire = 0; std::string why;
  if (!wire_table_hash(w, &on_wire, &why)) {
    v.cls = "wire-shape";
    snprintf(b, sizeof b, "wire-shape: serialized default %s is %s: %s", t.type, hexs(w.data(), w.size()).c_str(), why.c_str());
    v.message = b; return v;
  }
  if (on_wire != t.expected) {
    v.cls = "wire-mismatch";
    snprintf(b, sizeof b, "wire-mismatch: hash field on the wire for %s is 0x%016" PRIx64 " (bytes %s), expected 0x%016" PRIx64, t.type, on_wire, hexs(w.data(), w.size()).c_str(), t.expected);
    v.message = b;
  }
  return v;
}
static Verdict check_iface(const IfaceRow& t, bool exclude_high, Report* rep) {
  Verdict v; v.object = t.bits == 32 ? "NOP_INTERFACE32" : "NOP_INTERFACE";
  Bytes nb = with_nul(t.name);
  const uint64_t ref = ref_siphash24(nb.data(), nb.size(), kIfaceK0, kIfaceK1);
  if (ref != t.expected) { g_harness_error = "python and C++ references disagree on interface name " + hexs(nb.data(), nb.size()); return v; }
  if (t.non_ascii && exclude_high) { if (rep) rep->exclude("char-high-bytes: interface name with non-ASCII bytes"); return v; }
  char b[500];
  if (t.got != t.expected || t.got_static != t.expected) {
    v.cls = t.non_ascii ? "wrong-hash-high-bytes" : "wrong-hash";
    snprintf(b, sizeof b, "%s: Interface<%s>::GetInterfaceHash() = 0x%016" PRIx64 " (NOP__INTERFACE::Hash = 0x%016" PRIx64 ") for name bytes %s, expected SipHash-2-4(name + NUL, 0xdeadcafebaadf00d, 0x0123456789abcdef) = 0x%016" PRIx64,
             v.cls.c_str(), t.type, t.got, t.got_static, hexs((const uint8_t*)t.name.data(), t.name.size()).c_str(), t.expected);
    v.message = b;
  }
  return v;
}
static Verdict check_method(const MethodRow& m, bool exclude_high, Report* rep) {
  Verdict v; v.object = "NOP_METHOD";
  char b[500];
  if (!m.selector_type_ok) {
    v.cls = "selector-type";
    snprintf(b, sizeof b, "selector-type: %s::%s::MethodSelector is not the %d-bit unsigned type", m.type, m.mname, m.bits);
    v.message = b; return v;
  }
  Bytes nb = with_nul(m.mname);
  const uint64_t mask = m.bits == 32 ? 0xffffffffull : ~0ull;
  // (1) the selector is SipHash(method name + NUL) keyed with the interface hash the library itself uses
  const uint64_t keyed = ref_siphash24(nb.data(), nb.size(), m.iface_hash_lib, kIfaceK1) & mask;
  if (m.got != keyed) {
    v.cls = "wrong-selector";
    snprintf(b, sizeof b, "wrong-selector: %s::%s::Selector = 0x%" PRIx64 ", expected (uint%d_t)SipHash-2-4(\"%s\" + NUL, interface hash 0x%016" PRIx64 ", 0x0123456789abcdef) = 0x%" PRIx64,
             m.type, m.mname, m.got, m.bits, m.mname, m.iface_hash_lib, keyed);
    v.message = b; return v;
  }
  // (2) ... and equals the value a peer computes from the two names alone (Python expectation)
  if (m.iface_non_ascii && exclude_high) { if (rep) rep->exclude("char-high-bytes: selector keyed by the hash of a non-ASCII interface name"); return v; }
  if (m.got != m.expected) {
    v.cls = m.iface_non_ascii ? "wrong-selector-high-bytes" : "wrong-selector";
    snprintf(b, sizeof b, "%s: %s::%s::Selector = 0x%" PRIx64 ", expected 0x%" PRIx64 " from the interface and method names under the fixed keys",
             v.cls.c_str(), m.type, m.mname, m.got, m.expected);
    v.message = b;
  }
  return v;
}

// ---- tape decoding for part A ---------------------------------------------------------------------
struct HashCase { uint64_t k0 = 0, k1 = 0; Bytes data; };
static uint64_t splitmix(uint64_t& s) { uint64_t z = (s += 0x9e3779b97f4a7c15ull); z = (z ^ (z >> 30)) * 0xbf58476d1ce4e5b9ull; z = (z ^ (z >> 27)) * 0x94d049bb133111ebull; return z ^ (z >> 31); }
// The length is fixed by the caller (every length is visited); everything else comes from the tape.
static HashCase decode_case(const std::vector<uint64_t>& tape, size_t len) {
  Tape t(tape);
  HashCase c;
  c.k0 = t.next(); c.k1 = t.next();
  switch (t.below(8)) {   // 0 => raw tape words
    case 1: c.k0 = 0; c.k1 = 0; break;
    case 2: c.k0 = ~0ull; c.k1 = ~0ull; break;
    case 3: c.k1 = kIfaceK1; break;          // the shape used for method selectors: k0 = some hash, k1 fixed
    default: break;
  }
  const uint64_t style = t.below(6);
  c.data.assign(len, 0);
  if (style == 0) {        // explicit bytes from the tape (zero once it is exhausted)
    for (size_t i = 0; i < len; i += 8) { uint64_t w = t.next(); for (size_t j = 0; j < 8 && i + j < len; j++) c.data[i + j] = (uint8_t)(w >> (8 * j)); }
  } else if (style == 4) { // one byte set
    size_t pos = (size_t)t.below(len); uint8_t v = (uint8_t)t.next();
    if (len) c.data[pos] = v;
  } else {                 // stream expanded from one tape word
    uint64_t s = t.next();
    for (size_t i = 0; i < len; i += 8) { uint64_t w = splitmix(s); for (size_t j = 0; j < 8 && i + j < len; j++) c.data[i + j] = (uint8_t)(w >> (8 * j)); }
    if (style == 2) for (auto& x : c.data) x &= 0x7f;
    if (style == 3) for (auto& x : c.data) x |= 0x80;
  }
  return c;
}

static bool parse_hex64(const std::string& s, uint64_t* out) { char* e = nullptr; *out = strtoull(s.c_str(), &e, 16); return e && *e == 0 && !s.empty(); }
static std::string field(const std::string& text, const std::string& key) {
  size_t p = text.find(" " + key + "=");
  if (p == std::string::npos) return "\x01";
  p += key.size() + 2;
  size_t e = text.find_first_of(" \r\n", p);
  return text.substr(p, e == std::string::npos ? std::string::npos : e - p);
}

int main(int argc, char** argv) {
  Args a = Args::parse(argc, argv);
  Report rep; rep.property = "C18"; rep.tier = a.tier; rep.seed = a.seed; rep.out_path = a.out; rep.unit = a.unit.empty() ? "siphash" : a.unit;
  install_report(&rep);
  const bool thorough = a.tier == "thorough";
  const std::string excl = a.get("exclude");
  if (!excl.empty() && excl != "char-high-bytes") { fprintf(stderr, "unknown --exclude %s (known: char-high-bytes)\n", excl.c_str()); return 2; }
  const bool exclude_high = excl == "char-high-bytes";

  {
    std::string e = reference_self_check();
    if (!e.empty()) { fprintf(stderr, "HARNESS: %s\n", e.c_str()); rep.notes["harness-error"] = e; rep.write("harness-error"); return 2; }
  }
  const bool enum_ok = static_cast<uint64_t>(kEnumForced) == ref_siphash24((const uint8_t*)"io.github.eieio.example.InterfaceName", 38, kIfaceK0, kIfaceK1);

  auto lits = literal_rows();
  auto tabs = table_rows();
  auto ifs = iface_rows();
  auto meths = method_rows();

  // ---- replay ------------------------------------------------------------------------------------
  if (!a.replay.empty()) {
    FILE* f = fopen(a.replay.c_str(), "r"); if (!f) { fprintf(stderr, "cannot open %s\n", a.replay.c_str()); return 2; }
    std::string text, cur; int ch;
    while ((ch = fgetc(f)) != EOF) { if (ch == '\n') { if (!cur.empty() && cur[0] != '#') text = cur; cur.clear(); } else cur += (char)ch; }
    if (!cur.empty() && cur[0] != '#') text = cur;
    fclose(f);
    while (!text.empty() && (text.back() == '\r' || text.back() == ' ')) text.pop_back();
    if (text.rfind("prop=C18 ", 0) != 0) { fprintf(stderr, "bad replay file: no 'prop=C18 ' line\n"); return 2; }
    Verdict v;
    if (text.rfind("prop=C18 hash ", 0) == 0) {
      std::string fm = field(text, "form"), sk0 = field(text, "k0"), sk1 = field(text, "k1"), sd = field(text, "data");
      uint64_t k0, k1;
      if (form_by_name(fm) < 0 || !parse_hex64(sk0, &k0) || !parse_hex64(sk1, &k1) || sd == "\x01" || sd.size() % 2) { fprintf(stderr, "bad replay file: %s\n", text.c_str()); return 2; }
      for (char c : sd) if (!isxdigit((unsigned char)c)) { fprintf(stderr, "bad hex in replay file\n"); return 2; }
      Bytes d = unhex(sd);
      rep.current_case = text;
      v = check_hash(form_by_name(fm), k0, k1, d.data(), d.size());
    } else {
      std::string c = field(text, "const");
      size_t colon = c.find(':');
      std::string kind = c.substr(0, colon), arg = colon == std::string::npos ? "" : c.substr(colon + 1);
      bool found = false;
      if (kind == "enum") { printf(enum_ok ? "REPLAY-PASS\n" : "REPLAY-FAIL enum-forced constant differs from the reference\n"); return enum_ok ? 0 : 1; }
      if (kind == "lit" || kind == "u8lit") { for (auto& l : lits) if (l.u8 == (kind == "u8lit") && l.idx == atoi(arg.c_str())) { v = check_literal(l, false, nullptr); found = true; } }
      else if (kind == "table") { for (auto& t : tabs) if (t.idx == atoi(arg.c_str())) { v = check_table(t, false, nullptr); found = true; } }
      else if (kind == "iface") { for (auto& t : ifs) if (t.idx == atoi(arg.c_str())) { v = check_iface(t, false, nullptr); found = true; } }
      else if (kind == "method") {
        size_t dot = arg.find('.');
        if (dot != std::string::npos) for (auto& m : meths) if (m.iface == atoi(arg.substr(0, dot).c_str()) && arg.substr(dot + 1) == m.mname) { v = check_method(m, false, nullptr); found = true; }
      }
      if (!g_harness_error.empty()) { fprintf(stderr, "HARNESS: %s\n", g_harness_error.c_str()); return 2; }
      if (!found) { fprintf(stderr, "cannot replay '%s' (generated header seed %llu count %d)\n", text.c_str(), (unsigned long long)GEN_CONSTS_SEED, GEN_CONSTS_COUNT); return 2; }
    }
    if (!v.ok()) { printf("REPLAY-FAIL %s\n", v.message.c_str()); return 1; }
    printf("REPLAY-PASS\n");
    return 0;
  }

  // ---- bookkeeping ---------------------------------------------------------------------------------
  std::set<std::string> failed_keys;   // one recorded failure per key; later ones are only counted
  auto record = [&](const Verdict& v, const std::string& case_text) {
    std::string key = "C18|" + v.object + "|" + v.cls;
    if (failed_keys.insert(key).second) rep.fail(v.message, case_text, key);
    else rep.label("further-failures:" + key);
  };
  auto key_failed = [&](const std::string& object, const std::string& cls) { return failed_keys.count("C18|" + object + "|" + cls) != 0; };
  auto account_input = [&](int form, const uint8_t* p, size_t n, uint64_t k0, uint64_t k1) {
    char l[32]; snprintf(l, sizeof l, "len%%8=%zu", n % 8); rep.label(l);
    if (n > 255) rep.label("len>255");
    if (form_signed(form) && has_high(p, n)) rep.label("bytes>=0x80-via-char");
    if (form >= F_STRING) rep.label("generic-container-entry-point");
    if (form == F_U8 && has_high(p, n)) rep.label("bytes>=0x80-via-uint8_t");
    if (nontrivial_input(p, n)) rep.nontriv(input_hash(p, n, k0, k1) ^ (uint64_t)form);
  };
  // Runs one part-A case in one form; returns false when a NEW failure was recorded.
  auto run_hash = [&](int form, uint64_t k0, uint64_t k1, const uint8_t* p, size_t n) -> bool {
    if (form_signed(form) && exclude_high && has_high(p, n)) { rep.exclude("char-high-bytes: char-form input with a byte >= 0x80"); return true; }
    rep.evaluations++;
    Verdict v = check_hash(form, k0, k1, p, n);
    account_input(form, p, n, k0, k1);
    if (v.ok()) return true;
    bool fresh = !key_failed(v.object, v.cls);
    record(v, hash_case_text(form, k0, k1, p, n));
    return !fresh;
  };

  const bool first_shard = a.shard == 0;

  // ---- part A, deterministic --------------------------------------------------------------------------
  rep.current_detail = "SipHash::Compute run-time";
  if (first_shard) {
    // boundary set: shortest inputs first, so that the first recorded failure of a class is minimal
    for (int f = 0; f < F_COUNT; f++) { rep.current_case = hash_case_text(f, 0, 0, nullptr, 0); run_hash(f, 0, 0, nullptr, 0); }
    for (int b = 0; b < 256; b++) { uint8_t d = (uint8_t)((b + 0x80) & 0xff); for (int f = 0; f < F_COUNT; f++) { rep.current_case = hash_case_text(f, 0, 0, &d, 1); run_hash(f, 0, 0, &d, 1); } }
    for (size_t len = 2; len <= 17; len++)
      for (size_t pos = 0; pos < len; pos++)
        for (uint8_t hb : {(uint8_t)0x80, (uint8_t)0xff, (uint8_t)0x7f}) {
          Bytes d(len, 0); d[pos] = hb;
          for (int f = 0; f < F_COUNT; f++) { rep.current_case = hash_case_text(f, 0, 0, d.data(), len); run_hash(f, 0, 0, d.data(), len); }
        }
    rep.label("deterministic-boundary-set");
  }
  for (size_t len = 0; len <= 600; len++) {
    if ((int)(len % (size_t)a.nshards) != a.shard) continue;
    Bytes all(len), ascii(len);
    for (size_t i = 0; i < len; i++) { all[i] = (uint8_t)(i * 131 + len * 7 + 3); ascii[i] = (uint8_t)(0x20 + (i * 7 + len) % 95); }
    for (int f = 0; f < F_COUNT; f++) {
      rep.current_case = hash_case_text(f, 0x0706050403020100ull, 0x0f0e0d0c0b0a0908ull, all.data(), len);
      run_hash(f, 0x0706050403020100ull, 0x0f0e0d0c0b0a0908ull, all.data(), len);
      rep.current_case = hash_case_text(f, kTableK0, kTableK1, ascii.data(), len);
      run_hash(f, kTableK0, kTableK1, ascii.data(), len);
    }
  }
  rep.label("deterministic-sweep-len-0..600");

  // ---- part B ----------------------------------------------------------------------------------------
  if (first_shard) {
    for (auto& l : lits) {
      std::string ct = std::string("prop=C18 const=") + (l.u8 ? "u8lit:" : "lit:") + std::to_string(l.idx);
      rep.current_case = ct; rep.current_detail = "literal";
      rep.evaluations++;
      Verdict v = check_literal(l, exclude_high, &rep);
      rep.label(l.u8 ? "constexpr-uint8-arrays" : "constexpr-literals");
      if (has_high(l.bytes.data(), l.bytes.size())) rep.label(l.u8 ? "constexpr-uint8-arrays-with-bytes>=0x80" : "constexpr-literals-with-bytes>=0x80");
      if (nontrivial_input(l.bytes.data(), l.bytes.size())) rep.nontriv(input_hash(l.bytes.data(), l.bytes.size(), l.k0, l.k1) ^ 2);
      if (!v.ok()) record(v, ct);
    }
    rep.evaluations++;
    if (!enum_ok) { Verdict v; v.object = "constexpr SipHash::Compute(literal)"; v.cls = "wrong-hash"; v.message = "wrong-hash: enum-forced compile-time SipHash::Compute(\"io.github.eieio.example.InterfaceName\", interface keys) differs from standard SipHash-2-4"; record(v, "prop=C18 const=enum"); }
    { char s[200]; snprintf(s, sizeof s, "literal 38 (len 38+NUL): compile-time 0x%016" PRIx64 " == run-time == reference", lits[38].compile_time); rep.sample(s); }
  }

  // ---- part C ----------------------------------------------------------------------------------------
  if (first_shard) {
    for (auto& t : tabs) {
      std::string ct = "prop=C18 const=table:" + std::to_string(t.idx);
      rep.current_case = ct; rep.current_detail = std::string("table ") + t.type;
      rep.evaluations++;
      Verdict v = check_table(t, exclude_high, &rep);
      rep.label("generated-tables"); if (t.non_ascii) rep.label("generated-tables-non-ascii-name");
      Bytes nb = with_nul(t.name);
      { char l[40]; snprintf(l, sizeof l, "name-bytes%%8=%zu", nb.size() % 8); rep.label(l); }
      if (nontrivial_input(nb.data(), nb.size())) rep.nontriv(input_hash(nb.data(), nb.size(), kTableK0, kTableK1) ^ 3);
      if (!v.ok()) record(v, ct);
      else if (t.idx < 2) { char s[300]; snprintf(s, sizeof s, "%s NOP_TABLE_NS(\"%s\"): Hash 0x%016" PRIx64 " == python == wire %s", t.type, t.name.c_str(), t.got, hexs(t.wire().data(), t.wire().size()).c_str()); rep.sample(s); }
    }
    for (auto& t : ifs) {
      std::string ct = "prop=C18 const=iface:" + std::to_string(t.idx);
      rep.current_case = ct; rep.current_detail = std::string("interface ") + t.type;
      rep.evaluations++;
      Verdict v = check_iface(t, exclude_high, &rep);
      rep.label(t.bits == 32 ? "generated-interfaces32" : "generated-interfaces64"); if (t.non_ascii) rep.label("generated-interfaces-non-ascii-name");
      Bytes nb = with_nul(t.name);
      { char l[40]; snprintf(l, sizeof l, "name-bytes%%8=%zu", nb.size() % 8); rep.label(l); }
      if (nontrivial_input(nb.data(), nb.size())) rep.nontriv(input_hash(nb.data(), nb.size(), kIfaceK0, kIfaceK1) ^ 4);
      if (!v.ok()) record(v, ct);
    }
    for (auto& m : meths) {
      std::string ct = "prop=C18 const=method:" + std::to_string(m.iface) + "." + m.mname;
      rep.current_case = ct; rep.current_detail = std::string("method ") + m.type + "::" + m.mname;
      rep.evaluations++;
      Verdict v = check_method(m, exclude_high, &rep);
      rep.label(m.bits == 32 ? "generated-methods32" : "generated-methods64");
      Bytes nb = with_nul(m.mname);
      { char l[40]; snprintf(l, sizeof l, "name-bytes%%8=%zu", nb.size() % 8); rep.label(l); }
      if (nontrivial_input(nb.data(), nb.size())) rep.nontriv(input_hash(nb.data(), nb.size(), m.iface_hash_lib, kIfaceK1) ^ 5);
      if (!v.ok()) record(v, ct);
      else if (rep.samples.size() < 5) { char s[300]; snprintf(s, sizeof s, "%s::%s Selector 0x%" PRIx64 " (%d-bit) == python", m.type, m.mname, m.got, m.bits); rep.sample(s); }
    }
    if (!g_harness_error.empty()) { fprintf(stderr, "HARNESS: %s\n", g_harness_error.c_str()); rep.notes["harness-error"] = g_harness_error; rep.write("harness-error"); return 2; }
    rep.notes["generated-header"] = "seed " + std::to_string((unsigned long long)GEN_CONSTS_SEED) + " count " + std::to_string(GEN_CONSTS_COUNT);
  }

  // ---- part A, random (rapidcheck tapes; the length is swept, content and keys come from the tape) -----
  const int per_len = thorough ? 167 : 20;   // 601 * 3 = 1803 (quick), 601 * 167 = 100367 (thorough)
  long random_cases = 0;
  for (size_t len = 0; len <= 600; len++) {
    if ((int)(len % (size_t)a.nshards) != a.shard) continue;
    TapeRun r = rc_tapes(a.seed * 1000003ull + len, per_len, 100, 1.0, [&](const std::vector<uint64_t>& tape) {
      HashCase c = decode_case(tape, len);
      for (int f = 0; f < F_COUNT; f++) {
        if (form_signed(f) && exclude_high && has_high(c.data.data(), len)) { rep.exclude("char-high-bytes: char-form input with a byte >= 0x80"); continue; }
        rep.current_case = hash_case_text(f, c.k0, c.k1, c.data.data(), len);
        rep.evaluations++;
        Verdict v = check_hash(f, c.k0, c.k1, c.data.data(), len);
        account_input(f, c.data.data(), len, c.k0, c.k1);
        if (!v.ok()) {
          if (key_failed(v.object, v.cls)) { rep.label("further-failures:C18|" + v.object + "|" + v.cls); continue; }
          return v.message;   // let rapidcheck shrink it
        }
      }
      return std::string();
    });
    random_cases += r.cases;
    if (!r.ok) {
      if (r.message.rfind("HARNESS:", 0) == 0) { fprintf(stderr, "%s\n", r.message.c_str()); rep.notes["harness-error"] = r.message; rep.write("harness-error"); return 2; }
      HashCase c = decode_case(r.tape, len);
      for (int f = 0; f < F_COUNT; f++) {
        if (form_signed(f) && exclude_high && has_high(c.data.data(), len)) continue;
        Verdict v = check_hash(f, c.k0, c.k1, c.data.data(), len);
        if (!v.ok() && !key_failed(v.object, v.cls)) record(v, hash_case_text(f, c.k0, c.k1, c.data.data(), len));
      }
    }
    if (len == 13 || len == 300) {
      HashCase c = decode_case({a.seed, a.seed * 3, 0, 1, a.seed}, len);
      char s[200]; snprintf(s, sizeof s, "len %zu k0=%" PRIx64 " k1=%" PRIx64 " data=%s -> 0x%016" PRIx64, len, c.k0, c.k1, abbreviated(c.data.data(), len).c_str(), ref_siphash24(c.data.data(), len, c.k0, c.k1));
      rep.sample(s);
    }
  }
  rep.label("random-tape-cases", random_cases);
  rep.label(thorough ? "random-per-length:167" : "random-per-length:20");

  rep.exhaustive = false;
  rep.write("done");
  for (auto& f : rep.failures) fprintf(stderr, "FAIL %s\n  case: %s\n", f.message.c_str(), f.case_text.c_str());
  return rep.ok() ? 0 : 1;
}
