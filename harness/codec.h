// Shared plumbing of the codec-family harness (C01 C02 C03 C04 C05 C06 C10 C11 C15a): case
// sources (must-hit variants, rapidcheck tapes, replay), per-type loops, helpers.
#pragma once
#include "kit/gen.h"
#include "kit/rcdrv.h"
#include "kit/refcodec.h"
#include "kit/report.h"
#include "kit/typeops.h"

namespace vk {

struct Ctx {
  std::vector<TypeOps> types;
  Report rep;
  Args args;
  bool thorough = false;
  GenCfg cfg;
  long n_random = 100;    // random cases per type
  int max_size = 100;
  double scale = 2.0;
};

// One case: a type, a generated value and the rest of the tape for further choices.
struct CaseIn {
  const TypeOps* t = nullptr;
  size_t type_index = 0;
  Value v;
  Tape* rest = nullptr;
  std::string src;   // "variant:<i>" | "tape:<words>"
  bool nested = false;   // a sub-case started by a body itself
};

using Body = std::function<std::string(Ctx&, CaseIn&)>;

// Selects the Serializer / Deserializer form (kit/typeops.h) for one case as a function of the case's source
// text, so that a replay picks the same form; restores form 0 on scope exit.
struct FormGuard {
  explicit FormGuard(const CaseIn& in) { serializer_form() = (int)(hash_str(in.src) % 3); }
  ~FormGuard() { serializer_form() = 0; }
  static const char* name() { static const char* n[] = {"Serializer<W*>", "Serializer<unique_ptr<W>>", "Serializer<W>"}; return n[serializer_form() % 3]; }
};

inline std::string case_text(const Ctx& c, const CaseIn& in) {
  return "prop=" + c.rep.property + " type=" + in.t->name + " src=" + in.src;
}

// Runs `body` over the must-hit list and over generated tapes for every type of the shard.
void run_per_type(Ctx& c, const Body& body, bool with_variants = true);
// Replays one case text; returns failure message or "".
std::string replay_case(Ctx& c, const std::string& text, const Body& body);

// Property bodies (harness/codec_*.cc)
std::string body_C01(Ctx&, CaseIn&);
std::string body_C03(Ctx&, CaseIn&);
std::string body_C05(Ctx&, CaseIn&);
std::string body_C06(Ctx&, CaseIn&);
std::string body_C10(Ctx&, CaseIn&);
std::string body_C11(Ctx&, CaseIn&);
std::string body_C02(Ctx&, CaseIn&);
std::string body_C04(Ctx&, CaseIn&);
std::string body_C15(Ctx&, CaseIn&);
void extra_C03(Ctx&);   // exhaustive integer side-car
void extra_C04(Ctx&);   // exhaustive prefix sweeps

// Helpers ------------------------------------------------------------------------------------
struct Written {
  int status = 0;
  Bytes bytes;
  std::vector<PushRec> pushed;
  size_t position = 0;
};
// Writes obj with writer kind k into a writer of the given capacity/limit.
inline Written write_with(Obj& o, int k, size_t cap, size_t limit = SIZE_MAX, const std::vector<int64_t>* refs = nullptr) {
  WriterBox w; w.open(k, cap, limit);
  if (refs) w.log.refs_to_return = *refs;
  Written r; r.status = o.write(w); r.bytes = w.bytes(); r.pushed = w.log.pushed; r.position = w.position();
  return r;
}
// Canonical library encoding of a value of type t (PedanticBufferWriter, or LogWriter when the
// type carries handles). refs: references the writer hands out.
inline Written lib_encode(const TypeOps& t, Obj& o, const std::vector<int64_t>* refs = nullptr) {
  size_t g = o.get_size();
  return write_with(o, t.has_handle ? W_Log : W_Ped, g + 16, SIZE_MAX, refs);
}
inline void load_handles(LogReader& r, const std::vector<PushRec>& pushed) {
  for (auto& p : pushed) if (p.valid) r.handles[p.ref] = p.payload;
}
inline std::map<int64_t, int64_t> handle_table(const std::vector<PushRec>& pushed) {
  std::map<int64_t, int64_t> m; for (auto& p : pushed) if (p.valid) m[p.ref] = p.payload; return m;
}
// Handle table for reference encodings produced by ref_encode with default references.
inline std::map<int64_t, int64_t> default_handle_table(const Schema& s, const Value& v, const std::vector<int64_t>* refs = nullptr) {
  std::vector<const Value*> hs; collect_handles(s, v, hs);
  std::map<int64_t, int64_t> m;
  for (size_t i = 0; i < hs.size(); i++) if (hs[i]->tag) m[(refs && i < refs->size()) ? (*refs)[i] : (int64_t)i] = (int64_t)hs[i]->u;
  return m;
}
inline std::vector<int64_t> gen_refs(Tape& t, size_t n) {
  // any int64 except -1 (the empty marker) is a reference a writer may hand out, negative ones included
  static const int64_t pool[] = {0, 1, 2, 63, 64, 127, 128, 255, 256, 32767, 32768, 65536, 2147483647ll, 2147483648ll, 1ll << 40, (1ll << 62) + 5, INT64_MAX,
                                 -2, -33, -64, -65, -129, -32769, -2147483649ll, -(1ll << 40), INT64_MIN};
  std::vector<int64_t> r; std::set<int64_t> used;
  for (size_t i = 0; i < n; i++) {
    int64_t x = (t.below(3) == 0) ? (int64_t)i : pool[t.below(sizeof pool / sizeof pool[0])];
    while (used.count(x) || x == -1) x = (x == INT64_MAX) ? 3 : x + 1;   // distinct, never -1
    used.insert(x); r.push_back(x);
  }
  return r;
}
inline std::vector<int> readers_for(const TypeOps& t) { std::vector<int> r; for (int k = 0; k < R_COUNT; k++) if (t.supports_reader(k)) r.push_back(k); return r; }
inline std::vector<int> writers_for(const TypeOps& t) { std::vector<int> r; for (int k = 0; k < W_COUNT; k++) if (t.supports_writer(k)) r.push_back(k); return r; }

// Structure-aware mutation of the valid encoding of (t.schema, v) (codec_props2.cc).
struct Mutated {
  Bytes bytes;
  std::vector<std::string> what;      // human-readable list of applied mutations
  std::map<int64_t, int64_t> handles; // reference -> payload for the reference decoder / LogReader
  bool inflated_len = false;
  bool single() const { return what.size() == 1; }
};
Mutated mutate(const TypeOps& t, const Value& v, Tape& tp, int nmut, const Value* other = nullptr);
struct LibRead { int status; Value value; size_t pos; std::vector<int64_t> resolved; };
LibRead lib_read(const TypeOps& t, const Bytes& bytes, const std::map<int64_t, int64_t>& handles, Obj* into = nullptr);
// Differential comparison of the library decoder with the reference decoder on one input.
std::string compare_with_reference(Ctx& c, const TypeOps& t, const Bytes& bytes, const std::map<int64_t, int64_t>& handles, bool single_defect, const std::string& how, bool* accepted_noncanonical, bool* rejected);

std::string sweep_one(Ctx& c, const TypeOps& t, size_t vi, size_t fi, int b, bool* interesting);
std::string int_sweep_one(Ctx& c, const TypeOps& t, uint64_t u);
std::string fuzz_one(Ctx& c, const TypeOps& t, bool is02, const uint8_t* data, size_t size, bool* accepted, bool* noncanonical);

// Sets the raw-size test hook of one always-encoded bounded logical buffer to an out-of-range value.
bool break_lbuf(const Schema& s, Value& v, Tape& t);

// Writer-side view of a table schema: deleted entries become active and an unknown entry is
// appended, so that reference encodings contain entries the reading definition skips.
SchemaP writer_variant(const Schema& s, Tape& t, bool* changed);
// Converts a value of the writer-variant schema back to what the reader must see.
Value reader_view(const Schema& reader, const Schema& writer, const Value& v);

}  // namespace vk
