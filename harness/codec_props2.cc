// Property bodies C02 C04 C11 C15a (hostile / near-valid input side of the codec family) and the
// structure-aware mutators they share.
#include "harness/codec.h"
#include "kit/allocmeter.h"
#include <cstdarg>

namespace vk {

static std::string fmt(const char* f, ...) __attribute__((format(printf, 1, 2)));
static std::string fmt(const char* f, ...) {
  char b[2048]; va_list ap; va_start(ap, f); vsnprintf(b, sizeof b, f, ap); va_end(ap); return b;
}
static uint64_t bytes_hash(const TypeOps& t, const Bytes& b) { return fnv1a(b.data(), b.size(), hash_str(t.name)); }

// ---- mutators ----------------------------------------------------------------------------------

static const uint64_t kSpecialValues[] = {0, 1, 2, 127, 128, 255, 256, 65535, 65536, 1ull << 31, 1ull << 32, (1ull << 32) + 1, 1ull << 62, 1ull << 63, ~0ull, ~0ull - 1, (uint64_t)-2, (uint64_t)-65, (uint64_t)-129,
                                          // sizes within a few bytes of 2^64: position + size wraps around in unchecked arithmetic
                                          (uint64_t)-3, (uint64_t)-4, (uint64_t)-5, (uint64_t)-8, (uint64_t)-9, (uint64_t)-10, (uint64_t)-11, (uint64_t)-12, (uint64_t)-16, (uint64_t)-24, (uint64_t)-32, (uint64_t)-64};

// Permutes / duplicates / drops table entries on the writer side (schema-level mutation).
static void mutate_tables(const Schema& s, const Value& v, Tape& tp, Schema& os, Value& ov, std::vector<std::string>& what, bool& done) {
  os = s; ov = v;
  auto rec = [&](size_t i, const Schema& cs, const Value& cv) { Schema ns; Value nv; mutate_tables(cs, cv, tp, ns, nv, what, done); os.kids[i] = mk(ns); return nv; };
  switch (s.k) {
    case K::Seq: if (!v.kids.empty()) { Schema ns; Value nv; size_t j = (size_t)tp.below(v.kids.size()); (void)j; /* element schemas are shared: skip */ } break;
    case K::Tup: case K::Stu: for (size_t i = 0; i < s.kids.size() && !done; i++) ov.kids[i] = rec(i, *s.kids[i], v.kids[i]); break;
    case K::Opt: if (v.tag && !done) ov.kids[0] = rec(0, *s.kids[0], v.kids[0]); break;
    case K::Res: if (v.tag == 2 && !done) ov.kids[0] = rec(0, *s.kids[0], v.kids[0]); break;
    case K::Var: if (v.tag >= 0 && !done) ov.kids[0] = rec((size_t)v.tag, *s.kids[v.tag], v.kids[0]); break;
    case K::Tab: {
      if (done) break;
      std::vector<size_t> present;
      for (size_t i = 0; i < s.entries.size(); i++) if (s.entries[i].active && v.kids[i].tag) present.push_back(i);
      uint64_t ch = tp.below(4);
      if (ch == 0 && present.size() >= 2) {           // permute
        size_t a = present[tp.below(present.size())], b = present[tp.below(present.size())];
        if (a != b) { std::swap(os.entries[a], os.entries[b]); std::swap(ov.kids[a], ov.kids[b]); what.push_back("table: swap entries"); done = true; }
      } else if (ch == 1 && !present.empty()) {       // duplicate a recognised active entry
        size_t a = present[tp.below(present.size())];
        size_t at = (size_t)tp.below(os.entries.size() + 1);
        os.entries.insert(os.entries.begin() + at, s.entries[a]); ov.kids.insert(ov.kids.begin() + at, v.kids[a]);
        what.push_back("table: duplicate active entry id " + std::to_string(s.entries[a].id)); done = true;
      } else if (ch == 2) {                           // unknown entry (possibly twice)
        TabEntry u; u.id = 7777; u.active = true; u.type = s_str(1);
        Value uv; uv.tag = 1; Value sv; sv.bytes = "unk"; uv.kids.push_back(sv);
        int times = 1 + (int)tp.below(2);
        for (int k = 0; k < times; k++) { size_t at = (size_t)tp.below(os.entries.size() + 1); os.entries.insert(os.entries.begin() + at, u); ov.kids.insert(ov.kids.begin() + at, uv); }
        what.push_back(times == 2 ? "table: unknown entry twice" : "table: unknown entry"); done = true;
      }
      break; }
    default: break;
  }
}

// Gives one logical buffer in the value more elements than its capacity, WITH the elements present
// in the input (so a decoder that gets the capacity check wrong really writes past the array).
// Counts: capacity+1, capacity+2, 2*capacity+1, and 2^bits(size member)+j with j <= capacity (a
// count whose low bits look legal after narrowing to the size member's type).
static bool overfill_lbuf(const Schema& s, Value& v, Tape& tp, std::string& what) {
  switch (s.k) {
    case K::Bin: case K::Seq:
      if (s.maxc >= 0 && !s.unbounded) {
        std::vector<long> ns = {s.maxc + 1, s.maxc + 2, 2 * s.maxc + 1};
        if (s.size_bits > 0 && s.size_bits <= 16) for (long j = 0; j <= s.maxc && j < 3; j++) ns.push_back((1l << s.size_bits) + j);
        long n = ns[tp.below(ns.size())];
        if (s.k == K::Bin) { size_t es = (size_t)s.bits / 8; std::string b; lcg_fill(b, (size_t)n * es, tp.next()); v.bytes = b; }
        else { Value e = v.kids.empty() ? zero_value(*s.kids[0]) : v.kids[0]; v.kids.assign((size_t)n, e); }
        what = fmt("logical buffer (capacity %ld, %d-bit size member) given %ld elements", s.maxc, s.size_bits, n);
        return true;
      }
      if (s.k == K::Seq) for (auto& e : v.kids) if (overfill_lbuf(*s.kids[0], e, tp, what)) return true;
      return false;
    case K::Tup: case K::Stu: for (size_t i = 0; i < s.kids.size(); i++) if (overfill_lbuf(*s.kids[i], v.kids[i], tp, what)) return true; return false;
    case K::Opt: return v.tag && overfill_lbuf(*s.kids[0], v.kids[0], tp, what);
    case K::Res: return v.tag == 2 && overfill_lbuf(*s.kids[0], v.kids[0], tp, what);
    case K::Var: return v.tag >= 0 && overfill_lbuf(*s.kids[v.tag], v.kids[0], tp, what);
    case K::Map: for (size_t i = 1; i < v.kids.size(); i += 2) if (overfill_lbuf(*s.kids[1], v.kids[i], tp, what)) return true; return false;
    case K::Tab: for (size_t i = 0; i < s.entries.size(); i++) if (s.entries[i].active && v.kids[i].tag && overfill_lbuf(*s.entries[i].type, v.kids[i].kids[0], tp, what)) return true; return false;
    default: return false;
  }
}
// A bounded logical buffer whose size member is outside [0, capacity] (reported by Meta through the raw-size hook).
static std::string bad_size_member(const Schema& s, const Value& v) {
  switch (s.k) {
    case K::Bin: case K::Seq:
      if (s.maxc >= 0 && !s.unbounded && v.tag != 0) return "a logical buffer of capacity " + std::to_string(s.maxc) + " whose size member is " + (v.tag < 0 ? std::string("negative") : v.tag == 0x7fffffff ? std::string(">= 2^31-1") : std::to_string(v.tag));
      if (s.k == K::Seq) for (auto& e : v.kids) { std::string r = bad_size_member(*s.kids[0], e); if (!r.empty()) return r; }
      return "";
    case K::Tup: case K::Stu: for (size_t i = 0; i < s.kids.size() && i < v.kids.size(); i++) { std::string r = bad_size_member(*s.kids[i], v.kids[i]); if (!r.empty()) return r; } return "";
    case K::Opt: return v.tag && !v.kids.empty() ? bad_size_member(*s.kids[0], v.kids[0]) : "";
    case K::Res: return v.tag == 2 && !v.kids.empty() ? bad_size_member(*s.kids[0], v.kids[0]) : "";
    case K::Var: return v.tag >= 0 && !v.kids.empty() ? bad_size_member(*s.kids[v.tag], v.kids[0]) : "";
    case K::Map: for (size_t i = 1; i < v.kids.size(); i += 2) { std::string r = bad_size_member(*s.kids[1], v.kids[i]); if (!r.empty()) return r; } return "";
    case K::Tab: for (size_t i = 0; i < s.entries.size() && i < v.kids.size(); i++) if (s.entries[i].active && v.kids[i].tag && !v.kids[i].kids.empty()) { std::string r = bad_size_member(*s.entries[i].type, v.kids[i].kids[0]); if (!r.empty()) return r; } return "";
    default: return "";
  }
}
static bool has_lbuf(const Schema& s) {
  if ((s.k == K::Bin || s.k == K::Seq) && s.maxc >= 0 && !s.unbounded) return true;
  for (auto& k : s.kids) if (has_lbuf(*k)) return true;
  for (auto& e : s.entries) if (has_lbuf(*e.type)) return true;
  return false;
}

// Applies 1..nmut mutations to the valid encoding of (t.schema, v).
Mutated mutate(const TypeOps& t, const Value& v, Tape& tp, int nmut, const Value* other) {
  Mutated m;
  Schema s = *t.schema; Value val = v;
  EncodeOpts eo;
  // schema-level first
  int byte_level_budget = 0;
  std::vector<std::pair<int, uint64_t>> later;
  Encoded probe = ref_encode(s, val);
  for (int i = 0; i < nmut; i++) {
    uint64_t kind = tp.below(has_lbuf(s) ? 12 : 10);
    if (kind >= 10) {
      std::string w;
      if (overfill_lbuf(s, val, tp, w)) { m.what.push_back(w); m.inflated_len = true; probe = ref_encode(s, val); eo.overrides.clear(); continue; }
      kind = tp.below(9);
    }
    if (kind == 4 && t.has_table && tp.below(3) == 0) {
      // "rewind": an entry size that, added to the reader position with wrap-around, lands back on the
      // start of the same entry, combined with an entry count of 2^64-1 (a decoder whose Skip wraps
      // re-parses the same entry for ever)
      std::vector<size_t> sz, ids, cnts;
      for (size_t fi = 0; fi < probe.fields.size(); fi++) { if (probe.fields[fi].kind == F::EntrySize) sz.push_back(fi); if (probe.fields[fi].kind == F::EntryId) ids.push_back(fi); if (probe.fields[fi].kind == F::EntryCount) cnts.push_back(fi); }
      if (!sz.empty() && !cnts.empty()) {
        size_t k = (size_t)tp.below(sz.size()); size_t fi = sz[k];
        size_t id_off = 0; for (size_t ii : ids) if (probe.fields[ii].off < probe.fields[fi].off) id_off = probe.fields[ii].off;
        // after the (9-byte, U64-class) size field the reader stands at size_off + 9
        uint64_t back = (uint64_t)(probe.fields[fi].off + 9 - id_off);
        Override ov; ov.what = Override::SetValue; ov.value = (uint64_t)0 - back; eo.overrides[fi] = ov;
        Override oc; oc.what = Override::SetValue; oc.value = ~0ull;
        for (size_t ci : cnts) if (probe.fields[ci].off < probe.fields[fi].off) eo.overrides[ci] = oc;
        m.what.push_back(fmt("field %zu (entry size) := 2^64-%llu (rewinds to the entry start) with entry count 2^64-1", fi, (unsigned long long)back));
        m.inflated_len = true;
        continue;
      }
    }
    if (kind == 9 && t.has_table) {
      Schema ns; Value nv; bool done = false;
      mutate_tables(s, val, tp, ns, nv, m.what, done);
      if (done) { s = ns; val = nv; probe = ref_encode(s, val); eo.overrides.clear(); continue; }
      kind = tp.below(9);
    }
    if (kind >= 9) kind = 1;
    if (kind == 0 || kind == 5 || kind == 7) { later.push_back({(int)kind, tp.next()}); byte_level_budget++; continue; }
    // field-level: pick a field of the right sort
    std::vector<size_t> cand;
    for (size_t fi = 0; fi < probe.fields.size(); fi++) {
      const Field& f = probe.fields[fi];
      bool is_int = f.kind != F::Prefix;
      if ((kind == 1 || kind == 2 || kind == 8 || kind == 6) && is_int) cand.push_back(fi);
      if (kind == 3 && !is_int) cand.push_back(fi);
      if (kind == 4 && f.kind == F::EntrySize) cand.push_back(fi);
    }
    if (cand.empty()) { later.push_back({5, tp.next()}); continue; }
    size_t fi = cand[tp.below(cand.size())];
    const Field& f = probe.fields[fi];
    Override ov;
    if (kind == 1) { ov.what = Override::ForceClass; ov.cls = C_U8 + (int)tp.below(8); m.what.push_back(fmt("field %zu (%s): force class %s", fi, fkind_name(f.kind), cls_name(ov.cls))); }
    else if (kind == 2 || kind == 6) {
      ov.what = Override::SetValue;
      uint64_t c2 = tp.below(4);
      if (c2 == 0) ov.value = f.value + 1; else if (c2 == 1) ov.value = f.value - 1; else if (c2 == 2) ov.value = f.value * 2 + (f.value == 0); else ov.value = kSpecialValues[tp.below(sizeof kSpecialValues / sizeof kSpecialValues[0])];
      if (!f.sgn && f.kind != F::Value) {}
      if (f.kind == F::Len || f.kind == F::Count || f.kind == F::EntryCount || f.kind == F::EntrySize) m.inflated_len |= ov.value > f.value;
      m.what.push_back(fmt("field %zu (%s): value %llu -> %llu", fi, fkind_name(f.kind), (unsigned long long)f.value, (unsigned long long)ov.value));
    } else if (kind == 3) {
      static const uint8_t pre[] = {P_TAB, P_ERR, P_HND, P_VAR, P_STU, P_ARY, P_MAP, P_BIN, P_STR, P_NIL, P_EXT, P_F32, P_F64, 0x8a, 0xb4, 0x90, P_U8, P_I64, 0x00, 0xff};
      ov.what = Override::SetPrefixByte; ov.value = tp.below(3) ? pre[tp.below(sizeof pre)] : (tp.next() & 0xff);
      m.what.push_back(fmt("field %zu (prefix of %d): byte %02x -> %02x", fi, (int)f.owner, (unsigned)f.value & 0xff, (unsigned)ov.value));
    } else if (kind == 4) {
      ov.what = Override::EntrySizeDelta; ov.delta = tp.below(2) ? (tp.below(4) == 0 ? 60 + (long)tp.below(300) : 1 + (long)tp.below(4)) : -(1 + (long)tp.below(std::max<uint64_t>(1, f.value)));
      ov.pad = ov.delta > 0 && tp.below(2);
      m.what.push_back(fmt("field %zu (entry size %llu): delta %ld%s", fi, (unsigned long long)f.value, ov.delta, ov.pad ? " with padding" : ""));
    } else {  // kind 8: raw prefix byte + payload of matching width
      uint8_t b = (uint8_t)tp.next();
      ov.what = Override::RawBytes; ov.raw.push_back(b);
      int w = 0; if (b >= P_U8 && b <= P_I64) w = cls_width(C_U8 + (b - P_U8)); else if (b == P_F32) w = 4; else if (b == P_F64) w = 8;
      for (int k = 0; k < w; k++) ov.raw.push_back(uint8_t(f.value >> (8 * k)));
      m.what.push_back(fmt("field %zu (%s): raw prefix %02x + %d payload bytes", fi, fkind_name(f.kind), b, w));
    }
    eo.overrides[fi] = ov;
  }
  Encoded enc = ref_encode(s, val, eo);
  m.bytes = enc.bytes;
  m.handles = default_handle_table(s, val);
  for (auto& l : later) {
    Tape lt(&l.second, 1);
    if (l.first == 0 && !m.bytes.empty()) { size_t k = (size_t)(l.second % m.bytes.size()); m.bytes.resize(k); m.what.push_back(fmt("truncate to %zu bytes", k)); }
    else if (l.first == 5 && !m.bytes.empty()) { size_t k = (size_t)(l.second % m.bytes.size()); uint8_t x = uint8_t(l.second >> 32); if (!x) x = 0x80; m.bytes[k] ^= x; m.what.push_back(fmt("xor byte %zu with %02x", k, x)); }
    else if (l.first == 7 && other) {
      Encoded e2 = ref_encode(*t.schema, *other);
      size_t a = m.bytes.empty() ? 0 : (size_t)(l.second % (m.bytes.size() + 1)), b = e2.bytes.empty() ? 0 : (size_t)((l.second >> 20) % (e2.bytes.size() + 1));
      m.bytes.resize(a); m.bytes.insert(m.bytes.end(), e2.bytes.begin() + b, e2.bytes.end());
      m.what.push_back(fmt("splice: first %zu bytes + other[%zu..]", a, b));
      for (auto& h : default_handle_table(*t.schema, *other)) m.handles.insert(h);
    }
  }
  return m;
}

LibRead lib_read(const TypeOps& t, const Bytes& bytes, const std::map<int64_t, int64_t>& handles, Obj* into) {
  // (table-bearing types: the call-counted PedanticBufferReader, so that a decoder that loops is reported, not waited for)
  ReaderBox r; r.open(t.has_handle ? R_Log : (t.supports_reader(R_CPed) ? R_CPed : R_Ped), bytes); r.log.handles = handles;
  std::unique_ptr<Obj> own; if (!into) { own = t.make(); into = own.get(); }
  LibRead out; out.status = into->read(r); out.pos = r.position(); out.value = into->get(); out.resolved = r.log.resolved;
  return out;
}

// ------------------------------------------------------------------------------------------------
// C04: the decoder accepts exactly the documented language and reports the right category.
std::string compare_with_reference(Ctx& c, const TypeOps& t, const Bytes& bytes, const std::map<int64_t, int64_t>& handles, bool single_defect, const std::string& how, bool* accepted_noncanonical, bool* rejected) {
  DecodeOpts dopt; dopt.handles = &handles;
  Decoded ref = ref_decode(*t.schema, bytes, dopt);
  LibRead lib = lib_read(t, bytes, handles);
  c.rep.evaluations++;
  if (ref.dup_skipped_ids) { c.rep.exclude("duplicate unknown/deleted table id (no expectation stated)"); return ""; }
  if (!t.has_handle) {
    // the decoder's language does not depend on which buffer reader carries the bytes
    ReaderBox rb; rb.open(t.supports_reader(R_CBuf) ? R_CBuf : R_Buf, bytes);
    auto ob = t.make(); int sb = ob->read(rb);
    if (sb == kNonTermination) return fmt("non-termination: Read via BufferReader exceeded the reader call budget; input %s [%s]", hex(bytes).substr(0, 200).c_str(), how.c_str());
    if ((sb == 0) != ref.ok) return fmt("accept-mismatch: library via BufferReader %s (%s), reference %s (%s at %zu); input %s [%s]", sb == 0 ? "accepts" : "rejects", err_name(sb), ref.ok ? "accepts" : "rejects", err_name(ref.err), ref.err_off, hex(bytes).substr(0, 200).c_str(), how.c_str());
    if (ref.ok && rb.position() != ref.consumed) return fmt("consumed-mismatch: BufferReader consumed %zu, reference %zu; input %s [%s]", rb.position(), ref.consumed, hex(bytes).substr(0, 200).c_str(), how.c_str());
  }
  if (lib.status == kNonTermination) return fmt("non-termination: Read via PedanticBufferReader exceeded the reader call budget; input %s [%s]", hex(bytes).substr(0, 200).c_str(), how.c_str());
  if ((lib.status == 0) != ref.ok)
    return fmt("accept-mismatch: library %s (%s), reference %s (%s at %zu); input %s [%s]", lib.status == 0 ? "accepts" : "rejects", err_name(lib.status), ref.ok ? "accepts" : "rejects", err_name(ref.err), ref.err_off, hex(bytes).substr(0, 200).c_str(), how.c_str());
  if (ref.ok) {
    if (lib.pos != ref.consumed) return fmt("consumed-mismatch: library consumed %zu, reference %zu of %zu; input %s [%s]", lib.pos, ref.consumed, bytes.size(), hex(bytes).substr(0, 200).c_str(), how.c_str());
    if (ref.dup_map_keys) c.rep.exclude("MAP with duplicate keys: decoded value not compared");
    else if (!value_equal(*t.schema, lib.value, ref.value)) return fmt("value-mismatch: library %s reference %s; input %s [%s]", to_text(*t.schema, lib.value).c_str(), to_text(*t.schema, ref.value).c_str(), hex(bytes).substr(0, 200).c_str(), how.c_str());
    if (ref.noncanonical && accepted_noncanonical) *accepted_noncanonical = true;
  } else {
    if (rejected) *rejected = true;
    if (single_defect) {
      c.rep.label(std::string("category:") + err_name(ref.err));
      if (lib.status != ref.err) return fmt("category-mismatch: single defect [%s]: library %s, documented %s; input %s", how.c_str(), err_name(lib.status), err_name(ref.err), hex(bytes).substr(0, 200).c_str());
    }
  }
  return "";
}

std::string body_C04(Ctx& c, CaseIn& in) {
  const TypeOps& t = *in.t;
  Tape& tp = *in.rest;
  // 1. the valid encoding itself
  auto o = t.make(); o->assign(in.v);
  Value actual = o->get();
  bool noncanon = false, rejected = false;
  {
    Encoded e = ref_encode(*t.schema, actual);
    std::string m = compare_with_reference(c, t, e.bytes, default_handle_table(*t.schema, actual), false, "valid encoding", &noncanon, &rejected);
    if (!m.empty()) return m;
  }
  // 2. mutations
  int rounds = 3;
  GenCfg small = c.cfg; small.budget = 60;
  Value other = gen_value(*t.schema, tp, small);
  for (int i = 0; i < rounds; i++) {
    int nmut = 1 + (tp.below(4) == 0 ? (int)tp.below(3) : 0);
    Mutated mu = mutate(t, actual, tp, nmut, &other);
    std::string how; for (auto& w : mu.what) how += (how.empty() ? "" : "; ") + w;
    bool nc = false, rj = false;
    std::string m = compare_with_reference(c, t, mu.bytes, mu.handles, mu.single(), how, &nc, &rj);
    if (!m.empty()) return m;
    if (nc) { c.rep.label("accepted-noncanonical"); c.rep.nontriv(bytes_hash(t, mu.bytes)); }
    if (rj && mu.single()) { c.rep.label("rejected-single-defect"); c.rep.nontriv(bytes_hash(t, mu.bytes)); }
    if (rj && !mu.single()) c.rep.label("rejected-multi-defect");
    if (!rj && !nc) c.rep.label("mutation-left-canonical-valid");
    if (i == 0) c.rep.sample(t.name + " [" + how + "] " + hex(mu.bytes).substr(0, 80));
  }
  return "";
}

// Exhaustive prefix sweeps: every one of the 256 byte values at the prefix position of every
// field of the valid encoding of a few values per type, with a payload of the matching width.
static size_t sweep_values(Ctx& c, const TypeOps& t) { auto vs = variants(*t.schema); return std::min<size_t>(vs.size(), c.thorough ? 12 : 3); }
static Value sweep_value(Ctx& c, const TypeOps& t, size_t vi) {
  auto vs = variants(*t.schema); size_t nvals = sweep_values(c, t);
  const Value& v0 = vs[(vi * std::max<size_t>(1, vs.size() / nvals)) % vs.size()];
  auto o = t.make(); o->assign(v0); return o->get();
}
// One sweep case: value #vi of type t, field #fi of its encoding, prefix byte b.
static std::string sweep_case(Ctx& c, const TypeOps& t, const Value& v, const Encoded& base, const std::map<int64_t, int64_t>& ht, size_t fi, int b, bool* interesting);
std::string sweep_one(Ctx& c, const TypeOps& t, size_t vi, size_t fi, int b, bool* interesting) {
  Value v = sweep_value(c, t, vi);
  Encoded base = ref_encode(*t.schema, v);
  return sweep_case(c, t, v, base, default_handle_table(*t.schema, v), fi, b, interesting);
}
static std::string sweep_case(Ctx& c, const TypeOps& t, const Value& v, const Encoded& base, const std::map<int64_t, int64_t>& ht, size_t fi, int b, bool* interesting) {
  if (fi >= base.fields.size()) return "";
  const Field& f = base.fields[fi];
  if (f.kind == F::EntrySize) return "";   // entry sizes are swept by the size-delta mutation
  EncodeOpts eo; Override ov;
  if (f.kind == F::Prefix) { ov.what = Override::SetPrefixByte; ov.value = (uint64_t)b; }
  else {
    ov.what = Override::RawBytes; ov.raw.push_back((uint8_t)b);
    int w = 0; if (b >= P_U8 && b <= P_I64) w = cls_width(C_U8 + (b - P_U8)); else if (b == P_F32) w = 4; else if (b == P_F64) w = 8;
    for (int k = 0; k < w; k++) ov.raw.push_back(uint8_t(f.value >> (8 * k)));
  }
  eo.overrides[fi] = ov;
  Encoded e = ref_encode(*t.schema, v, eo);
  bool nc = false, rj = false;
  std::string how = fmt("field %zu (%s) prefix byte %02x", fi, fkind_name(f.kind), b);
  std::string m = compare_with_reference(c, t, e.bytes, ht, true, how, &nc, &rj);
  if (!m.empty()) return m + "  [value " + to_text(*t.schema, v) + "]";
  if ((nc || rj) && interesting) { *interesting = true; c.rep.nontriv(bytes_hash(t, e.bytes)); }
  return "";
}
void extra_C04(Ctx& c) {
  for (size_t ti = 0; ti < c.types.size(); ti++) {
    const TypeOps& t = c.types[ti];
    if (!c.args.get("type").empty() && t.name != c.args.get("type")) continue;
    size_t nvals = sweep_values(c, t);
    bool failed = false;
    for (size_t vi = 0; vi < nvals && !failed; vi++) {
      Value v = sweep_value(c, t, vi);
      Encoded base = ref_encode(*t.schema, v);
      auto ht = default_handle_table(*t.schema, v);
      size_t nf = std::min<size_t>(base.fields.size(), c.thorough ? 64 : 24);
      for (size_t fi = 0; fi < nf && !failed; fi++) {
        for (int b = 0; b < 256 && !failed; b++) {
          bool in = false;
          c.rep.current_case = "prop=C04 type=" + t.name + " src=sweep:" + std::to_string(vi) + ":" + std::to_string(fi) + ":" + std::to_string(b);
          std::string m = sweep_case(c, t, v, base, ht, fi, b, &in);
          if (!m.empty()) { c.rep.fail(m, c.rep.current_case, "C04|" + t.name + "|" + m.substr(0, m.find(':'))); failed = true; }
        }
        c.rep.label("prefix-sweep-fields");
      }
    }
  }
}

// ------------------------------------------------------------------------------------------------
// C02: hostile input on bounded readers.
std::string body_C02(Ctx& c, CaseIn& in) {
  const TypeOps& t = *in.t;
  Tape& tp = *in.rest;
  if (t.unbounded) { c.rep.exclude("NOP_UNBOUNDED_BUFFER type"); return ""; }
  auto o = t.make(); o->assign(in.v);
  Value actual = o->get();
  Encoded good = ref_encode(*t.schema, actual);
  auto good_handles = default_handle_table(*t.schema, actual);
  GenCfg small = c.cfg; small.budget = 60;
  Value other = gen_value(*t.schema, tp, small);
  int nmut = 1 + (int)tp.below(3);
  Mutated mu = tp.below(8) == 0 ? Mutated() : mutate(t, actual, tp, nmut, &other);
  if (mu.what.empty()) {   // raw random bytes
    size_t n = (size_t)tp.below(40); for (size_t i = 0; i < n; i += 8) { uint64_t w = tp.next(); for (int j = 0; j < 8 && i + j < n; j++) mu.bytes.push_back(uint8_t(w >> (8 * j))); }
    mu.what.push_back("random bytes");
  }
  std::string how; for (auto& w : mu.what) how += (how.empty() ? "" : "; ") + w;
  std::vector<int> kinds;
  // Table-bearing types are read through the call-counted wrappers instead of the bare buffer readers (same code paths
  // in the library, plus a deterministic bound on the number of primitive calls), so that a decoder that never
  // terminates is reported instead of hanging the check.
  const bool counted = t.supports_reader(R_CPed);
  for (int k : {R_CPed, R_CBuf, R_Buf, R_Ped, R_BBuf, R_BPed, R_Log, R_BLog, R_BStr}) {
    if (!t.supports_reader(k)) continue;
    if (counted && (k == R_Buf || k == R_Ped || k == R_BBuf || k == R_BPed)) continue;
    kinds.push_back(k);
  }
  DecodeOpts dopt; dopt.handles = &mu.handles;
  Decoded ref = ref_decode(*t.schema, mu.bytes, dopt);
  bool nontrivial = (!ref.ok && ref.nested_ok > 0) || (ref.ok && actual.kids.size() + actual.bytes.size() > 0) || mu.inflated_len || ref.inflated > 0;
  const uint64_t budget = 4096 + (64 + 4 * (uint64_t)t.elem_max) * (uint64_t)mu.bytes.size();
  for (int rk : kinds) {
    std::vector<size_t> limits = {mu.bytes.size()};
    // A BoundedReader over a stream is the bound itself (the stream's Ensure cannot refuse anything), so only
    // limits close to the input length are in the statement's "constant multiple of the input length".
    if (rk == R_BStr) { limits.push_back(mu.bytes.size() / 2); limits.push_back(mu.bytes.size() + 1 + (size_t)tp.below(16)); }
    else if (rk_bounded(rk)) { limits.push_back(mu.bytes.size() / 2); limits.push_back(mu.bytes.size() + 1 + (size_t)tp.below(100)); limits.push_back(SIZE_MAX - 1); }
    for (size_t lim : limits) {
      auto obj = t.make();
      c.rep.current_detail = fmt("Read of %s via %s limit %zu [%s] input %s", t.name.c_str(), rk_name(rk), lim, how.c_str(), hex(mu.bytes).substr(0, 160).c_str());
      ReaderBox r; r.open(rk, mu.bytes, lim);
      r.log.handles = mu.handles;
      AllocMeter::arm();
      int s = obj->read(r);
      uint64_t used = AllocMeter::disarm();
      c.rep.evaluations++;
      if (s == kNonTermination) return fmt("non-termination: Read via %s issued more than %llu reader calls for a %zu-byte input [%s] input %s", rk_name(rk), (unsigned long long)(64 * ((uint64_t)mu.bytes.size() + 64)), mu.bytes.size(), how.c_str(), hex(mu.bytes).substr(0, 160).c_str());
      if (used > budget) return fmt("over-allocation: Read via %s allocated %llu bytes for a %zu-byte input (budget %llu, largest single request %llu) [%s] input %s", rk_name(rk), (unsigned long long)used, mu.bytes.size(), (unsigned long long)budget, (unsigned long long)AllocMeter::peak_single, how.c_str(), hex(mu.bytes).substr(0, 160).c_str());
      if (r.position() != SIZE_MAX && r.position() > mu.bytes.size() && (rk == R_Ped || rk == R_BPed || rk == R_Log || rk == R_BLog)) return fmt("position-past-end: %s at %zu of %zu", rk_name(rk), r.position(), mu.bytes.size());
      if (rk_bounded(rk) && r.position() != SIZE_MAX && r.position() > lim) return fmt("bound-exceeded: %s with limit %zu consumed %zu bytes of the wrapped reader [%s] input %s", rk_name(rk), lim, r.position(), how.c_str(), hex(mu.bytes).substr(0, 160).c_str());
      // inspect, then reuse for a valid read, then destroy
      Value seen = obj->get();
      if (s != 0) { std::string bad = bad_size_member(*t.schema, seen); if (!bad.empty()) return fmt("invalid-after-failure: after a failed read (%s) via %s [%s] the destination holds %s", err_name(s), rk_name(rk), how.c_str(), bad.c_str()); }
      ReaderBox r2; r2.open(t.has_handle ? R_Log : R_Ped, good.bytes); r2.log.handles = good_handles;
      int s2 = obj->read(r2);
      if (s2 != 0) return fmt("reuse-failed: after a %s read via %s [%s], reading a valid encoding into the same object returned %s", s == 0 ? "successful" : "failed", rk_name(rk), how.c_str(), err_name(s2));
      if (!value_equal(*t.schema, obj->get(), actual)) return fmt("reuse-value: after a %s read via %s [%s], a valid read produced %s instead of %s", s == 0 ? "successful" : "failed", rk_name(rk), how.c_str(), to_text(*t.schema, obj->get()).c_str(), to_text(*t.schema, actual).c_str());
      c.rep.label(s == 0 ? "hostile-accepted" : "hostile-rejected");
    }
  }
  if (tracker().errors) { std::string e = tracker().first_error; tracker().reset(); return "lifetime: " + e + " [" + how + "]"; }
  if (nontrivial) c.rep.nontriv(bytes_hash(t, mu.bytes));
  if (mu.inflated_len || ref.inflated) c.rep.label("inflated-length");
  if (!ref.ok && ref.nested_ok > 0) c.rep.label("rejected-after-nested-accept");
  c.rep.sample(t.name + " [" + how + "] " + hex(mu.bytes).substr(0, 80));
  return "";
}

// ------------------------------------------------------------------------------------------------
// C11: decoding depends only on the bytes, not on the destination's prior contents.
std::string body_C11(Ctx& c, CaseIn& in) {
  const TypeOps& t = *in.t;
  Tape& tp = *in.rest;
  tracker().reset();
  std::string verdict;
  bool prior_nonempty = false, prior_failed = false, prior_badsize = false, prior_newer = false;
  std::string hist;
  {
    GenCfg small = c.cfg; small.budget = 80;
    auto obj = t.make();
    std::map<int64_t, int64_t> handles;
    size_t steps = (size_t)tp.below(5);
    Value seed_val = in.v;
    for (size_t i = 0; i < steps; i++) {
      uint64_t kind = tp.below(4);
      Value pv = gen_value(*t.schema, tp, small);
      if (kind == 3) {
        // a prior object assigned by hand whose logical-buffer size member is out of range (the decoder
        // never consults the destination's size member, so the result must still be the fresh one)
        if (break_lbuf(*t.schema, pv, tp)) { obj->assign(pv); hist += "assign(size member out of range); "; prior_failed = false; prior_badsize = true; }
        else kind = 0;
      }
      if (kind == 0) { obj->assign(pv); hist += "assign; "; prior_failed = false; }
      else if (kind == 1 && t.has_table && tp.below(2)) {
        // a message from a NEWER writer: deleted entries are present on the wire and an unknown entry follows; the same
        // destination object is decoded into again and again (a record loop)
        bool changed = false;
        SchemaP ws = writer_variant(*t.schema, tp, &changed);
        Value wv = gen_value(*ws, tp, small);
        Encoded e = ref_encode(*ws, wv);
        auto ht = default_handle_table(*ws, wv);
        LibRead lr = lib_read(t, e.bytes, ht, obj.get());
        if (lr.status != 0) { verdict = fmt("history-read-failed: %s reading a message with deleted / unknown entries into a used object; history [%s]", err_name(lr.status), hist.c_str()); break; }
        hist += "read-valid(newer writer); "; prior_failed = false; prior_newer = true;
      }
      else if (kind == 1) {
        auto tmp = t.make(); tmp->assign(pv); Value pa = tmp->get();
        Encoded e = ref_encode(*t.schema, pa);
        auto ht = default_handle_table(*t.schema, pa);
        LibRead lr = lib_read(t, e.bytes, ht, obj.get());
        if (lr.status != 0) { verdict = fmt("history-read-failed: %s", err_name(lr.status)); break; }
        hist += "read-valid; "; prior_failed = false;
      } else {
        auto tmp = t.make(); tmp->assign(pv); Value pa = tmp->get();
        Mutated mu = mutate(t, pa, tp, 1 + (int)tp.below(2));
        LibRead lr = lib_read(t, mu.bytes, mu.handles, obj.get());
        hist += lr.status ? "read-bad(failed); " : "read-bad(accepted); ";
        prior_failed = lr.status != 0;
      }
    }
    if (verdict.empty()) {
      Value prior = obj->get();
      // final encoding: valid (2/3) or mutated
      auto tmp = t.make(); tmp->assign(seed_val); Value fa = tmp->get();
      Bytes fin; std::map<int64_t, int64_t> fh;
      bool final_mutated = tp.below(3) == 0;
      if (!final_mutated && t.has_table && tp.below(2)) {
        bool changed = false;
        SchemaP ws = writer_variant(*t.schema, tp, &changed);
        Value wv = gen_value(*ws, tp, small);
        fin = ref_encode(*ws, wv).bytes; fh = default_handle_table(*ws, wv);
        hist += "final from a newer writer; ";
      }
      else if (final_mutated) { Mutated mu = mutate(t, fa, tp, 1); fin = mu.bytes; fh = mu.handles; }
      else { Encoded e = ref_encode(*t.schema, fa); fin = e.bytes; fh = default_handle_table(*t.schema, fa); }
      auto fresh = t.make();
      LibRead a = lib_read(t, fin, fh, fresh.get());
      LibRead b = lib_read(t, fin, fh, obj.get());
      Value zero = t.make()->get();
      prior_nonempty = !value_equal(*t.schema, prior, zero) && !value_equal(*t.schema, prior, a.value);
      if (a.status != b.status) verdict = fmt("status-depends-on-prior: fresh object %s, used object %s; history [%s] prior %s input %s", err_name(a.status), err_name(b.status), hist.c_str(), to_text(*t.schema, prior).c_str(), hex(fin).substr(0, 120).c_str());
      else if (a.status == 0 && !value_equal(*t.schema, a.value, b.value)) verdict = fmt("value-depends-on-prior: fresh %s, used %s; history [%s] prior %s input %s", to_text(*t.schema, a.value).c_str(), to_text(*t.schema, b.value).c_str(), hist.c_str(), to_text(*t.schema, prior).c_str(), hex(fin).substr(0, 120).c_str());
      else if (a.status == 0 && a.pos != b.pos) verdict = fmt("consumed-depends-on-prior: %zu vs %zu", a.pos, b.pos);
      if (a.status != 0) c.rep.exclude("final read failed: only the status is compared");
      if (verdict.empty()) c.rep.sample(t.name + " history [" + hist + "] prior " + to_text(*t.schema, prior).substr(0, 80) + " then " + hex(fin).substr(0, 40));
    }
  }
  // all objects of the case are gone: nothing may be alive, nothing destroyed twice
  TrackerState& ts = tracker();
  if (verdict.empty() && ts.errors) verdict = "lifetime: " + ts.first_error + " history [" + hist + "]";
  if (verdict.empty() && !ts.live.empty()) verdict = fmt("leak: %zu tracked elements still alive after the case; history [%s]", ts.live.size(), hist.c_str());
  if (ts.constructed) c.rep.label("tracked-elements", ts.constructed);
  ts.reset();
  if (!verdict.empty()) return verdict;
  if (prior_nonempty || prior_failed || prior_badsize) c.rep.nontriv(hash_str(t.name + hist + to_text(*t.schema, in.v)));
  if (prior_failed) c.rep.label("prior-state-from-failed-read");
  if (prior_badsize) c.rep.label("prior-state-with-out-of-range-size-member");
  if (prior_newer) c.rep.label("prior-state-from-a-newer-writers-message");
  if (prior_nonempty) c.rep.label("prior-state-differs");
  return "";
}

// ------------------------------------------------------------------------------------------------
// C15 (a): handles travel out of band, in order, exactly once; type tag validated; errors verbatim.
std::string body_C15(Ctx& c, CaseIn& in) {
  const TypeOps& t = *in.t;
  Tape& tp = *in.rest;
  if (!t.has_handle) return "";
  auto o = t.make(); o->assign(in.v);
  Value actual = o->get();
  std::vector<const Value*> hs; collect_handles(*t.schema, actual, hs);
  std::vector<int64_t> refs = gen_refs(tp, hs.size() + 4);
  for (int wk : {W_Log, W_BLog}) {
    WriterBox w; w.open(wk, SIZE_MAX, SIZE_MAX); w.log.refs_to_return = refs;
    int s = o->write(w);
    c.rep.evaluations++;
    if (s != 0) return fmt("write-failed: %s", err_name(s));
    // pushes == in-order traversal, each handle exactly once
    if (w.log.pushed.size() != hs.size()) return fmt("push-count: %zu handles in the value, %zu pushed via %s", hs.size(), w.log.pushed.size(), wk_name(wk));
    EncodeOpts eo; eo.has_refs = true;
    for (size_t i = 0; i < hs.size(); i++) {
      const PushRec& p = w.log.pushed[i];
      if (p.valid != (hs[i]->tag != 0) || (p.valid && p.payload != (int64_t)hs[i]->u)) return fmt("push-order: push %zu carried %s payload %lld, value has %s payload %lld", i, p.valid ? "valid" : "empty", (long long)p.payload, hs[i]->tag ? "valid" : "empty", (long long)hs[i]->u);
      eo.refs.push_back(p.ref);
    }
    // exactly the returned reference is encoded after each type tag (minimal INT64)
    Encoded ref = ref_encode(*t.schema, actual, eo);
    size_t diff;
    if (!bytes_equal_mod_padding(w.log.out, ref, &diff)) return fmt("reference-encoding: bytes differ at %zu: lib %s ref %s", diff, hex(w.log.out).substr(0, 160).c_str(), hex(ref.bytes).substr(0, 160).c_str());
    // each push happened after its type tag and before its reference was written
    size_t hi = 0;
    for (auto& f : ref.fields) if (f.kind == F::HRef) { if (w.log.pushed[hi].at != f.off) return fmt("push-position: handle %zu pushed at byte %zu, its reference is encoded at %zu", hi, w.log.pushed[hi].at, f.off); hi++; }
    // read back
    for (int rk : {R_Log, R_BLog}) {
      ReaderBox r; r.open(rk, w.log.out); load_handles(r.log, w.log.pushed);
      auto o2 = t.make(); int rs = o2->read(r);
      if (rs != 0) return fmt("read-failed: %s via %s", err_name(rs), rk_name(rk));
      if (!value_equal(*t.schema, o2->get(), actual)) return fmt("handles-differ: got %s want %s", to_text(*t.schema, o2->get()).c_str(), to_text(*t.schema, actual).c_str());
      std::vector<int64_t> want; for (auto& p : w.log.pushed) want.push_back(p.ref);
      if (r.log.resolved != want) return fmt("resolve-order: %zu references resolved, %zu encoded (or order differs)", r.log.resolved.size(), want.size());
    }
    if (hs.empty()) continue;
    // wrong type tag on one handle -> UnexpectedHandleType
    {
      std::vector<size_t> tf; for (size_t i = 0; i < ref.fields.size(); i++) if (ref.fields[i].kind == F::HType) tf.push_back(i);
      size_t fi = tf[tp.below(tf.size())];
      const uint64_t tag = ref.fields[fi].value;
      std::vector<uint64_t> wrong;
      for (uint64_t cand : std::initializer_list<uint64_t>{0, 1, tag + 1, tag - 1, tag + 2, tag + 256, tag + ((uint64_t)1 << 32), tag ^ ((uint64_t)1 << 63), ~(uint64_t)0}) if (cand != tag) wrong.push_back(cand);
      EncodeOpts e2 = eo; Override ov; ov.what = Override::SetValue; ov.value = wrong[tp.below(wrong.size())]; e2.overrides[fi] = ov;
      if (ov.value == 0) c.rep.label("wrong-type-tag:zero");
      Encoded bad = ref_encode(*t.schema, actual, e2);
      ReaderBox r; r.open(R_Log, bad.bytes); load_handles(r.log, w.log.pushed);
      auto o2 = t.make(); int rs = o2->read(r);
      if (rs != E_UnexpectedHandleType) return fmt("type-tag: handle type %llu instead of %llu gave %s", (unsigned long long)ov.value, (unsigned long long)ref.fields[fi].value, err_name(rs));
      c.rep.label("wrong-type-tag");
    }
    // resolver error is returned unchanged, nothing is called afterwards
    {
      size_t hi2 = (size_t)tp.below(hs.size());
      static const int es[] = {E_InvalidHandleReference, E_InvalidHandleValue, E_IOError, E_SystemError, E_DebugError};
      int e = es[tp.below(5)];
      ReaderBox r; r.open(wk == W_Log ? R_Log : R_BLog, w.log.out); load_handles(r.log, w.log.pushed);
      r.log.handle_errors[w.log.pushed[hi2].ref] = e;
      auto o2 = t.make(); int rs = o2->read(r);
      // the same reference may legitimately occur earlier only for empty handles (-1)
      if (rs != e) return fmt("resolver-error: GetHandle(%lld) failed with %s, Read returned %s", (long long)w.log.pushed[hi2].ref, err_name(e), err_name(rs));
      if (r.log.calls_after_failure) return fmt("calls-after-resolver-error: %ld", r.log.calls_after_failure);
      c.rep.label("resolver-error");
    }
    // push error is returned unchanged
    {
      size_t hi2 = (size_t)tp.below(hs.size());
      int e = tp.below(2) ? E_IOError : E_InvalidHandleValue;
      WriterBox w2; w2.open(wk, SIZE_MAX, SIZE_MAX); w2.log.refs_to_return = refs; w2.log.push_errors[hi2] = e;
      int ws = o->write(w2);
      if (ws != e) return fmt("push-error: PushHandle #%zu failed with %s, Write returned %s", hi2, err_name(e), err_name(ws));
      if (w2.log.calls_after_failure) return fmt("calls-after-push-error: %ld", w2.log.calls_after_failure);
      if (w2.log.pushed.size() != hi2 + 1) return fmt("pushes-after-error");
      c.rep.label("push-error");
    }
  }
  // non-trivial: >= 2 handles at different depths, or one inside a table entry
  {
    Encoded ref = ref_encode(*t.schema, actual);
    std::set<int> depths; bool in_table = false;
    for (auto& f : ref.fields) if (f.kind == F::HRef) depths.insert(f.depth);
    std::function<void(const Schema&, const Value&, bool)> walk = [&](const Schema& s, const Value& v, bool inside) {
      if (s.k == K::Hnd && inside) in_table = true;
      if (s.k == K::Tab) { for (size_t i = 0; i < s.entries.size(); i++) if (s.entries[i].active && v.kids[i].tag) walk(*s.entries[i].type, v.kids[i].kids[0], true); }
      else if (s.k == K::Seq) for (auto& e : v.kids) walk(*s.kids[0], e, inside);
      else if (s.k == K::Tup || s.k == K::Stu) for (size_t i = 0; i < s.kids.size(); i++) walk(*s.kids[i], v.kids[i], inside);
      else if (s.k == K::Map) for (size_t i = 0; i + 1 < v.kids.size(); i += 2) { walk(*s.kids[0], v.kids[i], inside); walk(*s.kids[1], v.kids[i + 1], inside); }
      else if ((s.k == K::Opt && v.tag) || (s.k == K::Res && v.tag == 2)) walk(*s.kids[0], v.kids[0], inside);
      else if (s.k == K::Var && v.tag >= 0) walk(*s.kids[v.tag], v.kids[0], inside);
    };
    walk(*t.schema, actual, false);
    if (depths.size() >= 2 || in_table) c.rep.nontriv(hash_str(t.name + to_text(*t.schema, actual)));
    if (in_table) c.rep.label("handle-in-table-entry");
    c.rep.label(fmt("handles:%zu", std::min<size_t>(hs.size(), 5)));
  }
  c.rep.sample(t.name + " " + to_text(*t.schema, actual).substr(0, 120));
  return "";
}

// ------------------------------------------------------------------------------------------------
// One raw input for the libFuzzer targets (and for replaying their artifacts through the regular
// harness). C02: byte 0 selects reader kind and limit, the rest is the message. C04: the whole
// input is the message.
std::string fuzz_one(Ctx& c, const TypeOps& t, bool is02, const uint8_t* data, size_t size, bool* accepted, bool* noncanonical) {
  // per-type constants, computed once
  struct PerType { std::map<int64_t, int64_t> handles; Value good_value; Bytes good_bytes; };
  static std::map<const TypeOps*, PerType> cache;
  auto it = cache.find(&t);
  if (it == cache.end()) {
    PerType pt;
    for (int64_t i = 0; i < 64; i++) pt.handles[i] = 100 + i;
    auto vs = variants(*t.schema);
    pt.good_value = vs[vs.size() > 2 ? 2 : 0];
    { auto o = t.make(); o->assign(pt.good_value); pt.good_value = o->get(); }
    for (auto& h : default_handle_table(*t.schema, pt.good_value)) pt.handles[h.first] = h.second;
    pt.good_bytes = ref_encode(*t.schema, pt.good_value).bytes;
    it = cache.emplace(&t, std::move(pt)).first;
  }
  const std::map<int64_t, int64_t>& handles = it->second.handles;
  const Value& good_value = it->second.good_value;
  tracker().reset();
  if (!is02) {
    bool rj = false;
    std::string m = compare_with_reference(c, t, Bytes(data, data + size), handles, false, "fuzz input", noncanonical, &rj);
    *accepted = !rj;
    return m;
  }
  if (t.unbounded || size == 0) return "";
  const Bytes& good_bytes = it->second.good_bytes;
  static const int kinds_all[] = {R_CPed, R_CBuf, R_Buf, R_Ped, R_BBuf, R_BPed, R_Log, R_BLog};
  const bool counted = t.supports_reader(R_CPed);
  std::vector<int> kinds;
  for (int k : kinds_all) { if (!t.supports_reader(k)) continue; if (counted && (k == R_Buf || k == R_Ped || k == R_BBuf || k == R_BPed)) continue; kinds.push_back(k); }
  int rk = kinds[data[0] % kinds.size()];
  const uint8_t* msg = data + 1; size_t n = size - 1;
  size_t lim = n;
  if (rk_bounded(rk)) { uint8_t sel = data[0] / kinds.size(); lim = sel % 3 == 0 ? n : sel % 3 == 1 ? n / 2 : SIZE_MAX - 1; }
  const uint64_t budget = 4096 + (64 + 4 * (uint64_t)t.elem_max) * (uint64_t)n;
  auto obj = t.make();
  c.rep.current_detail = fmt("fuzz Read of %s via %s limit %zu input %s", t.name.c_str(), rk_name(rk), lim, hex(Bytes(msg, msg + n)).substr(0, 160).c_str());
  ReaderBox r; r.open(rk, msg, n, lim); r.log.handles = handles;
  AllocMeter::arm();
  int s = obj->read(r);
  uint64_t used = AllocMeter::disarm();
  c.rep.evaluations++;
  if (s == kNonTermination) return fmt("non-termination: Read via %s exceeded the reader call budget for a %zu-byte input", rk_name(rk), n);
  if (used > budget) return fmt("over-allocation: Read via %s allocated %llu bytes for %zu input bytes (budget %llu)", rk_name(rk), (unsigned long long)used, n, (unsigned long long)budget);
  *accepted = s == 0;
  if (rk_bounded(rk) && r.position() != SIZE_MAX && r.position() > lim) return fmt("bound-exceeded: %s with limit %zu consumed %zu bytes of the wrapped reader", rk_name(rk), lim, r.position());
  Value seen = obj->get();
  if (s != 0) { std::string bad = bad_size_member(*t.schema, seen); if (!bad.empty()) return fmt("invalid-after-failure: after a failed read (%s) via %s the destination holds %s", err_name(s), rk_name(rk), bad.c_str()); }
  ReaderBox r2; r2.open(t.has_handle ? R_Log : R_Ped, good_bytes); r2.log.handles = handles;
  int s2 = obj->read(r2);
  if (s2 != 0) return fmt("reuse-failed: a valid read after the hostile read returned %s", err_name(s2));
  if (!value_equal(*t.schema, obj->get(), good_value)) return fmt("reuse-value: a valid read after the hostile read produced %s", to_text(*t.schema, obj->get()).c_str());
  obj.reset();
  if (tracker().errors) return "lifetime: " + tracker().first_error;
  return "";
}

}  // namespace vk
