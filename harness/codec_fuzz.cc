// libFuzzer targets for C02 (hostile input on bounded readers) and C04 (differential decoding).
// One process fuzzes ONE destination type with ONE oracle (FUZZ_TYPE = index in the shard,
// FUZZ_PROP = C02 | C04) so that coverage feedback is not diluted. The semantic oracle
// (fuzz_one, codec_props2.cc) runs inside the target; a failure records the input as a replayable
// case (src=fuzz:<hex>, replayed through the ordinary codec binary), flushes the counters and
// traps. Seed inputs (reference encodings of the must-hit values) are written into FUZZ_CORPUS.
#include "harness/codec.h"
#include <cstdio>
#include <cstdlib>

using namespace vk;

namespace {
Ctx* g = nullptr;
const TypeOps* T = nullptr;
bool is02 = true;
long execs = 0, n_acc = 0, n_rej = 0, n_nc = 0;
void flush() {
  if (!g) return;
  g->rep.evaluations = execs;
  g->rep.labels["fuzz-accepted"] = n_acc; g->rep.labels["fuzz-rejected"] = n_rej; g->rep.labels["fuzz-accepted-noncanonical"] = n_nc;
  g->rep.write("done");
}
}  // namespace

extern "C" int LLVMFuzzerInitialize(int*, char***) {
  static Ctx ctx; g = &ctx;
  ctx.types = shard_types();
  const char* ti = getenv("FUZZ_TYPE"); const char* pr = getenv("FUZZ_PROP"); const char* out = getenv("FUZZ_REPORT"); const char* corpus = getenv("FUZZ_CORPUS");
  size_t idx = ti ? strtoul(ti, nullptr, 10) : 0; idx %= ctx.types.size();
  T = &ctx.types[idx];
  is02 = !(pr && std::string(pr) == "C04");
  ctx.rep.property = is02 ? "C02" : "C04"; ctx.rep.tier = "quick"; ctx.rep.unit = "fuzz"; if (out) ctx.rep.out_path = out;
  ctx.rep.notes["fuzz_type"] = T->name;
  install_report(&ctx.rep);
  if (corpus) {
    auto vs = variants(*T->schema);
    for (size_t i = 0; i < vs.size() && i < 24; i++) {
      auto oo = T->make(); oo->assign(vs[i]);
      Bytes b = ref_encode(*T->schema, oo->get()).bytes;
      if (is02) b.insert(b.begin(), (uint8_t)i);
      char path[512]; snprintf(path, sizeof path, "%s/seed_%02zu", corpus, i);
      FILE* f = fopen(path, "wb"); if (f) { fwrite(b.data(), 1, b.size(), f); fclose(f); }
    }
  }
  atexit(flush);
  return 0;
}

extern "C" int LLVMFuzzerTestOneInput(const uint8_t* data, size_t size) {
  execs++;
  bool acc = false, nc = false;
  g->rep.current_case = "prop=" + g->rep.property + " type=" + T->name + " src=fuzz:" + hex(Bytes(data, data + size));
  std::string m = fuzz_one(*g, *T, is02, data, size, &acc, &nc);
  if (!m.empty()) {
    fprintf(stderr, "FUZZ-FAIL property=%s type=%s: %s\n", g->rep.property.c_str(), T->name.c_str(), m.c_str());
    g->rep.fail(m, g->rep.current_case, g->rep.property + "|" + T->name + "|" + m.substr(0, m.find(':')));
    flush();
    __builtin_trap();
  }
  (acc ? n_acc : n_rej)++;
  if (nc) n_nc++;
  if ((is02 && !acc && size > 4) || (!is02 && (nc || (acc && size > 2)))) g->rep.nontriv(fnv1a(data, size));
  if (g->rep.samples.size() < 4 && size > 3 && (execs % 5000) == 0) g->rep.sample(T->name + " " + hex(Bytes(data, data + size)).substr(0, 80) + (acc ? " (accepted)" : " (rejected)"));
  return 0;
}
