// C14: RPC dispatch calls exactly the selected handler with the sent arguments, replies with the
// handler's return value, rejects unbound selectors and undecodable requests without running a
// handler or replying, and keeps successive calls on one connection in frame.
// With --prop C10 the same binary enumerates I/O faults in SimpleMethodSender / the dispatcher.
#include "harness/rpc.h"
#include "kit/rcdrv.h"
#include "kit/report.h"
#include <cstdarg>

using namespace vk;

static std::string fmt(const char* f, ...) __attribute__((format(printf, 1, 2)));
static std::string fmt(const char* f, ...) { char b[2048]; va_list ap; va_start(ap, f); vsnprintf(b, sizeof b, f, ap); va_end(ap); return b; }

static bool fits(const Schema& s, const Value& v) {   // counts of v fit schema s (v generated for a fungible schema)
  switch (s.k) {
    case K::Bin: { size_t n = v.bytes.size() / (size_t)(s.bits / 8); return !(s.fixed >= 0 && n != (size_t)s.fixed) && !(s.maxc >= 0 && n > (size_t)s.maxc); }
    case K::Seq: if ((s.fixed >= 0 && v.kids.size() != (size_t)s.fixed) || (s.maxc >= 0 && v.kids.size() > (size_t)s.maxc)) return false; for (auto& e : v.kids) if (!fits(*s.kids[0], e)) return false; return true;
    case K::Tup: case K::Stu: if (v.kids.size() != s.kids.size()) return false; for (size_t i = 0; i < s.kids.size(); i++) if (!fits(*s.kids[i], v.kids[i])) return false; return true;
    default: return true;
  }
}

struct Ctx { std::vector<IfaceOps> ifaces; Report rep; Args args; bool thorough = false; };

static SchemaP tup_of(const std::vector<SchemaP>& v) { return s_tup(v); }
static bool same_value(const Schema& s, Value a, Value b) { canon(s, a); canon(s, b); return a == b; }

static Value gen_args(const MethodOps& m, Tape& tp) {
  Value v; GenCfg cfg; cfg.budget = 60;
  for (auto& d : m.arg_donors) v.kids.push_back(gen_value(*d, tp, cfg));
  return v;
}

// One generated history on one connection. Returns "" or a failure message.
static std::string run_history(Ctx& c, size_t ii, const std::vector<uint64_t>& tape, bool* nontrivial) {
  const IfaceOps& I = c.ifaces[ii];
  Tape tp(tape);
  rpc_state() = RpcState();
  auto conn = std::make_unique<RpcConn>();
  conn->dispatcher = I.dispatch;
  size_t steps = 1 + (size_t)tp.below(8);
  std::vector<std::pair<uint64_t, uint64_t>> raw;
  for (size_t i = 0; i < steps; i++) raw.push_back({tp.next(), tp.next()});
  std::set<size_t> ok_methods; bool any_fail = false, any_ok = false;
  std::string hist;
  for (size_t step = 0; step < steps; step++) {
    uint64_t kind = raw[step].first % 10;
    size_t mi = (size_t)(raw[step].second % I.methods.size());
    const MethodOps& M = I.methods[mi];
    const SchemaP argsH = tup_of(M.arg_handler);
    if (kind <= 6 || !M.bound) {
      // ---- an ordinary Invoke (bound or unbound method)
      Value args = gen_args(M, tp);
      GenCfg cfg; cfg.budget = 60;
      Value retv = gen_value(*M.ret_donor, tp, cfg);
      rpc_state().script[(int)mi] = retv;
      if (M.echo_arg >= 0) retv = args.kids[(size_t)M.echo_arg];   // echo handlers return (a reference to) their own argument
      size_t log_before = rpc_state().log.size(), rep_before = conn->rep.out.size(), req_before = conn->req.out.size();
      long runs_before = conn->dispatch_runs;
      conn->pumped = false;
      // Re-entrant dispatch (1 in 6 of the bound calls): while the handler of this call runs, a request for the
      // SAME method arrives on a second connection and is dispatched to completion on the same thread (a
      // cooperative server). The outer handler looks at its arguments only afterwards.
      bool nested = M.bound && tp.below(6) == 0;
      Value args2; std::string nested_err; InvokeResult r2;
      if (nested) {
        args2 = gen_args(M, tp);
        rpc_state().nested = [&] {
          RpcConn c2; c2.dispatcher = I.dispatch;
          r2 = M.invoke(c2, args2);
          if (c2.dispatch_status != 0) nested_err = fmt("nested-dispatch-failed: %s", err_name(c2.dispatch_status));
        };
      }
      c.rep.current_detail = fmt("%s.%s invoke, history so far [%s]", I.name.c_str(), M.name.c_str(), hist.c_str());
      InvokeResult r = M.invoke(*conn, args);
      c.rep.evaluations++;
      if (conn->dispatch_runs != runs_before + 1) return fmt("dispatcher-not-run: Invoke of %s.%s did not reach the reply reader exactly once (%ld runs)", I.name.c_str(), M.name.c_str(), conn->dispatch_runs - runs_before);
      // the request on the wire is the documented one: selector, then the argument tuple
      {
        const uint8_t* p = conn->req.out.data() + req_before; size_t n = conn->req.out.size() - req_before;
        Decoded ds = ref_decode(*s_int(I.selector_bits, false), p, n);
        if (!ds.ok || ds.value.u != M.selector) return fmt("request-selector: %s.%s wrote selector %llx (ok=%d), expected %llx", I.name.c_str(), M.name.c_str(), (unsigned long long)ds.value.u, ds.ok, (unsigned long long)M.selector);
        Decoded da = ref_decode(*argsH, p + ds.consumed, n - ds.consumed);
        if (!da.ok || ds.consumed + da.consumed != n) return fmt("request-args: %s.%s request is not selector + argument tuple (%s)", I.name.c_str(), M.name.c_str(), err_name(da.err));
        if (!same_value(*argsH, da.value, args)) return fmt("request-args-value: %s.%s sent %s for %s", I.name.c_str(), M.name.c_str(), to_text(*argsH, da.value).c_str(), to_text(*argsH, args).c_str());
      }
      if (M.bound) {
        if (conn->dispatch_status != 0) return fmt("dispatch-failed: %s.%s: dispatcher returned %s for a valid request", I.name.c_str(), M.name.c_str(), err_name(conn->dispatch_status));
        if (nested) {
          if (!nested_err.empty()) return nested_err;
          if (rpc_state().log.size() != log_before + 2) return fmt("handler-count: %s.%s: %zu handler invocations for one call and one nested call", I.name.c_str(), M.name.c_str(), rpc_state().log.size() - log_before);
          const RpcCall& inner = rpc_state().log[log_before];
          if (inner.method != (int)mi || !same_value(*argsH, inner.args, args2)) return fmt("wrong-arguments: nested call of %s.%s: handler saw %s, caller passed %s", I.name.c_str(), M.name.c_str(), to_text(*argsH, inner.args).c_str(), to_text(*argsH, args2).c_str());
          const Value& want2 = M.echo_arg >= 0 ? args2.kids[(size_t)M.echo_arg] : retv;
          if (r2.status != 0 || !same_value(*M.ret_proto, r2.value, want2)) return fmt("wrong-return: nested call of %s.%s returned %s (%s), handler produced %s", I.name.c_str(), M.name.c_str(), to_text(*M.ret_proto, r2.value).c_str(), err_name(r2.status), to_text(*M.ret_proto, want2).c_str());
          c.rep.label("call:with-nested-dispatch-of-same-method");
        } else if (rpc_state().log.size() != log_before + 1) return fmt("handler-count: %s.%s: %zu handler invocations for one call", I.name.c_str(), M.name.c_str(), rpc_state().log.size() - log_before);
        const RpcCall& call = rpc_state().log.back();
        if (call.method != (int)mi) return fmt("wrong-handler: call of %s.%s (selector %llx) ran the handler of %s", I.name.c_str(), M.name.c_str(), (unsigned long long)M.selector, I.methods[call.method].name.c_str());
        if (!same_value(*argsH, call.args, args)) return fmt("wrong-arguments: %s.%s handler saw %s, caller passed %s", I.name.c_str(), M.name.c_str(), to_text(*argsH, call.args).c_str(), to_text(*argsH, args).c_str());
        if (conn->req_reader.pos != conn->req.out.size()) return fmt("request-not-consumed: %s.%s dispatcher stopped at %zu of %zu", I.name.c_str(), M.name.c_str(), conn->req_reader.pos, conn->req.out.size());
        if (r.status != 0) return fmt("invoke-failed: %s.%s returned %s", I.name.c_str(), M.name.c_str(), err_name(r.status));
        if (!same_value(*M.ret_proto, r.value, retv)) return fmt("wrong-return: %s.%s returned %s, handler produced %s", I.name.c_str(), M.name.c_str(), to_text(*M.ret_proto, r.value).c_str(), to_text(*M.ret_proto, retv).c_str());
        if (conn->rep_reader.inner.pos != conn->rep.out.size()) return fmt("reply-not-consumed: %s.%s client stopped at %zu of %zu reply bytes", I.name.c_str(), M.name.c_str(), conn->rep_reader.inner.pos, conn->rep.out.size());
        // exactly one reply: the bytes are the encoding of the return value and nothing else
        {
          Decoded dr = ref_decode(*M.ret_handler, conn->rep.out.data() + rep_before, conn->rep.out.size() - rep_before);
          if (!dr.ok || dr.consumed != conn->rep.out.size() - rep_before) return fmt("reply-framing: %s.%s reply is not exactly one encoded return value", I.name.c_str(), M.name.c_str());
        }
        if (M.echo_arg >= 0) c.rep.label("call:handler-returns-reference-to-argument");
        if (M.name.rfind("twin.", 0) == 0) c.rep.label("call:method-of-second-interface-in-the-same-table");
        ok_methods.insert(mi); any_ok = true;
        hist += M.name + "(ok) ";
        c.rep.label("call:ok");
        if (M.substitutions) c.rep.label("call:fungible-or-conforming-substitution");
      } else {
        if (conn->dispatch_status != E_InvalidInterfaceMethod) return fmt("unbound-selector: %s.%s is not bound, dispatcher returned %s", I.name.c_str(), M.name.c_str(), err_name(conn->dispatch_status));
        if (rpc_state().log.size() != log_before) return fmt("unbound-ran-handler: %s.%s", I.name.c_str(), M.name.c_str());
        if (conn->rep.out.size() != rep_before) return fmt("unbound-replied: %zu reply bytes for an unbound selector", conn->rep.out.size() - rep_before);
        if (r.status == 0) return fmt("unbound-invoke-ok: Invoke of unbound %s.%s reported success", I.name.c_str(), M.name.c_str());
        any_fail = true; hist += M.name + "(unbound) ";
        c.rep.label("call:unbound");
        // framing is only promised across successful calls: re-synchronise
        conn = std::make_unique<RpcConn>(); conn->dispatcher = I.dispatch;
      }
    } else {
      // ---- a corrupted / truncated request fed straight to the dispatcher
      Value args = gen_args(M, tp);
      GenCfg cfg; cfg.budget = 60;
      rpc_state().script[(int)mi] = gen_value(*M.ret_donor, tp, cfg);
      Bytes reqb = ref_encode(*s_int(I.selector_bits, false), [&] { Value s; s.u = M.selector; return s; }()).bytes;
      size_t sel_len = reqb.size();
      Encoded ea = ref_encode(*argsH, args);
      std::string how;
      if (kind == 7) {   // truncate anywhere
        reqb.insert(reqb.end(), ea.bytes.begin(), ea.bytes.end());
        size_t cut = (size_t)tp.below(reqb.size());
        reqb.resize(cut); how = fmt("truncated to %zu bytes", cut);
      } else if (kind == 8 && !ea.fields.empty()) {   // one field override in the argument tuple
        EncodeOpts eo; Override ov;
        size_t fi = (size_t)tp.below(ea.fields.size());
        const Field& f = ea.fields[fi];
        if (f.kind == F::Prefix) { ov.what = Override::SetPrefixByte; static const uint8_t alt[] = {P_BIN, P_ARY, P_STR, P_MAP, P_STU, P_NIL, P_VAR, 0x8a, P_I64, 0x7f}; ov.value = alt[tp.below(10)]; how = fmt("arg field %zu prefix -> %02x", fi, (unsigned)ov.value); }
        else if (tp.below(2)) { ov.what = Override::ForceClass; ov.cls = C_U8 + (int)tp.below(8); how = fmt("arg field %zu (%s) forced to class %s", fi, fkind_name(f.kind), cls_name(ov.cls)); }
        else { ov.what = Override::SetValue; ov.value = tp.below(2) ? f.value + 1 : f.value * 2 + 3; how = fmt("arg field %zu (%s) value %llu -> %llu", fi, fkind_name(f.kind), (unsigned long long)f.value, (unsigned long long)ov.value); }
        eo.overrides[fi] = ov;
        Encoded em = ref_encode(*argsH, args, eo);
        reqb.insert(reqb.end(), em.bytes.begin(), em.bytes.end());
      } else if (I.selector_bits == 32 && tp.below(2)) {   // a 64-bit-class selector whose LOW half is a bound 32-bit selector
        const uint64_t wide = M.selector | ((uint64_t)(1 + tp.below(1000)) << 32);
        reqb.clear(); reqb.push_back(0x83); for (int i = 0; i < 8; i++) reqb.push_back((uint8_t)(wide >> (8 * i)));
        sel_len = reqb.size();
        reqb.insert(reqb.end(), ea.bytes.begin(), ea.bytes.end());
        how = fmt("selector %llx sent as the 64-bit value %llx", (unsigned long long)M.selector, (unsigned long long)wide);
      } else {           // selector corrupted: wrong class / unknown value
        Value s; s.u = M.selector ^ (1ull << tp.below((uint64_t)I.selector_bits));
        reqb = ref_encode(*s_int(I.selector_bits, false), s).bytes; sel_len = reqb.size();
        reqb.insert(reqb.end(), ea.bytes.begin(), ea.bytes.end());
        how = fmt("selector %llx -> %llx", (unsigned long long)M.selector, (unsigned long long)s.u);
      }
      (void)sel_len;
      auto c2 = std::make_unique<RpcConn>(); c2->dispatcher = I.dispatch;
      c2->req.out = reqb;
      size_t log_before = rpc_state().log.size();
      c.rep.current_detail = fmt("%s.%s corrupted request [%s] %s", I.name.c_str(), M.name.c_str(), how.c_str(), hex(reqb).substr(0, 120).c_str());
      c2->pump();
      c.rep.evaluations++;
      // oracle from the reference decoder
      Decoded ds = ref_decode(*s_int(I.selector_bits, false), reqb.data(), reqb.size());
      int want = 0; const MethodOps* target = nullptr; Value want_args;
      if (!ds.ok) want = ds.err;
      else {
        for (auto& mm : I.methods) if (mm.bound && mm.selector == ds.value.u) target = &mm;
        if (!target) want = E_InvalidInterfaceMethod;
        else {
          Decoded da = ref_decode(*tup_of(target->arg_handler), reqb.data() + ds.consumed, reqb.size() - ds.consumed);
          if (!da.ok) want = da.err; else want_args = da.value;
        }
      }
      if (want != 0) {
        if (c2->dispatch_status == 0) return fmt("bad-request-accepted: [%s] dispatcher returned success, reference says %s; request %s", how.c_str(), err_name(want), hex(reqb).substr(0, 160).c_str());
        if (c2->dispatch_status != want) return fmt("bad-request-category: [%s] dispatcher returned %s, documented %s; request %s", how.c_str(), err_name(c2->dispatch_status), err_name(want), hex(reqb).substr(0, 160).c_str());
        if (rpc_state().log.size() != log_before) return fmt("bad-request-ran-handler: [%s] %s ran although the request is invalid (%s)", how.c_str(), I.methods[rpc_state().log.back().method].name.c_str(), err_name(want));
        if (!c2->rep.out.empty()) return fmt("bad-request-replied: [%s] %zu reply bytes for an invalid request", how.c_str(), c2->rep.out.size());
        any_fail = true; hist += M.name + "(bad:" + err_name(want) + ") ";
        c.rep.label(std::string("bad-request:") + err_name(want));
      } else {
        if (c2->dispatch_status != 0) return fmt("valid-request-rejected: [%s] dispatcher returned %s; request %s", how.c_str(), err_name(c2->dispatch_status), hex(reqb).substr(0, 160).c_str());
        if (rpc_state().log.size() != log_before + 1) return fmt("handler-count: [%s] %zu invocations", how.c_str(), rpc_state().log.size() - log_before);
        const RpcCall& call = rpc_state().log.back();
        if (&I.methods[call.method] != target) return fmt("wrong-handler: [%s] ran %s", how.c_str(), I.methods[call.method].name.c_str());
        if (!same_value(*tup_of(target->arg_handler), call.args, want_args)) return fmt("wrong-arguments: [%s] handler saw %s, request denotes %s", how.c_str(), to_text(*tup_of(target->arg_handler), call.args).c_str(), to_text(*tup_of(target->arg_handler), want_args).c_str());
        hist += M.name + "(mutated-but-valid) ";
        c.rep.label("mutated-request-still-valid");
      }
    }
  }
  if (ok_methods.size() >= 2 || (any_ok && any_fail)) *nontrivial = true;
  if (c.rep.samples.size() < c.rep.max_samples) c.rep.sample(I.name + " [" + I.style + ", " + std::to_string(I.selector_bits) + "-bit selectors]: " + hist);
  return "";
}

// ---- C10 part: I/O faults in SimpleMethodSender::SendMethod and in the dispatcher ------------------
static std::string run_faults(Ctx& c, size_t ii, const std::vector<uint64_t>& tape, bool* nontrivial) {
  const IfaceOps& I = c.ifaces[ii];
  Tape tp(tape);
  std::vector<size_t> bound; for (size_t i = 0; i < I.methods.size(); i++) if (I.methods[i].bound) bound.push_back(i);
  size_t mi = bound[tp.below(bound.size())];
  const MethodOps& M = I.methods[mi];
  Value args = gen_args(M, tp);
  GenCfg cfg; cfg.budget = 60; Value retv = gen_value(*M.ret_donor, tp, cfg);
  static const int errs[] = {E_WriteLimitReached, E_ReadLimitReached, E_StreamError, E_IOError, E_SystemError, E_ProtocolError, E_DebugError};
  // clean run to learn the call counts
  rpc_state() = RpcState(); rpc_state().script[(int)mi] = retv;
  RpcConn clean; clean.dispatcher = I.dispatch;
  InvokeResult r0 = M.invoke(clean, args);
  if (r0.status != 0) return fmt("clean-invoke-failed: %s", err_name(r0.status));
  const size_t n_req_w = clean.req.log.size(), n_rep_r = clean.rep_reader.inner.log.size(), n_req_r = clean.req_reader.log.size(), n_rep_w = clean.rep.log.size();
  for (int where = 0; where < 4; where++) {
    size_t n = where == 0 ? n_req_w : where == 1 ? n_rep_r : where == 2 ? n_req_r : n_rep_w;
    for (size_t k = 0; k < n; k++) {
      int e = errs[(k + (size_t)where) % 7];
      rpc_state() = RpcState(); rpc_state().script[(int)mi] = retv;
      RpcConn cn; cn.dispatcher = I.dispatch;
      LogWriter* w = nullptr; LogReader* rd = nullptr;
      if (where == 0) w = &cn.req; else if (where == 1) rd = &cn.rep_reader.inner; else if (where == 2) rd = &cn.req_reader; else w = &cn.rep;
      if (w) { w->fault.fail_at = (long)k; w->fault.err = e; } else { rd->fault.fail_at = (long)k; rd->fault.err = e; }
      c.rep.current_detail = fmt("%s.%s fault site %d call %zu error %s", I.name.c_str(), M.name.c_str(), where, k, err_name(e));
      InvokeResult r = M.invoke(cn, args);
      c.rep.evaluations++;
      const char* site = where == 0 ? "request writer" : where == 1 ? "reply reader" : where == 2 ? "request reader (dispatcher)" : "reply writer (dispatcher)";
      if (where <= 1) {
        // client-side fault: Invoke returns exactly that error and issues no further call on that object
        if (r.status != e) return fmt("error-not-propagated: %s call %zu failed with %s, Invoke returned %s", site, k, err_name(e), err_name(r.status));
        size_t calls = w ? w->log.size() : rd->log.size();
        if (calls != k + 1) return fmt("calls-after-failure: %s call %zu failed, %zu further calls were issued", site, k, calls - (k + 1));
        if (where == 0 && cn.dispatch_runs != 0) return fmt("reply-read-after-send-failure: the request could not be written but the reply was awaited");
      } else {
        if (cn.dispatch_status != e) return fmt("error-not-propagated: %s call %zu failed with %s, dispatcher returned %s", site, k, err_name(e), err_name(cn.dispatch_status));
        size_t calls = w ? w->log.size() : rd->log.size();
        if (calls != k + 1) return fmt("calls-after-failure: %s call %zu failed, %zu further calls", site, k, calls - (k + 1));
        if (where == 2 && !rpc_state().log.empty()) return fmt("handler-ran-after-read-failure: request reader failed at call %zu but the handler ran", k);
        if (where == 2 && !cn.rep.out.empty()) return fmt("reply-after-read-failure");
        // (a failed reply WRITE may still have delivered a complete reply, e.g. when the failing call is a
        //  zero-length Skip: the client's Invoke is a different operation on a different reader)
        if (where == 2 && r.status == 0) return fmt("success-after-dispatch-failure: the request could not be read but Invoke reported success");
      }
      if (k >= 2) *nontrivial = true;
    }
  }
  c.rep.label("rpc-fault-sites", (long)(n_req_w + n_rep_r + n_req_r + n_rep_w));
  if (c.rep.samples.size() < c.rep.max_samples) c.rep.sample(fmt("%s.%s: %zu+%zu+%zu+%zu primitive calls, one fault each", I.name.c_str(), M.name.c_str(), n_req_w, n_rep_r, n_req_r, n_rep_w));
  return "";
}

int main(int argc, char** argv) {
  Ctx c;
  c.args = Args::parse(argc, argv);
  c.ifaces = all_ifaces();
  c.rep.property = c.args.prop; c.rep.tier = c.args.tier; c.rep.seed = c.args.seed; c.rep.out_path = c.args.out; c.rep.unit = c.args.unit.empty() ? "rpc" : c.args.unit;
  c.thorough = c.args.tier == "thorough";
  install_report(&c.rep);
  const bool faults = c.args.prop == "C10";
  if (!faults && c.args.prop != "C14") { fprintf(stderr, "unknown --prop\n"); return 2; }
  auto run = [&](size_t ii, const std::vector<uint64_t>& tape, bool* nt) { return faults ? run_faults(c, ii, tape, nt) : run_history(c, ii, tape, nt); };

  if (!c.args.replay.empty()) {
    FILE* f = fopen(c.args.replay.c_str(), "r"); if (!f) return 2;
    std::string text; char buf[4096]; size_t n; while ((n = fread(buf, 1, sizeof buf, f)) > 0) text.append(buf, n); fclose(f);
    size_t p = text.find("prop="); if (p == std::string::npos) return 2;
    std::string line = text.substr(p, text.find('\n', p) - p);
    size_t ii = 0; size_t ip = line.find(" iface="); size_t tpos = line.find(" tape=");
    if (ip == std::string::npos || tpos == std::string::npos) return 2;
    ii = strtoul(line.c_str() + ip + 7, nullptr, 10); if (ii >= c.ifaces.size()) return 2;
    bool nt = false; std::string m = run(ii, tape_parse(line.substr(tpos + 6)), &nt);
    if (!m.empty()) { printf("REPLAY-FAIL %s\n", m.c_str()); return 1; }
    printf("REPLAY-PASS\n"); return 0;
  }
  if (c.args.get("list") == "1") { for (auto& I : c.ifaces) { printf("%s (%s, %d-bit)\n", I.name.c_str(), I.style.c_str(), I.selector_bits); for (auto& m : I.methods) printf("  %s sel=%llx bound=%d subst=%d\n", m.name.c_str(), (unsigned long long)m.selector, m.bound, m.substitutions); } return 0; }

  long per = c.args.geti("n", faults ? (c.thorough ? 400 : 60) : (c.thorough ? 40000 : 20000));
  for (size_t ii = 0; ii < c.ifaces.size(); ii++) {
    if ((int)(ii % (size_t)c.args.nshards) != c.args.shard) continue;
    std::string unit = fmt("prop=%s iface=%zu", c.args.prop.c_str(), ii);
    TapeRun r = rc_tapes(c.args.seed * 31337ull ^ hash_str(c.ifaces[ii].name) ^ (faults ? 0x10 : 0), (int)per, 100, 3.0, [&](const std::vector<uint64_t>& tape) {
      c.rep.current_case = unit + " tape=" + tape_text(tape);
      bool nt = false; std::string m = run(ii, tape, &nt);
      if (m.empty() && nt) c.rep.nontriv(hash_str(unit + tape_text(tape)));
      return m;
    });
    if (!r.ok) {
      if (r.message.rfind("HARNESS:", 0) == 0) { c.rep.fail(r.message, "", "harness"); continue; }
      c.rep.fail(r.message, unit + " tape=" + tape_text(r.tape), c.args.prop + "|" + c.ifaces[ii].name + "|" + r.message.substr(0, r.message.find(':')));
    }
    c.rep.label(std::string("iface-style:") + c.ifaces[ii].style);
    c.rep.label(fmt("selector-bits:%d", c.ifaces[ii].selector_bits));
  }
  c.rep.write("done");
  for (auto& f : c.rep.failures) fprintf(stderr, "FAIL %s\n  case: %s\n", f.message.c_str(), f.case_text.c_str());
  return c.rep.ok() ? 0 : 1;
}
