// Generic wrappers that nest a table version V in a structure, and in another table's entry.
#pragma once
#include "kit/meta.h"

namespace vk {

template <typename V>
struct WStruct {
  std::uint8_t before{};
  V t{};
  std::uint16_t after{};
  NOP_STRUCTURE(WStruct, before, t, after);
};
template <typename V>
struct WOuter {
  nop::Entry<std::string, 4> s;
  nop::Entry<V, 1> inner;
  nop::Entry<std::uint32_t, 2> x;
  NOP_TABLE_HASH(0x51, WOuter, s, inner, x);
};

template <typename V>
struct Meta<WStruct<V>> {
  static constexpr bool kHandle = MetaOf<V>::kHandle, kTable = true, kFloat = MetaOf<V>::kFloat;
  static constexpr size_t kElemMax = MetaOf<V>::kElemMax;
  static SchemaP schema() { return s_stu({s_int(8, false), MetaOf<V>::schema(), s_int(16, false)}); }
  static Value to_value(const WStruct<V>& x) { Value v; v.kids.push_back(MetaOf<std::uint8_t>::to_value(x.before)); v.kids.push_back(MetaOf<V>::to_value(x.t)); v.kids.push_back(MetaOf<std::uint16_t>::to_value(x.after)); return v; }
  static void from_value(const Value& v, WStruct<V>& x) { MetaOf<std::uint8_t>::from_value(v.kids[0], x.before); MetaOf<V>::from_value(v.kids[1], x.t); MetaOf<std::uint16_t>::from_value(v.kids[2], x.after); }
};
template <typename V>
struct Meta<WOuter<V>> {
  static constexpr bool kHandle = MetaOf<V>::kHandle, kTable = true, kFloat = MetaOf<V>::kFloat;
  static constexpr size_t kElemMax = cmax(MetaOf<V>::kElemMax, sizeof(char));
  static SchemaP schema() {
    return s_tab(0x51, {entry_schema((decltype(WOuter<V>::s)*)nullptr), entry_schema((decltype(WOuter<V>::inner)*)nullptr), entry_schema((decltype(WOuter<V>::x)*)nullptr)});
  }
  static Value to_value(const WOuter<V>& x) { Value v; v.kids.push_back(entry_to_value(x.s)); v.kids.push_back(entry_to_value(x.inner)); v.kids.push_back(entry_to_value(x.x)); return v; }
  static void from_value(const Value& v, WOuter<V>& x) { entry_from_value(v.kids[0], x.s); entry_from_value(v.kids[1], x.inner); entry_from_value(v.kids[2], x.x); }
};

}  // namespace vk
