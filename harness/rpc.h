// Shared definitions of the RPC harness (C14): connection with loop-back reply reader, handler
// log, type-erased method / interface tables filled in by the generated interface TUs.
#pragma once
#include <functional>
#include <limits>
#include <tuple>
#include "kit/gen.h"
#include "kit/io.h"
#include "kit/meta.h"
#include "kit/refcodec.h"

#include <nop/rpc/interface.h>
#include <nop/rpc/simple_method_receiver.h>
#include <nop/rpc/simple_method_sender.h>

namespace vk {

enum class RpcErr : std::int32_t { None = 0, A = 1, B = -5, C = 300 };
// A return type DERIVED from nop::Result (base/result.h enables serialization of such types).
template <typename T>
struct RpcResult : nop::Result<RpcErr, T> {
  using nop::Result<RpcErr, T>::Result;
};
template <typename T>
struct Meta<RpcResult<T>> {
  using B = nop::Result<RpcErr, T>;
  static constexpr bool kHandle = MetaOf<B>::kHandle, kTable = MetaOf<B>::kTable, kFloat = MetaOf<B>::kFloat;
  static constexpr size_t kElemMax = MetaOf<B>::kElemMax;
  static SchemaP schema() { return MetaOf<B>::schema(); }
  static Value to_value(const RpcResult<T>& x) { return MetaOf<B>::to_value(static_cast<const B&>(x)); }
  static void from_value(const Value& v, RpcResult<T>& x) { MetaOf<B>::from_value(v, static_cast<B&>(x)); }
};

template <typename T>
struct Meta<nop::Status<T>> {
  using B = nop::Result<nop::ErrorStatus, T>;
  static constexpr bool kHandle = MetaOf<B>::kHandle, kTable = MetaOf<B>::kTable, kFloat = MetaOf<B>::kFloat;
  static constexpr size_t kElemMax = MetaOf<B>::kElemMax;
  static SchemaP schema() { return MetaOf<B>::schema(); }
  static Value to_value(const nop::Status<T>& x) { return MetaOf<B>::to_value(static_cast<const B&>(x)); }
  static void from_value(const Value& v, nop::Status<T>& x) { MetaOf<B>::from_value(v, static_cast<B&>(x)); }
};

struct RpcCall { int method; Value args; };
struct RpcState {
  std::vector<RpcCall> log;
  std::map<int, Value> script;   // method index -> value the handler returns
  std::function<void()> nested;  // one-shot: run by the next handler BEFORE it looks at its arguments (re-entrant dispatch)
};
inline RpcState& rpc_state() { static RpcState s; return s; }

template <typename Ret, typename... Args>
Ret rpc_handler(int method, const Args&... args) {
  if (rpc_state().nested) { auto hook = std::move(rpc_state().nested); rpc_state().nested = nullptr; hook(); }
  RpcCall c; c.method = method;
  (c.args.kids.push_back(MetaOf<Args>::to_value(args)), ...);
  rpc_state().log.push_back(std::move(c));
  Holder<Ret> r;
  auto it = rpc_state().script.find(method);
  if (it != rpc_state().script.end()) MetaOf<Ret>::from_value(it->second, r.get());
  return r.get();
}

// A handler that returns a const reference to its J-th (by-reference) argument.
template <std::size_t J, typename... Args>
const auto& rpc_echo(int method, const Args&... args) {
  if (rpc_state().nested) { auto hook = std::move(rpc_state().nested); rpc_state().nested = nullptr; hook(); }
  RpcCall c; c.method = method;
  (c.args.kids.push_back(MetaOf<Args>::to_value(args)), ...);
  rpc_state().log.push_back(std::move(c));
  return std::get<J>(std::tie(args...));
}

struct RpcConn;
// Client-side reply reader: the first primitive call of each Invoke runs the dispatcher over the
// request bytes written so far (single-threaded request/response), then serves the reply bytes.
struct LoopReader {
  RpcConn* c = nullptr;
  LogReader inner;
  void fill();
  nop::Status<void> Ensure(std::size_t n) { fill(); return inner.Ensure(n); }
  nop::Status<void> Read(std::uint8_t* b) { fill(); return inner.Read(b); }
  template <typename T, typename Enable = nop::EnableIfArithmetic<T>>
  nop::Status<void> Read(T* b, T* e) { fill(); return inner.Read(b, e); }
  nop::Status<void> Skip(std::size_t n) { fill(); return inner.Skip(n); }
};

struct RpcConn {
  LogWriter req;            // client -> server bytes
  LogWriter rep;            // server -> client bytes
  LogReader req_reader;     // server side cursor over req.out
  LoopReader rep_reader;    // client side cursor over rep.out
  std::function<int(RpcConn&)> dispatcher;
  bool pumped = false;      // dispatcher already ran for the current Invoke
  int dispatch_status = -1;
  long dispatch_runs = 0;
  nop::Serializer<LogWriter*> req_ser{&req};
  nop::Deserializer<LoopReader*> rep_des{&rep_reader};
  nop::Serializer<LogWriter*> rep_ser{&rep};
  nop::Deserializer<LogReader*> req_des{&req_reader};
  RpcConn() { rep_reader.c = this; }
  RpcConn(const RpcConn&) = delete;
  auto sender() { return nop::MakeSimpleMethodSender(&req_ser, &rep_des); }
  auto receiver() { return nop::MakeSimpleMethodReceiver(&rep_ser, &req_des); }
  void pump() {
    pumped = true;
    req_reader.data = req.out.data(); req_reader.n = req.out.size();
    dispatch_status = dispatcher ? dispatcher(*this) : -1;
    dispatch_runs++;
    rep_reader.inner.data = rep.out.data(); rep_reader.inner.n = rep.out.size();
  }
};
inline void LoopReader::fill() { if (!c->pumped) c->pump(); inner.data = c->rep.out.data(); inner.n = c->rep.out.size(); }

struct InvokeResult { int status = 0; Value value; };
struct MethodOps {
  std::string name;
  bool bound = false, manual_selector = false;
  std::uint64_t selector = 0;
  int echo_arg = -1;                          // >= 0: the handler returns a reference to this argument (the reply must carry its value)
  int substitutions = 0;                      // arguments whose handler / call-site type differs from the protocol type
  std::vector<SchemaP> arg_donors;            // tightest fungible alternative per argument (value generation)
  std::vector<SchemaP> arg_handler;           // what the bound handler decodes
  SchemaP ret_donor, ret_proto, ret_handler;
  std::function<InvokeResult(RpcConn&, const Value& args)> invoke;
};
struct IfaceOps {
  std::string name, style;
  int selector_bits = 64;
  std::uint64_t interface_hash = 0;
  std::vector<MethodOps> methods;
  std::function<int(RpcConn&)> dispatch;      // reads one request from c.req_reader, replies into c.rep
};
std::vector<IfaceOps> all_ifaces();

}  // namespace vk
