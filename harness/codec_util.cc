// Shared plumbing of the codec-family harnesses: per-type case loops, replay, table writer variants.
#include "harness/codec.h"
#include <cstdio>

namespace vk {

static std::vector<uint64_t> aux_tape_for_variant(size_t i, const std::string& name) {
  std::vector<uint64_t> t;
  uint64_t x = hash_str(name) ^ (0x9e3779b97f4a7c15ull * (i + 1));
  for (int k = 0; k < 48; k++) { x = x * 6364136223846793005ull + 1442695040888963407ull; t.push_back(x >> 11); }
  return t;
}

static std::string run_one(Ctx& c, const Body& body, size_t ti, const Value& v, Tape& rest, const std::string& src) {
  CaseIn in; in.t = &c.types[ti]; in.type_index = ti; in.v = v; in.rest = &rest; in.src = src;
  c.rep.current_case = case_text(c, in);
  c.rep.current_detail = in.t->name + " " + to_text(*in.t->schema, v).substr(0, 300);
  c.rep.evaluations++;
  std::string m = body(c, in);
  return m;
}

static std::string key_of(const Ctx& c, const TypeOps& t, const std::string& msg) {
  // message class = text up to the first ':'
  std::string cls = msg.substr(0, msg.find(':'));
  return c.rep.property + "|" + t.name + "|" + cls;
}

void run_per_type(Ctx& c, const Body& body, bool with_variants) {
  size_t only = SIZE_MAX;
  std::string only_name = c.args.get("type");
  for (size_t ti = 0; ti < c.types.size(); ti++) {
    const TypeOps& t = c.types[ti];
    if (!only_name.empty() && t.name != only_name) continue;
    (void)only;
    bool failed = false;
    if (with_variants) {
      auto vs = variants(*t.schema);
      for (size_t i = 0; i < vs.size() && !failed; i++) {
        auto aux = aux_tape_for_variant(i, t.name);
        Tape rest(aux); rest.continue_pseudo_randomly();
        std::string src = "variant:" + std::to_string(i);
        std::string m = run_one(c, body, ti, vs[i], rest, src);
        if (!m.empty()) {
          CaseIn in; in.t = &t; in.src = src;
          c.rep.fail(m + "  [value " + to_text(*t.schema, vs[i]) + "]", case_text(c, in), key_of(c, t, m));
          failed = true;
        }
      }
    }
    if (failed) continue;
    uint64_t seed = c.args.seed * 0x100000001b3ull ^ hash_str(t.name) ^ hash_str(c.rep.property);
    TapeRun r = rc_tapes(seed, (int)c.n_random, c.max_size, c.scale, [&](const std::vector<uint64_t>& tape) {
      Tape tp(tape);
      Value v = gen_value(*t.schema, tp, c.cfg);
      tp.continue_pseudo_randomly();
      return run_one(c, body, ti, v, tp, "tape:" + tape_text(tape));
    });
    if (!r.ok) {
      if (r.message.rfind("HARNESS:", 0) == 0) { c.rep.notes["harness_error"] = r.message; c.rep.fail(r.message, "", "harness"); continue; }
      CaseIn in; in.t = &t; in.src = "tape:" + tape_text(r.tape);
      Tape tp(r.tape); Value v = gen_value(*t.schema, tp, c.cfg);
      c.rep.fail(r.message + "  [value " + to_text(*t.schema, v) + "]", case_text(c, in), key_of(c, t, r.message));
    }
  }
}

std::string replay_case(Ctx& c, const std::string& text, const Body& body) {
  auto field = [&](const std::string& k) {
    size_t p = text.find(k + "=");
    if (p == std::string::npos) return std::string();
    p += k.size() + 1;
    size_t e = (k == "src") ? text.find('\n', p) : text.find(" src=", p);
    if (k == "prop") e = text.find(' ', p);
    return text.substr(p, e == std::string::npos ? std::string::npos : e - p);
  };
  std::string tname = field("type"), src = field("src");
  while (!src.empty() && (src.back() == '\n' || src.back() == ' ')) src.pop_back();
  for (size_t ti = 0; ti < c.types.size(); ti++) {
    if (c.types[ti].name != tname) continue;
    const TypeOps& t = c.types[ti];
    if (src.rfind("variant:", 0) == 0) {
      size_t i = strtoul(src.c_str() + 8, nullptr, 10);
      auto vs = variants(*t.schema);
      if (i >= vs.size()) return "REPLAY: variant index out of range";
      auto aux = aux_tape_for_variant(i, t.name); Tape rest(aux); rest.continue_pseudo_randomly();
      return run_one(c, body, ti, vs[i], rest, src);
    }
    if (src.rfind("tape:", 0) == 0) {
      auto tape = tape_parse(src.substr(5)); Tape tp(tape);
      Value v = gen_value(*t.schema, tp, c.cfg);
      tp.continue_pseudo_randomly();
      return run_one(c, body, ti, v, tp, src);
    }
    if (src.rfind("sweep:", 0) == 0) {
      size_t vi = 0, fi = 0; int b = 0;
      if (sscanf(src.c_str(), "sweep:%zu:%zu:%d", &vi, &fi, &b) != 3) return "REPLAY: bad sweep case";
      bool in = false;
      return sweep_one(c, t, vi, fi, b, &in);
    }
    if (src.rfind("int:", 0) == 0) return int_sweep_one(c, t, strtoull(src.c_str() + 4, nullptr, 10));
    if (src.rfind("fuzz:", 0) == 0) {
      Bytes b = unhex(src.substr(5));
      bool acc = false, nc = false;
      c.rep.current_case = "prop=" + c.rep.property + " type=" + t.name + " src=" + src;
      return fuzz_one(c, t, c.rep.property == "C02", b.data(), b.size(), &acc, &nc);
    }
    return "REPLAY: bad src";
  }
  return "REPLAY: type not in this shard: " + tname;
}

// ---- writer-side table variants ---------------------------------------------------------------
SchemaP writer_variant(const Schema& s, Tape& t, bool* changed) {
  Schema o = s;
  for (auto& k : o.kids) k = writer_variant(*k, t, changed);
  if (s.k == K::Tab) {
    for (auto& e : o.entries) { e.type = writer_variant(*e.type, t, changed); if (!e.active) { e.active = true; *changed = true; } }
    // unknown entry with an id not used by the reader
    uint64_t id = 9000 + t.below(3);
    for (;;) { bool used = false; for (auto& e : o.entries) if (e.id == id) used = true; if (!used) break; id++; }
    TabEntry u; u.id = id; u.active = true;
    // (a fixed 200-element BIN makes the skipped region longer than any small internal chunk size)
    switch (t.below(4)) { case 0: u.type = s_int(32, false); break; case 1: u.type = s_str(1); break; case 2: u.type = s_bin(1, false, 200); break; default: u.type = s_seq(s_tup({s_int(16, true), s_str(1)})); }
    size_t at = (size_t)t.below(o.entries.size() + 1);
    o.entries.insert(o.entries.begin() + at, u);
    *changed = true;
  }
  return mk(o);
}

Value reader_view(const Schema& reader, const Schema& writer, const Value& v) {
  Value o = v;
  if (reader.k != writer.k) return o;   // fungible alternatives of different constructors share the value tree
  switch (reader.k) {
    case K::Seq: for (size_t i = 0; i < v.kids.size(); i++) o.kids[i] = reader_view(*reader.kids[0], *writer.kids[0], v.kids[i]); break;
    case K::Tup: case K::Stu: for (size_t i = 0; i < reader.kids.size(); i++) o.kids[i] = reader_view(*reader.kids[i], *writer.kids[i], v.kids[i]); break;
    case K::Map: for (size_t i = 0; i + 1 < v.kids.size(); i += 2) { o.kids[i] = reader_view(*reader.kids[0], *writer.kids[0], v.kids[i]); o.kids[i + 1] = reader_view(*reader.kids[1], *writer.kids[1], v.kids[i + 1]); } break;
    case K::Opt: if (v.tag) o.kids[0] = reader_view(*reader.kids[0], *writer.kids[0], v.kids[0]); break;
    case K::Res: if (v.tag == 2) o.kids[0] = reader_view(*reader.kids[0], *writer.kids[0], v.kids[0]); break;
    case K::Var: if (v.tag >= 0) o.kids[0] = reader_view(*reader.kids[v.tag], *writer.kids[v.tag], v.kids[0]); break;
    case K::Tab: {
      o.kids.assign(reader.entries.size(), Value());
      for (size_t i = 0; i < reader.entries.size(); i++) {
        if (!reader.entries[i].active) continue;
        for (size_t j = 0; j < writer.entries.size(); j++)
          if (writer.entries[j].id == reader.entries[i].id && v.kids[j].tag) {
            o.kids[i].tag = 1;
            o.kids[i].kids.push_back(reader_view(*reader.entries[i].type, *writer.entries[j].type, v.kids[j].kids[0]));
          }
      }
      break; }
    default: break;
  }
  return o;
}

}  // namespace vk

