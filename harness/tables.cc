// C07 (tables stay readable across definition versions in both directions) and C08 (table framing
// is validated) over a generated pool of table versions (verif/gen_tables.py).
#include "harness/codec.h"
#include <cstdarg>
#include <cstdio>

namespace vk {
SchemaP table_donor(int family, std::uint64_t id);
int table_families();
}

using namespace vk;

static std::string fmt(const char* f, ...) __attribute__((format(printf, 1, 2)));
static std::string fmt(const char* f, ...) { char b[2048]; va_list ap; va_start(ap, f); vsnprintf(b, sizeof b, f, ap); va_end(ap); return b; }

struct VInfo { size_t index; int family; int version; std::string wrap; };   // wrap: "", "WStruct", "vector", "WOuter"
static bool parse_name(const std::string& n, VInfo* v) {
  size_t p = n.find('F');
  std::string core = n; v->wrap = "";
  size_t lt = n.find('<');
  if (lt != std::string::npos) { v->wrap = n.substr(0, lt); core = n.substr(lt + 1, n.size() - lt - 2); }
  (void)p;
  return sscanf(core.c_str(), "F%dV%d", &v->family, &v->version) == 2;
}

// The family table node(s) inside a (possibly wrapped) schema are those whose entry ids have donors.
static bool is_family_table(const Schema& s, int fam) {
  if (s.k != K::Tab || s.entries.empty()) return false;
  for (auto& e : s.entries) if (!table_donor(fam, e.id)) return false;
  return true;
}

// Regenerates the entries of family table nodes from the donor schemas (values every fungible
// alternative of the id can hold).
static void fit_family(const Schema& s, Value& v, int fam, Tape& tp, const GenCfg& cfg, int* nonempty) {
  switch (s.k) {
    case K::Seq: for (auto& e : v.kids) fit_family(*s.kids[0], e, fam, tp, cfg, nonempty); break;
    case K::Tup: case K::Stu: for (size_t i = 0; i < s.kids.size(); i++) fit_family(*s.kids[i], v.kids[i], fam, tp, cfg, nonempty); break;
    case K::Opt: if (v.tag) fit_family(*s.kids[0], v.kids[0], fam, tp, cfg, nonempty); break;
    case K::Tab:
      if (is_family_table(s, fam)) {
        for (size_t i = 0; i < s.entries.size(); i++) {
          v.kids[i] = Value();
          if (!s.entries[i].active) continue;
          if (tp.below(4) == 0) continue;   // left empty
          v.kids[i].tag = 1; v.kids[i].kids.push_back(gen_value(*table_donor(fam, s.entries[i].id), tp, cfg));
          (*nonempty)++;
        }
      } else {
        for (size_t i = 0; i < s.entries.size(); i++) if (v.kids[i].tag) fit_family(*s.entries[i].type, v.kids[i].kids[0], fam, tp, cfg, nonempty);
      }
      break;
    default: break;
  }
}

static const Schema* find_family_table(const Schema& s, int fam) {
  if (is_family_table(s, fam)) return &s;
  for (auto& k : s.kids) if (auto* r = find_family_table(*k, fam)) return r;
  for (auto& e : s.entries) if (auto* r = find_family_table(*e.type, fam)) return r;
  return nullptr;
}

struct TCtx {
  Ctx c;
  std::vector<VInfo> info;
};

// ---- C07 ---------------------------------------------------------------------------------------
static std::string c07_pair(TCtx& tc, size_t wi, size_t ri, Tape& tp) {
  Ctx& c = tc.c;
  const TypeOps& W = c.types[wi]; const TypeOps& R = c.types[ri];
  const int fam = tc.info[wi].family;
  GenCfg cfg = c.cfg; cfg.budget = 120;
  Value wv = gen_value(*W.schema, tp, cfg);
  int nonempty = 0;
  fit_family(*W.schema, wv, fam, tp, cfg, &nonempty);
  tp.continue_pseudo_randomly();
  auto ow = W.make(); ow->assign(wv);
  Value written = ow->get();
  Written enc = lib_encode(W, *ow);
  if (enc.status != 0) return fmt("write-failed: %s: %s", W.name.c_str(), err_name(enc.status));
  Bytes stream = enc.bytes;
  static const uint8_t sentinel[] = {0x82, 0xef, 0xbe, 0xad, 0xde, 0xbd, 0x03, 'e', 'n', 'd'};
  stream.insert(stream.end(), sentinel, sentinel + sizeof sentinel);
  Value want = reader_view(*R.schema, *W.schema, written);
  for (int rk : {R_Ped, R_Buf, R_Str, R_BPed, R_BStr}) {
    ReaderBox r; r.open(rk, stream, stream.size());
    auto orr = R.make();
    // the destination starts with unrelated content: stale entries must not survive
    if (tp.below(2)) { Value junk = gen_value(*R.schema, tp, cfg); int ne = 0; fit_family(*R.schema, junk, fam, tp, cfg, &ne); orr->assign(junk); }
    int s = orr->read(r);
    c.rep.evaluations++;
    if (s != 0) return fmt("cross-read-failed: written as %s, read as %s via %s: %s; bytes %s", W.name.c_str(), R.name.c_str(), rk_name(rk), err_name(s), hex(enc.bytes).substr(0, 200).c_str());
    Value got = orr->get();
    if (!value_equal(*R.schema, got, want)) return fmt("cross-read-value: written as %s %s, read as %s via %s: got %s want %s", W.name.c_str(), to_text(*W.schema, written).c_str(), R.name.c_str(), rk_name(rk), to_text(*R.schema, got).c_str(), to_text(*R.schema, want).c_str());
    if (r.position() != enc.bytes.size()) return fmt("cross-read-position: written as %s, read as %s via %s: reader at %zu, table ends at %zu", W.name.c_str(), R.name.c_str(), rk_name(rk), r.position(), enc.bytes.size());
  }
  // non-trivial: reader lacks/has deleted an id the writer wrote AND knows an id the writer lacks; or order differs
  const Schema* ws = find_family_table(*W.schema, fam); const Schema* rs = find_family_table(*R.schema, fam);
  bool r_lacks = false, r_extra = false, order = false;
  if (ws && rs) {
    std::vector<uint64_t> wa, ra;
    for (auto& e : ws->entries) if (e.active) wa.push_back(e.id);
    for (auto& e : rs->entries) if (e.active) ra.push_back(e.id);
    for (auto id : wa) if (std::find(ra.begin(), ra.end(), id) == ra.end()) r_lacks = true;
    for (auto id : ra) if (std::find(wa.begin(), wa.end(), id) == wa.end()) r_extra = true;
    std::vector<uint64_t> cw, cr;
    for (auto id : wa) if (std::find(ra.begin(), ra.end(), id) != ra.end()) cw.push_back(id);
    for (auto id : ra) if (std::find(wa.begin(), wa.end(), id) != wa.end()) cr.push_back(id);
    order = cw != cr;
  }
  if (((r_lacks && r_extra) || order) && nonempty > 0) c.rep.nontriv(hash_str(W.name + ">" + R.name + to_text(*W.schema, written)));
  if (r_lacks) c.rep.label("reader-skips-entry");
  if (r_extra) c.rep.label("reader-has-extra-entry");
  if (order) c.rep.label("order-differs");
  if (!tc.info[wi].wrap.empty()) c.rep.label("nested:" + tc.info[wi].wrap);
  if (wi != ri) c.rep.label("cross-version"); else c.rep.label("same-version");
  if (c.rep.samples.size() < c.rep.max_samples && wi != ri && nonempty) c.rep.sample(W.name + " " + to_text(*W.schema, written).substr(0, 160) + " => " + R.name + " " + to_text(*R.schema, want).substr(0, 160));
  return "";
}

// ---- C08 ---------------------------------------------------------------------------------------
struct TabMut { Bytes bytes; std::string how; int expect = -1; /* -1: differential only; -2: must be rejected (any error); 0: must be accepted */ bool not_last = false; bool excluded = false; };

static TabMut c08_mutation(const TypeOps& t, const Schema& fam_tab, const Value& v, Tape& tp) {
  TabMut m;
  Encoded base = ref_encode(*t.schema, v);
  // fields of the (first) family table in the encoding
  std::vector<size_t> hashf, sizef, idf, cntf;
  for (size_t i = 0; i < base.fields.size(); i++) {
    const Field& f = base.fields[i];
    if (f.kind == F::Hash && f.value == fam_tab.hash) hashf.push_back(i);
    if (f.kind == F::EntrySize) sizef.push_back(i);
    if (f.kind == F::EntryId) idf.push_back(i);
    if (f.kind == F::EntryCount) cntf.push_back(i);
  }
  EncodeOpts eo;
  uint64_t kind = tp.below(9);
  auto pick = [&](std::vector<size_t>& v2) { size_t k = (size_t)tp.below(v2.size()); m.not_last = k + 1 < v2.size(); return v2[k]; };
  if (kind == 0 && !hashf.empty()) {
    Override ov; ov.what = Override::SetValue; uint64_t h = base.fields[hashf[0]].value;
    static const uint64_t alts[] = {0, 1, 127, 128, 255, 256, ~0ull, 1ull << 63};
    ov.value = tp.below(3) ? h + 1 + tp.below(5) : alts[tp.below(8)]; if (ov.value == h) ov.value = h ^ 0x100;
    eo.overrides[hashf[tp.below(hashf.size())]] = ov; m.how = fmt("hash %llx -> %llx", (unsigned long long)h, (unsigned long long)ov.value); m.expect = E_InvalidTableHash;
    m.bytes = ref_encode(*t.schema, v, eo).bytes; return m;
  }
  if ((kind == 1 || kind == 2) && !sizef.empty()) {
    size_t fi = pick(sizef); const Field& f = base.fields[fi];
    Override ov; ov.what = Override::EntrySizeDelta;
    if (kind == 1) { if (f.value == 0) { kind = 3; } else { ov.delta = -(long)(1 + tp.below(f.value)); m.expect = -2; m.how = fmt("entry size %llu shrunk by %ld", (unsigned long long)f.value, -ov.delta); } }
    if (kind == 2) { ov.delta = tp.below(4) == 0 ? 60 + (long)tp.below(300) : 1 + (long)tp.below(6);   // SIZE may exceed the value by any amount
      ov.pad = tp.below(3) != 0;
      if (tp.below(8) == 0) { ov.delta = -(long)f.value - (long)(1 + tp.below(14)); ov.pad = false; }   // declared size 2^64-k: index + size wraps around
      m.expect = ov.pad ? 0 : -1; m.how = fmt("entry size %llu grown by %ld %s padding", (unsigned long long)f.value, ov.delta, ov.pad ? "with" : "without"); }
    if (kind != 3) { eo.overrides[fi] = ov; m.bytes = ref_encode(*t.schema, v, eo).bytes; return m; }
  }
  if (kind == 3 || kind == 4 || kind == 5) {
    // schema-level: permute / duplicate (active, deleted, unknown) on the writer side
    std::function<bool(const Schema&, const Value&, Schema&, Value&)> rec = [&](const Schema& s, const Value& x, Schema& os, Value& ox) -> bool {
      os = s; ox = x;
      if (&s == &fam_tab || (s.k == K::Tab && s.hash == fam_tab.hash && s.entries.size() == fam_tab.entries.size())) {
        std::vector<size_t> present;
        for (size_t i = 0; i < s.entries.size(); i++) if (s.entries[i].active && x.kids[i].tag) present.push_back(i);
        if (kind == 3) {
          if (present.size() < 2) return false;
          size_t a = present[tp.below(present.size())], b = present[tp.below(present.size())];
          if (a == b) b = present[(std::find(present.begin(), present.end(), a) - present.begin() + 1) % present.size()];
          std::swap(os.entries[a], os.entries[b]); std::swap(ox.kids[a], ox.kids[b]);
          m.how = "entries permuted"; m.expect = 0; m.not_last = true; return true;
        }
        if (kind == 4) {
          if (present.empty()) return false;
          size_t a = present[tp.below(present.size())];
          size_t at = (size_t)tp.below(os.entries.size() + 1);
          os.entries.insert(os.entries.begin() + at, s.entries[a]); ox.kids.insert(ox.kids.begin() + at, x.kids[a]);
          m.how = fmt("recognised active entry id %llu duplicated", (unsigned long long)s.entries[a].id); m.expect = E_DuplicateTableEntry; m.not_last = at + 1 < os.entries.size(); return true;
        }
        // kind 5: duplicate a deleted or unknown id (no expectation stated by the property)
        TabEntry u; u.active = true; u.type = s_str(1); u.id = 424242;
        for (auto& e : s.entries) if (!e.active && tp.below(2)) u.id = e.id;
        Value uv; uv.tag = 1; Value sv; sv.bytes = "zz"; uv.kids.push_back(sv);
        for (int k = 0; k < 2; k++) { size_t at = (size_t)tp.below(os.entries.size() + 1); os.entries.insert(os.entries.begin() + at, u); ox.kids.insert(ox.kids.begin() + at, uv); }
        m.how = fmt("skipped id %llu present twice", (unsigned long long)u.id); m.expect = -1; m.excluded = true; return true;
      }
      switch (s.k) {
        case K::Tup: case K::Stu: for (size_t i = 0; i < s.kids.size(); i++) { Schema cs; Value cv; if (rec(*s.kids[i], x.kids[i], cs, cv)) { os.kids[i] = mk(cs); ox.kids[i] = cv; return true; } } return false;
        case K::Tab: for (size_t i = 0; i < s.entries.size(); i++) if (s.entries[i].active && x.kids[i].tag) { Schema cs; Value cv; if (rec(*s.entries[i].type, x.kids[i].kids[0], cs, cv)) { os.entries[i].type = mk(cs); ox.kids[i].kids[0] = cv; return true; } } return false;
        default: return false;
      }
    };
    Schema os; Value ox;
    if (rec(*t.schema, v, os, ox)) { m.bytes = ref_encode(os, ox).bytes; return m; }
    kind = 6;
  }
  if (kind == 6 && !base.bytes.empty()) {
    // corrupt one byte inside an entry's value
    std::vector<std::pair<size_t, size_t>> ranges;   // value byte ranges following each size field
    for (size_t i = 0; i < sizef.size(); i++) { const Field& f = base.fields[sizef[i]]; if (f.value) ranges.push_back({f.off + f.len, (size_t)f.value}); }
    if (!ranges.empty()) {
      size_t k = (size_t)tp.below(ranges.size()); m.not_last = k + 1 < ranges.size();
      size_t off = ranges[k].first + (size_t)tp.below(ranges[k].second);
      m.bytes = base.bytes; uint8_t x = (uint8_t)tp.next(); if (!x) x = 0x40; if (off < m.bytes.size()) m.bytes[off] ^= x;
      m.how = fmt("byte %zu inside entry value xor %02x", off, x); m.expect = -1; return m;
    }
  }
  if (!cntf.empty()) {
    Override ov; ov.what = Override::SetValue; const Field& f = base.fields[cntf[0]];
    ov.value = tp.below(2) ? f.value + 1 + tp.below(3) : (f.value ? f.value - 1 : 5);
    eo.overrides[cntf[0]] = ov; m.how = fmt("entry count %llu -> %llu", (unsigned long long)f.value, (unsigned long long)ov.value); m.expect = -1;
    m.bytes = ref_encode(*t.schema, v, eo).bytes; return m;
  }
  m.bytes = base.bytes; m.how = "unchanged"; m.expect = 0;
  return m;
}

static std::string c08_case(TCtx& tc, size_t ti, Tape& tp) {
  Ctx& c = tc.c;
  const TypeOps& t = c.types[ti];
  const int fam = tc.info[ti].family;
  const Schema* ft = find_family_table(*t.schema, fam);
  if (!ft) return "";
  GenCfg cfg = c.cfg; cfg.budget = 120;
  Value v = gen_value(*t.schema, tp, cfg);
  int nonempty = 0; fit_family(*t.schema, v, fam, tp, cfg, &nonempty);
  if (t.schema->k == K::Seq && v.kids.empty()) { v.kids.push_back(gen_value(*t.schema->kids[0], tp, cfg)); fit_family(*t.schema, v, fam, tp, cfg, &nonempty); }
  auto o = t.make(); o->assign(v); Value actual = o->get();
  tp.continue_pseudo_randomly();
  TabMut m = c08_mutation(t, *ft, actual, tp);
  std::map<int64_t, int64_t> nohandles;
  bool nc = false, rj = false;
  if (m.excluded) c.rep.exclude("duplicate of a deleted/unknown id: no accept/reject expectation");
  std::string d = compare_with_reference(c, t, m.bytes, nohandles, true, m.how, &nc, &rj);
  if (!d.empty()) return d;
  LibRead lr = lib_read(t, m.bytes, nohandles);
  if (m.expect > 0 && lr.status != m.expect) return fmt("framing-category: [%s] expected %s, library returned %s; input %s", m.how.c_str(), err_name(m.expect), err_name(lr.status), hex(m.bytes).substr(0, 200).c_str());
  if (m.expect == -2 && lr.status == 0) return fmt("undersized-entry-accepted: [%s] input %s", m.how.c_str(), hex(m.bytes).substr(0, 200).c_str());
  if (m.expect == 0) {
    if (lr.status != 0) return fmt("valid-framing-rejected: [%s] library returned %s; input %s", m.how.c_str(), err_name(lr.status), hex(m.bytes).substr(0, 200).c_str());
    if (lr.pos != m.bytes.size()) return fmt("padding-not-consumed: [%s] reader at %zu of %zu", m.how.c_str(), lr.pos, m.bytes.size());
    if (!value_equal(*t.schema, lr.value, actual)) return fmt("framing-changed-value: [%s] got %s want %s", m.how.c_str(), to_text(*t.schema, lr.value).c_str(), to_text(*t.schema, actual).c_str());
  }
  // the same input through the other readers must agree on accept/reject
  for (int rk : {R_Buf, R_Str, R_BPed}) {
    ReaderBox r; r.open(rk, m.bytes, m.bytes.size()); auto o2 = t.make(); int s = o2->read(r);
    c.rep.evaluations++;
    if ((s == 0) != (lr.status == 0)) return fmt("readers-disagree: [%s] %s %s but PedanticBufferReader %s; input %s", m.how.c_str(), rk_name(rk), s == 0 ? "accepts" : "rejects", lr.status == 0 ? "accepts" : "rejects", hex(m.bytes).substr(0, 200).c_str());
  }
  c.rep.label("mutation:" + m.how.substr(0, m.how.find_first_of(" 0123456789")));
  if (m.not_last) c.rep.nontriv(fnv1a(m.bytes.data(), m.bytes.size(), hash_str(t.name)));
  if (c.rep.samples.size() < c.rep.max_samples) c.rep.sample(t.name + " [" + m.how + "] " + hex(m.bytes).substr(0, 100));
  return "";
}

// ---- driver ------------------------------------------------------------------------------------
int main(int argc, char** argv) {
  TCtx tc; Ctx& c = tc.c;
  c.args = Args::parse(argc, argv);
  c.types = shard_types();
  c.rep.property = c.args.prop; c.rep.tier = c.args.tier; c.rep.seed = c.args.seed; c.rep.out_path = c.args.out;
  c.rep.unit = c.args.unit.empty() ? "tables" : c.args.unit;
  c.thorough = c.args.tier == "thorough";
  install_report(&c.rep);
  for (size_t i = 0; i < c.types.size(); i++) { VInfo v; v.index = i; if (!parse_name(c.types[i].name, &v)) { fprintf(stderr, "bad type name %s\n", c.types[i].name.c_str()); return 2; } tc.info.push_back(v); }
  if (c.args.get("list") == "1") { for (auto& t : c.types) printf("%s\t%s\n", t.name.c_str(), schema_text(*t.schema).c_str()); return 0; }
  const bool is07 = c.args.prop == "C07";
  if (!is07 && c.args.prop != "C08") { fprintf(stderr, "unknown --prop\n"); return 2; }

  auto run_case = [&](const std::string& unit, const std::vector<uint64_t>& tape) -> std::string {
    Tape tp(tape);
    c.rep.current_case = "prop=" + c.args.prop + " " + unit + " tape=" + tape_text(tape);
    if (is07) { size_t wi, ri; sscanf(unit.c_str(), "pair=%zu,%zu", &wi, &ri); if (wi >= c.types.size() || ri >= c.types.size()) return "REPLAY: bad pair"; c.rep.current_detail = c.types[wi].name + " -> " + c.types[ri].name; return c07_pair(tc, wi, ri, tp); }
    size_t ti; sscanf(unit.c_str(), "type=%zu", &ti); if (ti >= c.types.size()) return "REPLAY: bad type"; c.rep.current_detail = c.types[ti].name; return c08_case(tc, ti, tp);
  };

  if (!c.args.replay.empty()) {
    FILE* f = fopen(c.args.replay.c_str(), "r"); if (!f) return 2;
    std::string text; char buf[4096]; size_t n; while ((n = fread(buf, 1, sizeof buf, f)) > 0) text.append(buf, n); fclose(f);
    size_t p = text.find("prop="); if (p == std::string::npos) return 2;
    std::string line = text.substr(p, text.find('\n', p) - p);
    size_t u = line.find(' ') + 1, tpos = line.find(" tape=");
    std::string unit = line.substr(u, tpos - u);
    std::string m = run_case(unit, tape_parse(line.substr(tpos + 6)));
    if (m.rfind("REPLAY:", 0) == 0) { fprintf(stderr, "%s\n", m.c_str()); return 2; }
    if (!m.empty()) { printf("REPLAY-FAIL %s\n", m.c_str()); return 1; }
    printf("REPLAY-PASS\n"); return 0;
  }

  std::vector<std::string> units;
  if (is07) {
    for (size_t wi = 0; wi < c.types.size(); wi++) for (size_t ri = 0; ri < c.types.size(); ri++)
      if (tc.info[wi].family == tc.info[ri].family && tc.info[wi].wrap == tc.info[ri].wrap) units.push_back(fmt("pair=%zu,%zu", wi, ri));
  } else {
    for (size_t ti = 0; ti < c.types.size(); ti++) units.push_back(fmt("type=%zu", ti));
  }
  long per_unit = c.args.geti("n", is07 ? (c.thorough ? 600 : 400) : (c.thorough ? 20000 : 8000));
  size_t ui = 0;
  for (auto& unit : units) {
    if ((int)(ui++ % (size_t)c.args.nshards) != c.args.shard) continue;
    TapeRun r = rc_tapes(c.args.seed * 1000003ull ^ hash_str(unit), (int)per_unit, 100, 2.0, [&](const std::vector<uint64_t>& tape) { return run_case(unit, tape); });
    if (!r.ok) {
      if (r.message.rfind("HARNESS:", 0) == 0) { c.rep.fail(r.message, "", "harness"); continue; }
      std::string cls = r.message.substr(0, r.message.find(':'));
      c.rep.fail(r.message, "prop=" + c.args.prop + " " + unit + " tape=" + tape_text(r.tape), c.args.prop + "|" + unit + "|" + cls);
    }
  }
  c.rep.label("units", (long)units.size());
  c.rep.write("done");
  for (auto& f : c.rep.failures) fprintf(stderr, "FAIL %s\n  case: %s\n", f.message.c_str(), f.case_text.c_str());
  return c.rep.ok() ? 0 : 1;
}
