// C20: HostEndian<T> conversions are correct byte-order maps for integers and floats.
//
// Oracle (independent of the library): object bytes via memcpy. On a little-endian host
// FromLittle == ToLittle == identity and FromBig == ToBig == byte reversal; To(From(x)) ==
// From(To(x)) == x. All comparisons are on bit patterns (NaN payloads included).
//
// Domain: exhaustive for 8/16-bit types; 32-bit types (incl. float): strided sweep + boundaries in
// quick, exhaustive 2^32 in thorough (sharded); 64-bit types (incl. double): byte-lane patterns,
// class boundaries, NaN payloads and rapidcheck-generated words.
// Built without sanitizers (-O2): the sweeps are pure arithmetic.
// The library header comes FIRST, before any standard header: a header that relies on macros some other
// header happens to define (e.g. glibc's __BYTE_ORDER) must not change meaning with the include order.
#include <nop/utility/endian.h>

#include <cinttypes>
#include <cstdio>
#include <cstring>
#include <functional>


#include "kit/core.h"
#include "kit/rcdrv.h"
#include "kit/report.h"

using namespace vk;

#if __BYTE_ORDER__ == __ORDER_LITTLE_ENDIAN__
static constexpr bool kLittle = true;
#else
static constexpr bool kLittle = false;
#endif

template <typename T>
static uint64_t bits_of(T v) { uint64_t u = 0; std::memcpy(&u, &v, sizeof(T)); return u; }
template <typename T>
static T from_bits(uint64_t u) { T v; std::memcpy(&v, &u, sizeof(T)); return v; }
static uint64_t reverse_bytes(uint64_t u, size_t n) {
  uint64_t r = 0;
  for (size_t i = 0; i < n; i++) r |= ((u >> (8 * i)) & 0xff) << (8 * (n - 1 - i));
  return r;
}
static bool palindrome(uint64_t u, size_t n) { return reverse_bytes(u, n) == (u & mask_bits((int)n * 8)); }

// Returns "" or a failure description for the bit pattern u of type T.
template <typename T>
static std::string check_one(uint64_t u) {
  const size_t n = sizeof(T);
  u &= mask_bits((int)n * 8);
  const T x = from_bits<T>(u);
  const uint64_t ident = u, rev = reverse_bytes(u, n);
  const uint64_t want_little = kLittle ? ident : rev, want_big = kLittle ? rev : ident;
  struct { const char* name; uint64_t got, want; } r[] = {
      {"FromLittle", bits_of<T>(nop::HostEndian<T>::FromLittle(x)), want_little},
      {"ToLittle", bits_of<T>(nop::HostEndian<T>::ToLittle(x)), want_little},
      {"FromBig", bits_of<T>(nop::HostEndian<T>::FromBig(x)), want_big},
      {"ToBig", bits_of<T>(nop::HostEndian<T>::ToBig(x)), want_big},
      {"ToLittle(FromLittle)", bits_of<T>(nop::HostEndian<T>::ToLittle(nop::HostEndian<T>::FromLittle(x))), ident},
      {"FromLittle(ToLittle)", bits_of<T>(nop::HostEndian<T>::FromLittle(nop::HostEndian<T>::ToLittle(x))), ident},
      {"ToBig(FromBig)", bits_of<T>(nop::HostEndian<T>::ToBig(nop::HostEndian<T>::FromBig(x))), ident},
      {"FromBig(ToBig)", bits_of<T>(nop::HostEndian<T>::FromBig(nop::HostEndian<T>::ToBig(x))), ident},
  };
  for (auto& c : r)
    if (c.got != c.want) {
      char b[256];
      snprintf(b, sizeof b, "wrong-conversion: %s(0x%0*" PRIx64 ") = 0x%0*" PRIx64 ", expected 0x%0*" PRIx64, c.name, (int)n * 2, u, (int)n * 2, c.got, (int)n * 2, c.want);
      return b;
    }
  return "";
}

struct TypeRow { const char* name; size_t size; bool flt; std::function<std::string(uint64_t)> check; };
static std::vector<TypeRow> rows() {
  return {
      {"uint8_t", 1, false, check_one<std::uint8_t>},   {"int8_t", 1, false, check_one<std::int8_t>},
      {"uint16_t", 2, false, check_one<std::uint16_t>}, {"int16_t", 2, false, check_one<std::int16_t>},
      {"uint32_t", 4, false, check_one<std::uint32_t>}, {"int32_t", 4, false, check_one<std::int32_t>},
      {"uint64_t", 8, false, check_one<std::uint64_t>}, {"int64_t", 8, false, check_one<std::int64_t>},
      {"float", 4, true, check_one<float>},             {"double", 8, true, check_one<double>},
      {"char", 1, false, check_one<char>},              {"size_t", 8, false, check_one<std::size_t>},
  };
}

static std::string case_text(const TypeRow& t, uint64_t u) {
  char b[128]; snprintf(b, sizeof b, "prop=C20 type=%s bits=0x%" PRIx64, t.name, u); return b;
}

// Conversions used as initialisers of namespace-scope constants (network-byte-order constants): an implementation
// with a separate constant-evaluation path must give the same result there. X(type, function, value)
#define C20_CONSTANTS(X) \
  X(std::uint16_t, ToBig, 80) X(std::uint16_t, FromBig, 0x0050) X(std::uint16_t, ToLittle, 80) X(std::int16_t, ToBig, 0x0012) X(std::int16_t, FromBig, -2) \
  X(std::uint32_t, ToBig, 1) X(std::uint32_t, FromBig, 0x00abcdef) X(std::uint32_t, ToBig, 0x80000001u) X(std::int32_t, ToBig, 0x00001234) X(std::int32_t, FromLittle, 0x00001234) \
  X(std::uint64_t, ToBig, 0x0000000000abcdefull) X(std::uint64_t, FromBig, 0x00ff000000000001ull) X(std::int64_t, ToBig, 7) X(std::int64_t, ToBig, -7) \
  X(std::uint8_t, ToBig, 0x7f) X(std::int8_t, FromBig, -128)
namespace c20const {
struct Row { const char* type; const char* fn; std::uint64_t input_bits, got_bits; std::size_t size; bool big; };
template <typename T> static std::uint64_t bits_of(T v) { std::uint64_t u = 0; std::memcpy(&u, &v, sizeof v); return u; }
static std::vector<Row> rows() {
  std::vector<Row> r;
  // each entry: a function-local `static const` is initialised in a manifestly constant-evaluated context when the
  // initialiser is a constant expression, dynamically otherwise
#define X(T, F, V) { static const T k = nop::HostEndian<T>::F(static_cast<T>(V)); r.push_back({#T, #F, bits_of<T>(static_cast<T>(V)), bits_of<T>(k), sizeof(T), std::string(#F).find("Big") != std::string::npos}); }
  C20_CONSTANTS(X)
#undef X
  return r;
}
static std::string check_row(const Row& c) {
  const uint64_t want = c.big ? reverse_bytes(c.input_bits, c.size) : c.input_bits;   // little-endian host (the sweeps verify that assumption)
  if (c.got_bits == want) return "";
  char b[256]; snprintf(b, sizeof b, "wrong-conversion: constant initialised with HostEndian<%s>::%s(0x%" PRIx64 ") is 0x%" PRIx64 ", expected 0x%" PRIx64, c.type, c.fn, c.input_bits, c.got_bits, want);
  return b;
}
}  // namespace c20const

int main(int argc, char** argv) {
  Args a = Args::parse(argc, argv);
  Report rep; rep.property = "C20"; rep.tier = a.tier; rep.seed = a.seed; rep.out_path = a.out; rep.unit = a.unit.empty() ? "endian" : a.unit;
  install_report(&rep);
  const bool thorough = a.tier == "thorough";
  auto ts = rows();

  if (!a.replay.empty()) {
    FILE* f = fopen(a.replay.c_str(), "r"); if (!f) return 2;
    char line[512]; std::string text; while (fgets(line, sizeof line, f)) if (line[0] != '#') text += line; fclose(f);
    char tn[64]; uint64_t u = 0; unsigned ci = 0;
    if (sscanf(text.c_str(), "prop=C20 const=%u", &ci) == 1) {
      auto cr = c20const::rows(); if (ci >= cr.size()) return 2;
      std::string m = c20const::check_row(cr[ci]);
      if (!m.empty()) { printf("REPLAY-FAIL %s\n", m.c_str()); return 1; }
      printf("REPLAY-PASS\n"); return 0;
    }
    if (sscanf(text.c_str(), "prop=C20 type=%63s bits=0x%" SCNx64, tn, &u) != 2) { fprintf(stderr, "bad replay file\n"); return 2; }
    for (auto& t : ts) if (t.name == std::string(tn)) { std::string m = t.check(u); if (!m.empty()) { printf("REPLAY-FAIL %s\n", m.c_str()); return 1; } printf("REPLAY-PASS\n"); return 0; }
    return 2;
  }

  auto run = [&](const TypeRow& t, uint64_t u) -> bool {
    rep.evaluations++;
    std::string m = t.check(u);
    if (!m.empty()) { rep.fail(m, case_text(t, u), std::string("C20|") + t.name + "|wrong-conversion"); return false; }
    if (!palindrome(u, t.size)) rep.nontriv(hash_str(t.name) ^ (u * 0x9e3779b97f4a7c15ull));
    return true;
  };

  if (a.shard == 0) {
    auto cr = c20const::rows();
    for (size_t i = 0; i < cr.size(); i++) {
      rep.evaluations++;
      std::string m = c20const::check_row(cr[i]);
      if (!m.empty()) rep.fail(m, "prop=C20 const=" + std::to_string(i), std::string("C20|constant|") + cr[i].type + "|" + cr[i].fn);
      rep.label("constant-initialisers");
    }
  }
  for (size_t ti = 0; ti < ts.size(); ti++) {
    const TypeRow& t = ts[ti];
    if ((int)(ti % (size_t)a.nshards) != a.shard && t.size != 4) continue;   // 32-bit sweeps are split inside
    bool ok = true;
    // boundaries and lane patterns for every width
    static const uint64_t lanes[] = {0x00, 0x01, 0x7f, 0x80, 0xfe, 0xff, 0x12, 0xa5};
    std::vector<uint64_t> special = {0, 1, 0x7f, 0x80, 0xff, 0x100, 0x7fff, 0x8000, 0xffff, 0x10000, 0x7fffffffull, 0x80000000ull, 0xffffffffull,
                                     0x100000000ull, 0x7fffffffffffffffull, 0x8000000000000000ull, ~0ull, 0x0102030405060708ull, 0x3fc00000ull, 0x7fc12345ull,
                                     0xffc00001ull, 0x7f800001ull, 0x3ff8000000000000ull, 0x7ff8000000012345ull, 0xfff0000000000001ull, 0x7ff0000000000001ull};
    for (uint64_t s : special) if (ok) ok = run(t, s);
    for (size_t lane = 0; lane < t.size && ok; lane++)
      for (uint64_t b : lanes) { uint64_t u = b << (8 * lane); if (ok) ok = run(t, u); if (ok) ok = run(t, ~u); }
    // distinct byte per lane, every rotation
    for (size_t rot = 0; rot < t.size && ok; rot++) { uint64_t u = 0; for (size_t i = 0; i < t.size; i++) u |= (uint64_t)(0x11 * (((i + rot) % t.size) + 1) + (i + rot == 0 ? 0x80 : 0)) << (8 * i); ok = run(t, u); }
    if (!ok) continue;
    if (t.size <= 2) {
      for (uint64_t u = 0; u < (1ull << (8 * t.size)) && ok; u++) ok = run(t, u);
      rep.label(std::string("exhaustive:") + t.name);
    } else if (t.size == 4) {
      uint64_t lo = (uint64_t)a.shard * (1ull << 32) / (uint64_t)a.nshards, hi = (uint64_t)(a.shard + 1) * (1ull << 32) / (uint64_t)a.nshards;
      uint64_t step = thorough ? 1 : 1021;   // prime stride: ~4.2M values per type in quick
      for (uint64_t u = lo + (thorough ? 0 : (a.seed % 1021)); u < hi && ok; u += step) {
        rep.evaluations++;
        std::string m = t.check(u);
        if (!m.empty()) { rep.fail(m, case_text(t, u), std::string("C20|") + t.name + "|wrong-conversion"); ok = false; }
      }
      // hashes of 4G cases are not kept: count the non-palindromes arithmetically is not "measured", so sample them
      for (uint64_t u = lo; u < hi && u < lo + 200000; u += 97) if (!palindrome(u, 4)) rep.nontriv(hash_str(t.name) ^ (u * 0x9e3779b97f4a7c15ull));
      rep.label(std::string(thorough ? "exhaustive-2^32-shard:" : "strided-2^32:") + t.name);
    } else {
      long n = thorough ? 20000 : 1500;
      TapeRun r = rc_tapes(a.seed ^ hash_str(t.name), (int)n, 100, 2.0, [&](const std::vector<uint64_t>& tape) {
        for (size_t i = 0; i < tape.size(); i++) {
          uint64_t u = tape[i] * 0x9e3779b97f4a7c15ull ^ (i + 1 < tape.size() ? tape[i + 1] << 32 : 0);
          for (uint64_t x : {tape[i], u}) {
            rep.evaluations++;
            std::string m = t.check(x);
            if (!m.empty()) return m + " #bits=" + std::to_string(x);
            if (!palindrome(x, t.size)) rep.nontriv(hash_str(t.name) ^ (x * 0x9e3779b97f4a7c15ull));
          }
        }
        return std::string();
      });
      if (!r.ok) {
        uint64_t u = 0; size_t p = r.message.find("#bits="); if (p != std::string::npos) u = strtoull(r.message.c_str() + p + 6, nullptr, 10);
        rep.fail(r.message.substr(0, p), case_text(t, u), std::string("C20|") + t.name + "|wrong-conversion");
      }
      rep.label(std::string("random-64:") + t.name, n);
    }
    char sm[160]; snprintf(sm, sizeof sm, "%s: FromBig(0x0102030405060708 masked) -> 0x%" PRIx64, t.name, reverse_bytes(0x0102030405060708ull & mask_bits((int)t.size * 8), t.size));
    rep.sample(sm);
  }
  rep.exhaustive = false;
  rep.write("done");
  for (auto& f : rep.failures) fprintf(stderr, "FAIL %s\n  case: %s\n", f.message.c_str(), f.case_text.c_str());
  return rep.ok() ? 0 : 1;
}
