// C17: all readers and all writers implement one byte-source / byte-sink contract.
//
// Part R (readers). The same source bytes sit behind BufferReader, PedanticBufferReader,
//   StreamReader<std::stringstream>, StreamReader<std::ifstream> (memfd opened through
//   /proc/self/fd/N), FdReader (memfd) and BoundedReader over each of Buffer/Pedantic/Stream/Fd with
//   limit == / < / > the source length. One op sequence (Read(uint8_t*), Read(T*,T*), Skip, Ensure)
//   is applied to every reader and to a model (cursor over the byte vector). Each reader has its own
//   cursor (FdReader has no Skip: the op is a no-op for it) and is compared up to and including ITS
//   first failing Read/Skip call. Oracle: a call that fits delivers exactly the model's bytes; the
//   first call that exceeds the source fails (ReadLimitReached for buffer readers and bounded buffer
//   readers, any error for stream/fd based readers) and leaves nothing in the destination that is
//   not the source's next bytes; Ensure(n) on Buffer/Pedantic/Bounded<Buffer|Pedantic> succeeds iff
//   n <= min(source remaining, limit remaining); on Bounded<Stream|Fd> it must fail beyond the limit
//   and succeed within limit and source (in between the wrapped reader cannot know: open); Ensure on
//   Stream/Fd is only required to return. A bounded reader whose limit is smaller than the source may
//   fail at the limit (C16's subject): accepted; if it succeeds the bytes must still be the model's.
// Part W (writers). Capacity C; ops Prepare, Write(uint8_t), Write(const T*, const T*), Skip(n, v)
//   against BufferWriter, PedanticBufferWriter, ConstexprBufferWriter (run time), StreamWriter
//   <std::stringstream>, FdWriter (memfd), BoundedWriter over Buffer/Pedantic/Constexpr/Stream/Fd
//   (limit C, buffers of exactly C heap bytes). Model: byte vector with capacity C (unbounded for
//   Stream/Fd). Checked calls (everything except BufferWriter::Write/Skip, which are only driven
//   when they fit) must be refused exactly when they exceed the capacity, a refused call produces no
//   bytes (size() is compared after every step, the produced bytes at the end).
// Part K. Handwritten constexpr values serialized at compile time through ConstexprBufferWriter
//   (kBytes_i, forced by constexpr variables + static_assert) and at run time through BufferWriter,
//   PedanticBufferWriter, ConstexprBufferWriter, StreamWriter and FdWriter: identical bytes, identical sizes.
//
// Case text: prop=C17 side=r len=<n> lim=<small>,<large> [fd=0] data=<hex> ops=<op,op,...>
//            prop=C17 side=w len=<C> [fd=0] data=<hex pool> ops=<op,op,...>
//            prop=C17 const=<i>
//   reader ops: R1 | R<ty>*<count> | S<n> | E<n>;  writer ops: P<n> | W1:<v> | W<ty>*<count>:<v> | S<n>:<v>
//   <n>: decimal | r | r+d | r-d (model remaining +- d, clamped at 0) | w | w+d (2^64 - model size + d)
//   <ty>: u8 i8 c8(char) b8(bool) u16 i16 c16 u32 i32 c32 wc(wchar_t) u64 i64 ull ll f32 f64
// --exclude prepare-overflow : do not drive Prepare(n) (and Skip(n) of writers that implement Skip
//   through their own Prepare) when size()+n overflows 2^64 (counted in "excluded").
// --exclude cex-bool : do not drive Write(const bool*, const bool*) on ConstexprBufferWriter and
//   BoundedWriter<ConstexprBufferWriter> (counted in "excluded"). Several: --exclude a,b
#include <fcntl.h>
#include <sys/mman.h>
#include <unistd.h>

#include <array>
#include <cinttypes>
#include <cstdio>
#include <cstring>
#include <fstream>
#include <functional>
#include <memory>
#include <sstream>
#include <string>
#include <vector>

#include <nop/serializer.h>
#include <nop/structure.h>
#include <nop/table.h>
#include <nop/types/optional.h>
#include <nop/value.h>

#include "kit/core.h"
#include "kit/gen.h"
#include "kit/io.h"
#include "kit/rcdrv.h"
#include "kit/report.h"

using namespace vk;

static const uint8_t kPoison = 0xA5;
static const int kRLR = (int)nop::ErrorStatus::ReadLimitReached;
static const int kWLR = (int)nop::ErrorStatus::WriteLimitReached;
static bool g_excl_prepare_overflow = false;
static bool g_excl_cex_bool = false;

// ---- element types ------------------------------------------------------------------------------
enum : uint8_t { T_u8, T_i8, T_c8, T_b8, T_u16, T_i16, T_c16, T_u32, T_i32, T_c32, T_wc, T_u64, T_i64, T_ull, T_ll, T_f32, T_f64, T_COUNT };
static const char* const kTyName[T_COUNT] = {"u8", "i8", "c8", "b8", "u16", "i16", "c16", "u32", "i32", "c32", "wc", "u64", "i64", "ull", "ll", "f32", "f64"};
static const uint8_t kTyWidth[T_COUNT] = {1, 1, 1, 1, 2, 2, 2, 4, 4, 4, 4, 8, 8, 8, 8, 4, 8};
static_assert(sizeof(wchar_t) == 4 && sizeof(long) == 8 && sizeof(long long) == 8, "LP64 Linux expected");
// Types for which ConstexprBufferWriter::WriteElement has a viable overload (others do not compile).
static bool ty_cex(uint8_t t) { return t <= T_i64; }

template <typename T> struct Tag { using type = T; };
template <typename F> static int with_cex_type(uint8_t t, F&& f) {
  switch (t) {
    case T_u8: return f(Tag<std::uint8_t>{});   case T_i8: return f(Tag<std::int8_t>{});   case T_c8: return f(Tag<char>{});
    case T_b8: return f(Tag<bool>{});           case T_u16: return f(Tag<std::uint16_t>{}); case T_i16: return f(Tag<std::int16_t>{});
    case T_c16: return f(Tag<char16_t>{});      case T_u32: return f(Tag<std::uint32_t>{}); case T_i32: return f(Tag<std::int32_t>{});
    case T_c32: return f(Tag<char32_t>{});      case T_wc: return f(Tag<wchar_t>{});        case T_u64: return f(Tag<std::uint64_t>{});
    case T_i64: return f(Tag<std::int64_t>{});
  }
  return -2;
}
template <typename F> static int with_type(uint8_t t, F&& f) {
  switch (t) {
    case T_ull: return f(Tag<unsigned long long>{}); case T_ll: return f(Tag<long long>{});
    case T_f32: return f(Tag<float>{});              case T_f64: return f(Tag<double>{});
  }
  return with_cex_type(t, f);
}

// ---- ops ----------------------------------------------------------------------------------------
struct NSpec { uint8_t rel = 0; uint64_t abs = 0; int64_t delta = 0; };   // rel: 0 absolute, 1 remaining+delta, 2 2^64-size+delta
static uint64_t resolve(const NSpec& n, uint64_t rem, uint64_t size) {
  if (n.rel == 0) return n.abs;
  if (n.rel == 1) { if (n.delta < 0) return rem >= (uint64_t)(-n.delta) ? rem - (uint64_t)(-n.delta) : 0; return rem + (uint64_t)n.delta < rem ? ~0ull : rem + (uint64_t)n.delta; }
  return (uint64_t)0 - size + (uint64_t)n.delta;
}
static std::string nspec_text(const NSpec& n) {
  if (n.rel == 0) return std::to_string(n.abs);
  std::string s = n.rel == 1 ? "r" : "w";
  if (n.delta > 0) s += "+" + std::to_string(n.delta); else if (n.delta < 0) s += std::to_string(n.delta);
  return s;
}
static bool nspec_parse(const char*& p, NSpec* n) {
  *n = NSpec();
  if (*p == 'r' || *p == 'w') { n->rel = *p == 'r' ? 1 : 2; p++; if (*p == '+' || *p == '-') { char* e; n->delta = strtoll(p, &e, 10); p = e; } return true; }
  if (*p < '0' || *p > '9') return false;
  char* e; n->abs = strtoull(p, &e, 10); p = e; return true;
}

enum : uint8_t { K_R1, K_RN, K_RSKIP, K_ENSURE, K_PREP, K_W1, K_WN, K_WSKIP };
struct Op { uint8_t kind = 0, ty = 0, count = 0, v = 0; NSpec n; };

static std::string op_text(const Op& o) {
  switch (o.kind) {
    case K_R1: return "R1";
    case K_RN: return std::string("R") + kTyName[o.ty] + "*" + std::to_string(o.count);
    case K_RSKIP: return "S" + nspec_text(o.n);
    case K_ENSURE: return "E" + nspec_text(o.n);
    case K_PREP: return "P" + nspec_text(o.n);
    case K_W1: return "W1:" + std::to_string(o.v);
    case K_WN: return std::string("W") + kTyName[o.ty] + "*" + std::to_string(o.count) + ":" + std::to_string(o.v);
    case K_WSKIP: return "S" + nspec_text(o.n) + ":" + std::to_string(o.v);
  }
  return "?";
}
static std::string ops_text(const std::vector<Op>& ops) { std::string s; for (size_t i = 0; i < ops.size(); i++) { if (i) s += ","; s += op_text(ops[i]); } return s; }
static bool ty_parse(const char*& p, uint8_t* ty) {
  const char* e = p; while (*e && *e != '*') e++;
  std::string name(p, e);
  for (int t = 0; t < T_COUNT; t++) if (name == kTyName[t]) { *ty = (uint8_t)t; p = e; return true; }
  return false;
}
static bool ops_parse(const std::string& s, bool writer, std::vector<Op>* out) {
  const char* p = s.c_str();
  out->clear();
  while (*p == ' ' || *p == '\n') p++;
  while (*p && *p != ' ' && *p != '\n') {
    Op o; char* e;
    char c = *p++;
    if (!writer && c == 'R') {
      if (*p == '1' && (p[1] == ',' || p[1] == 0 || p[1] == ' ' || p[1] == '\n')) { o.kind = K_R1; p++; }
      else { o.kind = K_RN; if (!ty_parse(p, &o.ty) || *p++ != '*') return false; o.count = (uint8_t)strtoul(p, &e, 10); p = e; }
    } else if (!writer && c == 'S') { o.kind = K_RSKIP; if (!nspec_parse(p, &o.n)) return false; }
    else if (!writer && c == 'E') { o.kind = K_ENSURE; if (!nspec_parse(p, &o.n)) return false; }
    else if (writer && c == 'P') { o.kind = K_PREP; if (!nspec_parse(p, &o.n)) return false; }
    else if (writer && c == 'S') { o.kind = K_WSKIP; if (!nspec_parse(p, &o.n) || *p++ != ':') return false; o.v = (uint8_t)strtoul(p, &e, 10); p = e; }
    else if (writer && c == 'W') {
      if (*p == '1' && p[1] == ':') { o.kind = K_W1; p += 2; o.v = (uint8_t)strtoul(p, &e, 10); p = e; }
      else { o.kind = K_WN; if (!ty_parse(p, &o.ty) || *p++ != '*') return false; o.count = (uint8_t)strtoul(p, &e, 10); p = e; if (*p++ != ':') return false; o.v = (uint8_t)strtoul(p, &e, 10); p = e; }
    } else return false;
    out->push_back(o);
    if (*p == ',') p++;
  }
  return true;
}

struct Case {
  bool writer = false;
  size_t len = 0;              // source length (r) / capacity (w)
  size_t lim_small = 0, lim_large = 0;
  bool fd = true;              // drive the fd based kinds (one syscall per byte)
  Bytes data;                  // source bytes (r) / payload pool (w)
  std::vector<Op> ops;
};
static std::string case_text(const Case& c) {
  std::string s = std::string("prop=C17 side=") + (c.writer ? "w" : "r") + " len=" + std::to_string(c.len);
  if (!c.writer) s += " lim=" + std::to_string(c.lim_small) + "," + std::to_string(c.lim_large);
  if (!c.fd) s += " fd=0";
  s += " data=" + hex(c.data) + " ops=" + ops_text(c.ops);
  return s;
}
static std::string field(const std::string& t, const std::string& key) {
  size_t p = t.find(" " + key + "=");
  if (p == std::string::npos) return "\x01";
  p += key.size() + 2;
  size_t e = t.find_first_of(" \n", p);
  return t.substr(p, e == std::string::npos ? std::string::npos : e - p);
}
static bool case_parse(const std::string& t, Case* c) {
  std::string side = field(t, "side"), len = field(t, "len"), data = field(t, "data"), ops = field(t, "ops");
  if (side == "\x01" || len == "\x01" || data == "\x01" || ops == "\x01") return false;
  c->writer = side == "w";
  c->len = (size_t)strtoull(len.c_str(), nullptr, 10);
  c->data = unhex(data);
  if (!c->writer && c->data.size() != c->len) return false;
  c->lim_small = c->len / 2; c->lim_large = c->len + 2;
  std::string lim = field(t, "lim");
  if (lim != "\x01") { unsigned long long a = 0, b = 0; if (sscanf(lim.c_str(), "%llu,%llu", &a, &b) != 2) return false; c->lim_small = (size_t)a; c->lim_large = (size_t)b; }
  c->fd = field(t, "fd") != "0";
  return ops_parse(ops, c->writer, &c->ops);
}

// ---- statistics (flushed into labels at the end) --------------------------------------------------
struct Stats {
  std::map<std::string, long> kind_cases;   // per reader/writer kind: cases in which it executed at least one call
  std::map<std::string, long> kind_first_failure;
  long zero_len_calls = 0, huge_calls = 0, first_failure_cases = 0, nontrivial_cases = 0, noop_calls = 0, unchecked_not_driven = 0;
  long r_cases = 0, w_cases = 0;
};
static Stats g_stats;

static std::string failmsg(const char* cls, const char* who, const std::string& detail, size_t step, const Op* op) {
  return std::string(cls) + ": " + who + ": " + detail + " at step " + std::to_string(step) + (op ? " (" + op_text(*op) + ")" : "");
}
static std::string fail_key(const std::string& m) {
  size_t a = m.find(": "); if (a == std::string::npos) return "C17|?|?";
  size_t b = m.find(": ", a + 2);
  return "C17|" + (b == std::string::npos ? "?" : m.substr(a + 2, b - a - 2)) + "|" + m.substr(0, a);
}

// Heap block of exactly cap bytes. ASan rounds a zero-size allocation up to one addressable byte,
// so for cap == 0 the block is the one-past-the-end position of a small allocation instead.
static std::shared_ptr<uint8_t> exact_buffer(size_t cap) {
  if (cap == 0) { std::shared_ptr<uint8_t> m(new uint8_t[8], std::default_delete<uint8_t[]>()); return std::shared_ptr<uint8_t>(m, m.get() + 8); }
  std::shared_ptr<uint8_t> m(new uint8_t[cap], std::default_delete<uint8_t[]>());
  std::memset(m.get(), 0xEE, cap);
  return m;
}

// =================================================================================================
// Part R
// =================================================================================================
enum { EM_RETURNS, EM_EXACT, EM_OPEN };
struct RBase {
  std::string name;
  bool has_skip = true, strict = false;   // strict: failures must be ReadLimitReached
  int ensure_mode = EM_RETURNS;
  size_t limit = SIZE_MAX;
  size_t pos = 0; bool alive = true; bool used = false;
  virtual ~RBase() {}
  virtual int read1(uint8_t* out) = 0;
  virtual int readN(uint8_t ty, size_t count, Bytes* out) = 0;
  virtual int skip(size_t n) = 0;
  virtual int ensure(size_t n) = 0;
  virtual long reported() = 0;   // bytes consumed as reported by the reader (remaining()/size()), -1: none
};
static long rd_reported(nop::BufferReader& r) { return (long)(r.capacity() - r.remaining()); }
static long rd_reported(nop::PedanticBufferReader& r) { return (long)(r.capacity() - r.remaining()); }
template <typename U> static long rd_reported(nop::BoundedReader<U>& r) { return (long)r.size(); }
template <typename R> static long rd_reported(R&) { return -1; }

template <typename R, bool HasSkip>
struct RImpl : RBase {
  std::shared_ptr<void> under;
  std::unique_ptr<R> r;
  int read1(uint8_t* out) override {
    std::unique_ptr<uint8_t> b(new uint8_t(kPoison));   // one heap byte: an over-write is visible to ASan
    int s = st(r->Read(b.get())); *out = *b; return s;
  }
  int readN(uint8_t ty, size_t count, Bytes* out) override {
    return with_type(ty, [&](auto tag) {
      using T = typename decltype(tag)::type;
      std::unique_ptr<T[]> d(new T[count ? count : 1]);   // exactly count elements (count == 0: the end of a one-element block)
      T* dst = count ? d.get() : d.get() + 1;
      if (count) std::memset(static_cast<void*>(dst), kPoison, count * sizeof(T));
      int s = st(r->Read(dst, dst + count));
      out->resize(count * sizeof(T));
      if (count) std::memcpy(out->data(), static_cast<const void*>(dst), count * sizeof(T));
      return s;
    });
  }
  int skip_(std::true_type, size_t n) { return st(r->Skip(n)); }
  int skip_(std::false_type, size_t) { return -2; }
  int skip(size_t n) override { return skip_(std::integral_constant<bool, HasSkip>{}, n); }
  int ensure(size_t n) override { return st(r->Ensure(n)); }
  long reported() override { return rd_reported(*r); }
};

using FStreamReader = nop::StreamReader<std::ifstream>;
struct RSet { std::shared_ptr<uint8_t> mem; std::vector<std::unique_ptr<RBase>> v; };

template <typename R, bool HasSkip>
static RImpl<R, HasSkip>* r_add(RSet& s, const std::string& name, R* reader, bool strict, int em, size_t limit = SIZE_MAX, std::shared_ptr<void> under = nullptr) {
  auto* p = new RImpl<R, HasSkip>();
  p->name = name; p->r.reset(reader); p->under = std::move(under); p->has_skip = HasSkip; p->strict = strict; p->ensure_mode = em; p->limit = limit;
  s.v.emplace_back(p);
  return p;
}
static FStreamReader* open_fstream(const Bytes& src) {
  int fd = make_memfd(src.data(), src.size());
  char path[64]; snprintf(path, sizeof path, "/proc/self/fd/%d", fd);
  auto* r = new FStreamReader(path, std::ios::in | std::ios::binary);
  ::close(fd);   // the ifstream holds its own descriptor
  if (!r->stream().is_open()) { fprintf(stderr, "HARNESS: cannot open %s\n", path); abort(); }
  return r;
}
static void build_readers(const Case& c, RSet& s) {
  const Bytes& src = c.data;
  const size_t len = src.size();
  s.mem = exact_buffer(len);   // exactly len bytes
  if (len) std::memcpy(s.mem.get(), src.data(), len);
  const std::string sstr((const char*)src.data(), len);
  r_add<nop::BufferReader, true>(s, "BufferReader", new nop::BufferReader(s.mem.get(), len), true, EM_EXACT);
  r_add<nop::PedanticBufferReader, true>(s, "PedanticBufferReader", new nop::PedanticBufferReader(s.mem.get(), len), true, EM_EXACT);
  r_add<SStreamReader, true>(s, "StreamReader<stringstream>", new SStreamReader(sstr), false, EM_RETURNS);
  r_add<FStreamReader, true>(s, "StreamReader<ifstream>", open_fstream(src), false, EM_RETURNS);
  if (c.fd) r_add<nop::FdReader, false>(s, "FdReader", new nop::FdReader(make_memfd(src.data(), len)), false, EM_RETURNS);
  const size_t lims[3] = {len, c.lim_small, c.lim_large};
  const char* tagn[3] = {"/eq", "/lt", "/gt"};
  for (int i = 0; i < 3; i++) {
    if (i == 1 && lims[i] >= len && len != 0) continue;
    { auto u = std::make_shared<nop::BufferReader>(s.mem.get(), len);
      r_add<nop::BoundedReader<nop::BufferReader>, true>(s, std::string("Bounded<BufferReader>") + tagn[i], new nop::BoundedReader<nop::BufferReader>(u.get(), lims[i]), true, EM_EXACT, lims[i], u); }
    { auto u = std::make_shared<nop::PedanticBufferReader>(s.mem.get(), len);
      r_add<nop::BoundedReader<nop::PedanticBufferReader>, true>(s, std::string("Bounded<PedanticBufferReader>") + tagn[i], new nop::BoundedReader<nop::PedanticBufferReader>(u.get(), lims[i]), true, EM_EXACT, lims[i], u); }
    { auto u = std::make_shared<SStreamReader>(sstr);
      r_add<nop::BoundedReader<SStreamReader>, true>(s, std::string("Bounded<StreamReader>") + tagn[i], new nop::BoundedReader<SStreamReader>(u.get(), lims[i]), false, EM_OPEN, lims[i], u); }
    if (c.fd) { auto u = std::make_shared<nop::FdReader>(make_memfd(src.data(), len));
      r_add<nop::BoundedReader<nop::FdReader>, false>(s, std::string("Bounded<FdReader>") + tagn[i], new nop::BoundedReader<nop::FdReader>(u.get(), lims[i]), false, EM_OPEN, lims[i], u); }
  }
}

// Returns "" or "<class>: <reader>: <detail> at step k". *nontrivial: the model reached its first
// failing call after at least one successful multi-byte Read.
static std::string run_r(const Case& c, Report& rep, bool* nontrivial) {
  *nontrivial = false;
  g_stats.r_cases++;
  const Bytes& src = c.data;
  const size_t len = src.size();
  RSet set; build_readers(c, set);
  size_t mpos = 0; bool mfailed = false, multi_ok = false;
  std::string err;
  Bytes got;
  for (size_t k = 0; k < c.ops.size() && err.empty(); k++) {
    const Op& o = c.ops[k];
    const uint64_t n = (o.kind == K_RSKIP || o.kind == K_ENSURE) ? resolve(o.n, len - mpos, mpos) : 0;
    const size_t nbytes = o.kind == K_R1 ? 1 : o.kind == K_RN ? (size_t)o.count * kTyWidth[o.ty] : (size_t)n;
    if ((o.kind == K_RN || o.kind == K_RSKIP) && nbytes == 0) g_stats.zero_len_calls++;
    if ((o.kind == K_RSKIP || o.kind == K_ENSURE) && n > (1ull << 32)) g_stats.huge_calls++;
    rep.current_detail = "step " + std::to_string(k) + " " + op_text(o);
    // model
    if (o.kind != K_ENSURE && !mfailed) {
      if (nbytes <= len - mpos) { mpos += nbytes; if (o.kind == K_RN && nbytes >= 2) multi_ok = true; }
      else { mfailed = true; g_stats.first_failure_cases++; if (multi_ok) *nontrivial = true; }
    }
    bool any_alive = false;
    for (auto& rp : set.v) {
      RBase& r = *rp;
      if (!r.alive) continue;
      any_alive = true;
      const char* who = r.name.c_str();
      const size_t srem = len - r.pos;
      const size_t lrem = r.limit == SIZE_MAX ? SIZE_MAX : (r.limit > r.pos ? r.limit - r.pos : 0);
      if (o.kind == K_ENSURE) {
        r.used = true;
        int s = r.ensure((size_t)n);
        if (r.ensure_mode == EM_RETURNS) continue;
        const bool within = n <= srem && n <= lrem;
        if (within) { if (s != 0) err = failmsg("ensure-refuses-available", who, "Ensure(" + std::to_string(n) + ") failed with " + err_name(s) + " although " + std::to_string(std::min(srem, lrem)) + " bytes remain", k, &o); }
        else if (r.ensure_mode == EM_EXACT || n > lrem) {
          if (s == 0) err = failmsg("ensure-accepts-unavailable", who, "Ensure(" + std::to_string(n) + ") succeeded with " + std::to_string(srem) + " source bytes and " + (lrem == SIZE_MAX ? std::string("no") : std::to_string(lrem)) + " limit bytes remaining", k, &o);
          else if (s != kRLR) err = failmsg("wrong-status", who, std::string("Ensure failed with ") + err_name(s) + ", ReadLimitReached is documented", k, &o);
        } else rep.exclude("Ensure on Bounded<Stream|Fd> between source end and limit: wrapped reader is unbounded");
        if (!err.empty()) break;
        continue;
      }
      if (o.kind == K_RSKIP && !r.has_skip) { g_stats.noop_calls++; continue; }
      r.used = true;
      int s; uint8_t b1 = kPoison;
      if (o.kind == K_R1) { s = r.read1(&b1); got.assign(1, b1); }
      else if (o.kind == K_RN) s = r.readN(o.ty, o.count, &got);
      else { s = r.skip(nbytes); got.clear(); }
      const bool in_source = nbytes <= srem, in_limit = nbytes <= lrem;
      const bool delivers = o.kind != K_RSKIP;
      if (in_source && (in_limit || s == 0)) {
        if (s != 0) { err = failmsg("spurious-failure", who, std::string("call for ") + std::to_string(nbytes) + " bytes failed with " + err_name(s) + " although " + std::to_string(srem) + " bytes remain", k, &o); break; }
        if (delivers && (got.size() != nbytes || (nbytes && std::memcmp(got.data(), src.data() + r.pos, nbytes) != 0))) {
          err = failmsg("wrong-bytes", who, "delivered " + hex(got) + ", source at offset " + std::to_string(r.pos) + " has " + hex(Bytes(src.begin() + r.pos, src.begin() + r.pos + nbytes)), k, &o); break;
        }
        if (!in_limit) rep.exclude("bounded reader succeeded across its limit (C16's subject)");
        r.pos += nbytes;
        long rp2 = r.reported();
        if (rp2 >= 0 && (size_t)rp2 != r.pos) { err = failmsg("position-mismatch", who, "reader reports " + std::to_string(rp2) + " bytes consumed, model " + std::to_string(r.pos), k, &o); break; }
        continue;
      }
      // the call must fail: it exceeds the source, or crosses the bounded limit (and did fail)
      if (s == 0) { err = failmsg("reads-past-end", who, "call for " + std::to_string(nbytes) + " bytes succeeded with only " + std::to_string(srem) + " source bytes remaining", k, &o); break; }
      if (r.strict && s != kRLR) { err = failmsg("wrong-status", who, std::string("failed with ") + err_name(s) + ", ReadLimitReached is documented", k, &o); break; }
      if (delivers) for (size_t j = 0; j < got.size(); j++) {
        if (got[j] == kPoison) continue;
        if (j < srem && got[j] == src[r.pos + j]) continue;
        err = failmsg("foreign-bytes", who, "failing call left " + hex(got) + " in the destination; byte " + std::to_string(j) + " is not the source's", k, &o); break;
      }
      if (!err.empty()) break;
      r.alive = false;
      g_stats.kind_first_failure[r.name]++;
    }
    if (!any_alive) break;
  }
  for (auto& rp : set.v) if (rp->used) g_stats.kind_cases[rp->name]++;
  if (*nontrivial) g_stats.nontrivial_cases++;
  return err;
}

// =================================================================================================
// Part W
// =================================================================================================
struct WBase {
  std::string name;
  bool has_skip = true, unbounded = false, unchecked = false, via_prepare = false, cex = false;
  bool sink_limited = false, dead = false;   // StreamWriter over a sink that refuses output beyond cap: any error, driven up to its first failure
  size_t cap = 0;
  Bytes model; bool used = false;
  virtual ~WBase() {}
  virtual int prepare(size_t n) = 0;
  virtual int write1(uint8_t b) = 0;
  virtual int writeN(uint8_t ty, size_t count, const uint8_t* payload) = 0;
  virtual int skip(size_t n, uint8_t v) = 0;
  virtual long size() = 0;     // -1: the writer has no size()
  std::function<Bytes()> bytes;
};
static long wr_size(nop::BufferWriter& w) { return (long)w.size(); }
static long wr_size(nop::PedanticBufferWriter& w) { return (long)w.size(); }
static long wr_size(nop::ConstexprBufferWriter& w) { return (long)w.size(); }
template <typename U> static long wr_size(nop::BoundedWriter<U>& w) { return (long)w.size(); }
template <typename W> static long wr_size(W&) { return -1; }

template <typename W, bool HasSkip, bool Cex>
struct WImpl : WBase {
  std::shared_ptr<void> under;
  std::unique_ptr<W> w;
  int prepare(size_t n) override { return st(w->Prepare(n)); }
  int write1(uint8_t b) override { return st(w->Write(b)); }
  template <typename T> int writeT(size_t count, const uint8_t* payload) {
    std::unique_ptr<T[]> d(new T[count ? count : 1]);   // exactly count elements: an over-read is visible to ASan
    if (count) std::memcpy(static_cast<void*>(d.get()), payload, count * sizeof(T));
    const T* b = count ? d.get() : d.get() + 1;
    return st(w->Write(b, b + count));
  }
  int writeN_(std::true_type, uint8_t ty, size_t count, const uint8_t* payload) { return with_cex_type(ty, [&](auto tag) { return this->template writeT<typename decltype(tag)::type>(count, payload); }); }
  int writeN_(std::false_type, uint8_t ty, size_t count, const uint8_t* payload) { return with_type(ty, [&](auto tag) { return this->template writeT<typename decltype(tag)::type>(count, payload); }); }
  int writeN(uint8_t ty, size_t count, const uint8_t* payload) override { return writeN_(std::integral_constant<bool, Cex>{}, ty, count, payload); }
  int skip_(std::true_type, size_t n, uint8_t v) { return st(w->Skip(n, v)); }
  int skip_(std::false_type, size_t, uint8_t) { return -2; }
  int skip(size_t n, uint8_t v) override { return skip_(std::integral_constant<bool, HasSkip>{}, n, v); }
  long size() override { return wr_size(*w); }
};
struct WSet { std::vector<std::unique_ptr<WBase>> v; };

template <typename W, bool HasSkip, bool Cex>
static WImpl<W, HasSkip, Cex>* w_add(WSet& s, const char* name, W* writer, size_t cap, bool unbounded, std::shared_ptr<void> under = nullptr) {
  auto* p = new WImpl<W, HasSkip, Cex>();
  p->name = name; p->w.reset(writer); p->under = std::move(under); p->has_skip = HasSkip; p->cex = Cex; p->cap = cap; p->unbounded = unbounded;
  s.v.emplace_back(p);
  return p;
}
static Bytes fd_bytes(int fd) {
  off_t n = lseek(fd, 0, SEEK_CUR);
  Bytes b(n < 0 ? 0 : (size_t)n); size_t off = 0;
  while (off < b.size()) { ssize_t r = pread(fd, b.data() + off, b.size() - off, (off_t)off); if (r <= 0) { b.resize(off); break; } off += (size_t)r; }
  return b;
}
template <typename WI> static void buffer_getter(WI* p, std::shared_ptr<uint8_t> mem, size_t cap) {
  p->bytes = [p, mem, cap]() { size_t n = (size_t)p->size(); return Bytes(mem.get(), mem.get() + std::min(n, cap)); };
}
// An ostream whose buffer accepts exactly `cap` bytes and refuses the rest (a full device / fixed transmit buffer).
struct CapBuf : std::streambuf {
  Bytes out; size_t cap;
  explicit CapBuf(size_t c) : cap(c) {}
  int_type overflow(int_type ch) override {
    if (traits_type::eq_int_type(ch, traits_type::eof())) return traits_type::not_eof(ch);
    if (out.size() >= cap) return traits_type::eof();
    out.push_back((uint8_t)traits_type::to_char_type(ch));
    return ch;
  }
  std::streamsize xsputn(const char* p, std::streamsize n) override {
    size_t k = std::min<size_t>(cap - out.size(), (size_t)n);
    out.insert(out.end(), p, p + k);
    return (std::streamsize)k;
  }
};
struct CapStream : std::ostream {
  CapBuf buf;
  explicit CapStream(size_t c) : std::ostream(nullptr), buf(c) { rdbuf(&buf); }
};
using CapStreamWriter = nop::StreamWriter<CapStream>;

static void build_writers(const Case& c, WSet& s) {
  const size_t C = c.len;
  { auto m = exact_buffer(C); auto* p = w_add<nop::BufferWriter, true, false>(s, "BufferWriter", new nop::BufferWriter(m.get(), C), C, false); p->unchecked = true; buffer_getter(p, m, C); }
  { auto m = exact_buffer(C); auto* p = w_add<nop::PedanticBufferWriter, true, false>(s, "PedanticBufferWriter", new nop::PedanticBufferWriter(m.get(), C), C, false); p->via_prepare = true; buffer_getter(p, m, C); }
  { auto m = exact_buffer(C); auto* p = w_add<nop::ConstexprBufferWriter, true, true>(s, "ConstexprBufferWriter", new nop::ConstexprBufferWriter(m.get(), C), C, false); p->via_prepare = true; buffer_getter(p, m, C); }
  { auto* p = w_add<SStreamWriter, true, false>(s, "StreamWriter<stringstream>", new SStreamWriter(), 0, true); p->bytes = [p]() { std::string t = p->w->stream().str(); return Bytes(t.begin(), t.end()); }; }
  { auto* p = w_add<CapStreamWriter, true, false>(s, "StreamWriter<fixed-capacity sink>", new CapStreamWriter(C), C, false); p->sink_limited = true; p->bytes = [p]() { return p->w->stream().buf.out; }; }
  if (c.fd) { int fd = memfd_create("vkw", 0); if (fd < 0) { perror("memfd_create"); abort(); }
    auto* p = w_add<nop::FdWriter, false, false>(s, "FdWriter", new nop::FdWriter(fd), 0, true); p->bytes = [fd]() { return fd_bytes(fd); }; }
  { auto m = exact_buffer(C); auto u = std::make_shared<nop::BufferWriter>(m.get(), C);
    auto* p = w_add<nop::BoundedWriter<nop::BufferWriter>, true, false>(s, "Bounded<BufferWriter>", new nop::BoundedWriter<nop::BufferWriter>(u.get(), C), C, false, u); buffer_getter(p, m, C); }
  { auto m = exact_buffer(C); auto u = std::make_shared<nop::PedanticBufferWriter>(m.get(), C);
    auto* p = w_add<nop::BoundedWriter<nop::PedanticBufferWriter>, true, false>(s, "Bounded<PedanticBufferWriter>", new nop::BoundedWriter<nop::PedanticBufferWriter>(u.get(), C), C, false, u); buffer_getter(p, m, C); }
  // a window WIDER than what the wrapped writer can take: the wrapped writer's own limit is the effective one
  { auto m = exact_buffer(C); auto u = std::make_shared<nop::PedanticBufferWriter>(m.get(), C);
    auto* p = w_add<nop::BoundedWriter<nop::PedanticBufferWriter>, true, false>(s, "Bounded<PedanticBufferWriter>/window-wider-than-buffer", new nop::BoundedWriter<nop::PedanticBufferWriter>(u.get(), C + 5), C, false, u); buffer_getter(p, m, C); }
  { auto m = exact_buffer(C); auto u = std::make_shared<nop::ConstexprBufferWriter>(m.get(), C);
    auto* p = w_add<nop::BoundedWriter<nop::ConstexprBufferWriter>, true, true>(s, "Bounded<ConstexprBufferWriter>", new nop::BoundedWriter<nop::ConstexprBufferWriter>(u.get(), C), C, false, u); buffer_getter(p, m, C); }
  { auto u = std::make_shared<SStreamWriter>();
    auto* p = w_add<nop::BoundedWriter<SStreamWriter>, true, false>(s, "Bounded<StreamWriter>", new nop::BoundedWriter<SStreamWriter>(u.get(), C), C, false, u); SStreamWriter* up = u.get(); p->bytes = [up]() { std::string t = up->stream().str(); return Bytes(t.begin(), t.end()); }; }
  if (c.fd) { int fd = memfd_create("vkw", 0); if (fd < 0) { perror("memfd_create"); abort(); }
    auto u = std::make_shared<nop::FdWriter>(fd);
    auto* p = w_add<nop::BoundedWriter<nop::FdWriter>, false, false>(s, "Bounded<FdWriter>", new nop::BoundedWriter<nop::FdWriter>(u.get(), C), C, false, u); p->bytes = [fd]() { return fd_bytes(fd); }; }
}

static void payload_of(const Case& c, const Op& o, size_t nbytes, Bytes* out) {
  out->resize(nbytes);
  for (size_t j = 0; j < nbytes; j++) {
    uint8_t b = c.data.empty() ? (uint8_t)(o.v + 0x11 * (j + 1)) : c.data[(o.v + j) % c.data.size()];
    if (o.ty == T_b8) b &= 1;   // only 0/1 are valid bool object representations
    (*out)[j] = b;
  }
}

static const uint64_t kUnboundedSkipMax = 4096;

static std::string run_w(const Case& c, Report& rep, bool* nontrivial) {
  *nontrivial = false;
  g_stats.w_cases++;
  const size_t C = c.len;
  WSet set; build_writers(c, set);
  size_t msize = 0; bool mfailed = false, multi_ok = false;   // reference model: checked writer with Skip, capacity C
  std::string err;
  Bytes payload;
  for (size_t k = 0; k < c.ops.size() && err.empty(); k++) {
    const Op& o = c.ops[k];
    const uint64_t n = (o.kind == K_PREP || o.kind == K_WSKIP) ? resolve(o.n, C - msize, msize) : 0;
    const uint64_t nbytes = o.kind == K_W1 ? 1 : o.kind == K_WN ? (uint64_t)o.count * kTyWidth[o.ty] : n;
    if ((o.kind == K_WN || o.kind == K_WSKIP) && nbytes == 0) g_stats.zero_len_calls++;
    if ((o.kind == K_PREP || o.kind == K_WSKIP) && n > (1ull << 32)) g_stats.huge_calls++;
    rep.current_detail = "step " + std::to_string(k) + " " + op_text(o);
    if (o.kind == K_W1) payload.assign(1, c.data.empty() ? o.v : c.data[o.v % c.data.size()]);
    else if (o.kind == K_WN) payload_of(c, o, (size_t)nbytes, &payload);
    else if (o.kind == K_WSKIP && nbytes <= kUnboundedSkipMax) payload.assign((size_t)nbytes, o.v);
    if (o.kind != K_PREP) {
      if (nbytes <= C - msize) { msize += (size_t)nbytes; if (o.kind == K_WN && nbytes >= 2) multi_ok = true; }
      else if (!mfailed) { mfailed = true; g_stats.first_failure_cases++; if (multi_ok) *nontrivial = true; }
    }
    for (auto& wp : set.v) {
      WBase& w = *wp;
      const char* who = w.name.c_str();
      const uint64_t size = w.model.size();
      const uint64_t rem = w.unbounded ? ~0ull : w.cap - size;
      const bool wraps = n > ~0ull - size;   // size + n overflows 2^64
      if (w.dead) continue;
      if (o.kind == K_PREP && w.sink_limited) { w.used = true; (void)w.prepare((size_t)n); continue; }   // the stream cannot know: only required to return
      if (o.kind == K_PREP) {
        if (g_excl_prepare_overflow && !w.unbounded && wraps) { rep.exclude("prepare-overflow: Prepare(n) with size()+n >= 2^64 not driven"); continue; }
        w.used = true;
        int s = w.prepare((size_t)n);
        const bool fits = w.unbounded || n <= rem;
        if (fits && s != 0) err = failmsg("refuses-fitting-call", who, "Prepare(" + std::to_string(n) + ") failed with " + err_name(s) + " at size " + std::to_string(size) + " of " + (w.unbounded ? std::string("unbounded") : std::to_string(w.cap)), k, &o);
        else if (!fits && s == 0) err = failmsg(wraps ? "prepare-overflow" : "accepts-overflowing-call", who, "Prepare(" + std::to_string(n) + ") succeeded at size " + std::to_string(size) + " of capacity " + std::to_string(w.cap), k, &o);
        else if (!fits && s != kWLR) err = failmsg("wrong-status", who, std::string("Prepare failed with ") + err_name(s) + ", WriteLimitReached is documented", k, &o);
        if (!err.empty()) break;
        continue;
      }
      if (o.kind == K_WSKIP && !w.has_skip) { g_stats.noop_calls++; continue; }
      if (o.kind == K_WN && w.cex && !ty_cex(o.ty)) { g_stats.noop_calls++; continue; }   // does not compile for this writer
      if (o.kind == K_WN && w.cex && o.ty == T_b8 && g_excl_cex_bool) { rep.exclude("cex-bool: Write(const bool*, const bool*) on ConstexprBufferWriter not driven"); continue; }
      if (o.kind == K_WSKIP && w.sink_limited && nbytes > w.cap + kUnboundedSkipMax) { rep.exclude("Skip(n > capacity + 4096) on a stream writer over a fixed-capacity sink not driven"); continue; }
      if (o.kind == K_WSKIP && w.unbounded && nbytes > kUnboundedSkipMax) { rep.exclude("Skip(n > 4096) on an unbounded stream writer not driven (would write n bytes)"); continue; }
      const bool fits = w.unbounded || nbytes <= rem;
      if (!fits && w.unchecked) { g_stats.unchecked_not_driven++; continue; }   // BufferWriter: Prepare is the guard
      if (o.kind == K_WSKIP && !fits && w.via_prepare && wraps) {
        // Skip is implemented as Prepare + memset/loop: drive it only if Prepare really refuses.
        if (g_excl_prepare_overflow) { rep.exclude("prepare-overflow: Skip(n) with size()+n >= 2^64 not driven"); continue; }
        w.used = true;
        int ps = w.prepare((size_t)n);
        if (ps == 0) { err = failmsg("prepare-overflow", who, "Prepare(" + std::to_string(n) + ") succeeded at size " + std::to_string(size) + " of capacity " + std::to_string(w.cap) + "; Skip(" + std::to_string(n) + "), which relies on it, was not driven", k, &o); break; }
      }
      w.used = true;
      int s;
      if (o.kind == K_W1) s = w.write1(payload[0]);
      else if (o.kind == K_WN) s = w.writeN(o.ty, o.count, payload.data());
      else s = w.skip((size_t)nbytes, o.v);
      if (fits) {
        if (s != 0) { err = failmsg("refuses-fitting-call", who, "call for " + std::to_string(nbytes) + " bytes failed with " + err_name(s) + " at size " + std::to_string(size) + " of " + (w.unbounded ? std::string("unbounded") : std::to_string(w.cap)), k, &o); break; }
        w.model.insert(w.model.end(), payload.begin(), payload.end());
      } else {
        if (s == 0) { err = failmsg("accepts-overflowing-call", who, "call for " + std::to_string(nbytes) + " bytes succeeded at size " + std::to_string(size) + " of capacity " + std::to_string(w.cap), k, &o); break; }
        if (w.sink_limited) { w.dead = true; g_stats.kind_first_failure[w.name]++; continue; }   // any error; partial output of the refused call is allowed
        if (s != kWLR) { err = failmsg("wrong-status", who, std::string("failed with ") + err_name(s) + ", WriteLimitReached is documented", k, &o); break; }
      }
      long rs = w.size();
      if (rs >= 0 && (size_t)rs != w.model.size()) { err = failmsg("size-mismatch", who, "size() is " + std::to_string(rs) + ", model has " + std::to_string(w.model.size()) + " bytes", k, &o); break; }
    }
  }
  if (err.empty()) {
    rep.current_detail = "collecting produced bytes";
    for (auto& wp : set.v) {
      Bytes b = wp->bytes();
      if (wp->sink_limited) {
        if (b.size() < wp->model.size() || b.size() > wp->cap || !std::equal(wp->model.begin(), wp->model.end(), b.begin())) { err = failmsg("wrong-bytes", wp->name.c_str(), "sink holds " + hex(b) + ", the calls reported as successful wrote " + hex(wp->model), c.ops.size(), nullptr); break; }
        continue;
      }
      if (b != wp->model) { err = failmsg("wrong-bytes", wp->name.c_str(), "produced " + hex(b) + ", model " + hex(wp->model), c.ops.size(), nullptr); break; }
    }
  }
  for (auto& wp : set.v) if (wp->used) g_stats.kind_cases[wp->name]++;
  if (*nontrivial) g_stats.nontrivial_cases++;
  return err;
}

// =================================================================================================
// Part K: compile time == run time
// =================================================================================================
template <std::size_t N> struct KBytes { std::uint8_t b[N ? N : 1]; std::size_t n; int status; };
template <std::size_t Cap, typename T>
constexpr KBytes<Cap> KSerialize(const T& value) {
  KBytes<Cap> out{{}, 0, 0};
  nop::ConstexprBufferWriter writer{out.b, Cap};
  nop::Serializer<nop::ConstexprBufferWriter*> serializer{&writer};
  auto status = serializer.Write(value);
  out.n = writer.size();
  out.status = status ? 0 : static_cast<int>(status.error());
  return out;
}

namespace kc {
// value wrapper around a C array (the library's own constexpr tests use the same shape)
template <typename T, std::size_t N> struct CArr { T elements[N]; NOP_VALUE(CArr, elements); };
struct S1 { std::uint8_t a; std::uint32_t b; NOP_STRUCTURE(S1, a, b); };
struct S2 { S1 s; std::int16_t c; bool d; std::int64_t e; NOP_STRUCTURE(S2, s, c, d, e); };
struct S3 { std::uint16_t grid[2][3]; S2 inner; NOP_STRUCTURE(S3, grid, inner); };
struct LB { std::int32_t data[6]; std::uint8_t count; NOP_STRUCTURE(LB, (data, count)); };
struct LBS { S1 items[3]; std::size_t n; std::uint64_t words[4]; std::uint16_t nwords; NOP_STRUCTURE(LBS, (items, n), (words, nwords)); };
struct V1 { std::int64_t v; NOP_VALUE(V1, v); };
struct VL { char data[8]; std::uint8_t n; NOP_VALUE(VL, (data, n)); };
struct VS { S1 s; NOP_VALUE(VS, s); };
struct T1 { nop::Entry<int, 0> a; nop::Entry<char, 1> b; nop::Entry<CArr<char, 10>, 2> c; NOP_TABLE(T1, a, b, c); };
struct T2 { nop::Entry<std::uint32_t, 5> x; nop::Entry<S1, 9> s; nop::Entry<CArr<std::uint16_t, 2>, 300> d; NOP_TABLE_HASH(0x0123456789abcdefull, T2, x, s, d); };
struct T3 { nop::Entry<S2, 1> t; nop::Entry<LB, 2> o; nop::Entry<V1, 70000> w; NOP_TABLE(T3, t, o, w); };
struct T4 { nop::Entry<T1, 3> t; nop::Entry<std::int16_t, 4> i; NOP_TABLE(T4, t, i); };   // nested table
using I8x4 = CArr<std::int8_t, 4>;
using U16x3 = CArr<std::uint16_t, 3>;
using I16x4 = CArr<std::int16_t, 4>;
using U32x3 = CArr<std::uint32_t, 3>;
using I32x2 = CArr<std::int32_t, 2>;
using U64x3 = CArr<std::uint64_t, 3>;
using I64x2 = CArr<std::int64_t, 2>;
using C16x3 = CArr<char16_t, 3>;
using C32x2 = CArr<char32_t, 2>;
using S1x2 = CArr<S1, 2>;
using OptInt = nop::Optional<int>;
using OptS1 = nop::Optional<S1>;
#if __cplusplus >= 201703L
using StdU8x5 = std::array<std::uint8_t, 5>;
using StdI32x3 = std::array<std::int32_t, 3>;
using StdU64x2 = std::array<std::uint64_t, 2>;
using StdS1x2 = std::array<S1, 2>;
#endif
}  // namespace kc

#define KCONST(i, type, ...)                                                              \
  constexpr type kValue_##i = __VA_ARGS__;                                                \
  constexpr std::size_t kSize_##i = nop::Encoding<type>::Size(kValue_##i);                \
  constexpr auto kBytes_##i = KSerialize<kSize_##i>(kValue_##i);                          \
  static_assert(kBytes_##i.status == 0, "compile-time serialization failed");            \
  static_assert(kBytes_##i.n == kSize_##i, "compile-time size differs from Encoding::Size");

KCONST(0, std::uint8_t, 127)
KCONST(1, std::uint8_t, 128)
KCONST(2, std::uint16_t, 255)
KCONST(3, std::uint16_t, 256)
KCONST(4, std::uint32_t, 65535)
KCONST(5, std::uint32_t, 65536)
KCONST(6, std::uint64_t, 0xffffffffull)
KCONST(7, std::uint64_t, 0x100000000ull)
KCONST(8, std::uint64_t, 0x0102030405060708ull)
KCONST(9, std::int8_t, -64)
KCONST(10, std::int16_t, -65)
KCONST(11, std::int32_t, -128)
KCONST(12, std::int64_t, -129)
KCONST(13, std::int32_t, -32768)
KCONST(14, std::int64_t, -32769)
KCONST(15, std::int64_t, -2147483649ll)
KCONST(16, std::int64_t, 0x7fffffffffffffffll)
KCONST(17, bool, true)
KCONST(18, bool, false)
KCONST(19, char, 'z')
KCONST(20, kc::I8x4, {{-1, 2, -128, 127}})
KCONST(21, kc::U16x3, {{1, 256, 65535}})
KCONST(22, kc::I16x4, {{-1, 2, -32768, 32767}})
KCONST(23, kc::U32x3, {{0x01020304u, 65536, 0xfffffffeu}})
KCONST(24, kc::I32x2, {{-2147483647 - 1, 0x11223344}})
KCONST(25, kc::U64x3, {{0x0102030405060708ull, 0x100000000ull, 0xfffefdfcfbfaf9f8ull}})
KCONST(26, kc::I64x2, {{-0x0102030405060708ll, 0x1122334455667788ll}})
KCONST(27, kc::C16x3, {{u'a', u'\x1234', u'\xfffe'}})
KCONST(28, kc::C32x2, {{U'\x00010203', U'z'}})
KCONST(29, kc::OptInt, {})
KCONST(30, kc::OptInt, 70000)
KCONST(31, kc::OptS1, kc::S1{200, 0xa5a5a5a5u})
KCONST(32, kc::S1, {127, 0xa5a5a5a5u})
KCONST(33, kc::S2, {{128, 65536}, -129, true, -2147483649ll})
KCONST(34, kc::S3, {{{1, 256, 65535}, {0, 127, 128}}, {{0, 0}, 0, false, 0}})
KCONST(35, kc::LB, {{1, -1, 65536, -32769, 0, 0}, 4})
KCONST(36, kc::LB, {{9, 9, 9, 9, 9, 9}, 0})
KCONST(37, kc::LBS, {{{1, 2}, {255, 256}, {0, 0}}, 2, {0x0102030405060708ull, 128, 0, 0}, 2})
KCONST(38, kc::V1, {-32769})
KCONST(39, kc::VL, {{'a', 'b', 'c', 0, 0, 0, 0, 0}, 3})
KCONST(40, kc::VS, {{1, 0x80000000u}})
KCONST(41, kc::S1x2, {{{0, 1}, {255, 0xffffffffu}}})
KCONST(42, kc::T1, {10, 20, {{{'a', 'b', 'c', 'd', 'e'}}}})
KCONST(43, kc::T1, {})
KCONST(44, kc::T1, {128, {}, {}})
KCONST(45, kc::T2, {7, kc::S1{1, 2}, {}})
KCONST(46, kc::T2, {{}, {}, kc::CArr<std::uint16_t, 2>{{300, 5}}})
KCONST(47, kc::T3, {kc::S2{{1, 2}, -32768, true, -32769}, kc::LB{{-65, 128, 0, 0, 0, 0}, 2}, kc::V1{0x100000000ll}})
KCONST(48, kc::T3, {})
KCONST(53, kc::T4, {kc::T1{-65, 'q', kc::CArr<char, 10>{{'x', 'y'}}}, -129})
#if __cplusplus >= 201703L
KCONST(49, kc::StdU8x5, {{0, 127, 128, 255, 1}})
KCONST(50, kc::StdI32x3, {{-1, 65536, -32769}})
KCONST(51, kc::StdU64x2, {{0x0102030405060708ull, 0xffffffffffffffffull}})
KCONST(52, kc::StdS1x2, {{{1, 2}, {128, 65536}}})
#endif

struct KRow { int id; const char* type; const std::uint8_t* ct; std::size_t ct_n; std::function<std::string()> run; };

// Serializes a run-time copy of the constant through each run-time writer and compares with the
// compile-time bytes. Returns "" or "<class>: <writer>: detail".
// FdWriter has no Skip, so table types (BoundedWriter::WritePadding) do not compile with it.
template <typename T, typename Cmp> static std::string k_fd(std::false_type, const T&, Cmp&) { return ""; }
template <typename T, typename Cmp> static std::string k_fd(std::true_type, const T& value, Cmp& cmp) {
  int fd = memfd_create("vkk", 0); if (fd < 0) { perror("memfd_create"); abort(); }
  nop::FdWriter w(fd); nop::Serializer<nop::FdWriter*> s(&w);
  std::size_t gs = s.GetSize(value); int stt = st(s.Write(value));
  return cmp("FdWriter", gs, stt, (std::size_t)-1, fd_bytes(fd));
}
template <bool WithFd, typename T>
static std::string k_run(const T& constant, const std::uint8_t* ct, std::size_t ct_n) {
  T value = constant;
  asm volatile("" : : "r"(&value) : "memory");   // the copy is opaque to the optimizer
  const Bytes want(ct, ct + ct_n);
  auto cmp = [&](const char* who, std::size_t get_size, int status, std::size_t reported, const Bytes& got) -> std::string {
    if (get_size != ct_n) return std::string("size-mismatch: ") + who + ": run-time GetSize " + std::to_string(get_size) + ", compile-time size " + std::to_string(ct_n);
    if (status != 0) return std::string("refuses-fitting-call: ") + who + ": run-time Write failed with " + err_name(status);
    if (reported != (std::size_t)-1 && reported != ct_n) return std::string("size-mismatch: ") + who + ": writer size() " + std::to_string(reported) + ", compile-time size " + std::to_string(ct_n);
    if (got != want) return std::string("wrong-bytes: ") + who + ": run time " + hex(got) + ", compile time " + hex(want);
    return "";
  };
  std::string m;
  { auto mem = exact_buffer(ct_n); nop::BufferWriter w(mem.get(), ct_n); nop::Serializer<nop::BufferWriter*> s(&w);
    std::size_t gs = s.GetSize(value); int stt = st(s.Write(value));
    m = cmp("BufferWriter", gs, stt, w.size(), Bytes(mem.get(), mem.get() + std::min(w.size(), ct_n))); if (!m.empty()) return m; }
  { auto mem = exact_buffer(ct_n); nop::PedanticBufferWriter w(mem.get(), ct_n); nop::Serializer<nop::PedanticBufferWriter*> s(&w);
    std::size_t gs = s.GetSize(value); int stt = st(s.Write(value));
    m = cmp("PedanticBufferWriter", gs, stt, w.size(), Bytes(mem.get(), mem.get() + std::min(w.size(), ct_n))); if (!m.empty()) return m; }
  { auto mem = exact_buffer(ct_n); nop::ConstexprBufferWriter w(mem.get(), ct_n); nop::Serializer<nop::ConstexprBufferWriter*> s(&w);
    std::size_t gs = s.GetSize(value); int stt = st(s.Write(value));
    m = cmp("ConstexprBufferWriter(run time)", gs, stt, w.size(), Bytes(mem.get(), mem.get() + std::min(w.size(), ct_n))); if (!m.empty()) return m; }
  { nop::Serializer<SStreamWriter> s;
    std::size_t gs = s.GetSize(value); int stt = st(s.Write(value));
    std::string t = s.writer().stream().str();
    m = cmp("StreamWriter<stringstream>", gs, stt, (std::size_t)-1, Bytes(t.begin(), t.end())); if (!m.empty()) return m; }
  return k_fd(std::integral_constant<bool, WithFd>{}, value, cmp);
}
#define KROW(i) KRow{i, #i, kBytes_##i.b, kBytes_##i.n, [] { return k_run<true>(kValue_##i, kBytes_##i.b, kBytes_##i.n); }}
#define KROWT(i) KRow{i, #i, kBytes_##i.b, kBytes_##i.n, [] { return k_run<false>(kValue_##i, kBytes_##i.b, kBytes_##i.n); }}
static std::vector<KRow> k_rows() {
  std::vector<KRow> r = {
      KROW(0),  KROW(1),  KROW(2),  KROW(3),  KROW(4),  KROW(5),  KROW(6),  KROW(7),  KROW(8),  KROW(9),  KROW(10), KROW(11), KROW(12),
      KROW(13), KROW(14), KROW(15), KROW(16), KROW(17), KROW(18), KROW(19), KROW(20), KROW(21), KROW(22), KROW(23), KROW(24), KROW(25),
      KROW(26), KROW(27), KROW(28), KROW(29), KROW(30), KROW(31), KROW(32), KROW(33), KROW(34), KROW(35), KROW(36), KROW(37), KROW(38),
      KROW(39), KROW(40), KROW(41), KROWT(42), KROWT(43), KROWT(44), KROWT(45), KROWT(46), KROWT(47), KROWT(48), KROWT(53),
#if __cplusplus >= 201703L
      KROW(49), KROW(50), KROW(51), KROW(52),
#endif
  };
  return r;
}

// =================================================================================================
// decoding cases from a tape
// =================================================================================================
static NSpec decode_n(Tape& t, bool writer, size_t len) {
  NSpec n;
  switch (t.below(writer ? 13 : 10)) {
    case 0: n.abs = 0; break;
    case 1: n.abs = 1; break;
    case 2: n.rel = 1; n.delta = -1; break;
    case 3: n.rel = 1; break;
    case 4: n.rel = 1; n.delta = 1; break;
    case 5: n.abs = ~0ull; break;
    case 6: n.abs = t.below(12); break;
    case 7: n.abs = t.below(80); break;
    case 8: n.rel = 1; n.delta = -(int64_t)t.below(8); break;
    case 9: { static const uint64_t h[] = {1ull << 63, 1ull << 32, ~0ull - 1, (1ull << 63) - 1}; uint64_t c = t.below(6); n.abs = c < 4 ? h[c] : ~0ull - t.below(64); break; }
    case 10: n.rel = 2; n.delta = (int64_t)t.below(4); break;                    // size + n == 2^64 + d
    case 11: n.rel = 2; n.delta = (int64_t)len + (int64_t)t.below(3) - 1; break;   // size + n == 2^64 + C - 1 .. C + 1
    case 12: n.abs = ~0ull - t.below(64); break;
  }
  return n;
}
static void decode_data(Tape& t, size_t n, Bytes* out) {
  out->resize(n);
  uint64_t w = 0;
  for (size_t i = 0; i < n; i++) { if (i % 8 == 0) w = t.next(); (*out)[i] = (uint8_t)((w >> (8 * (i % 8))) ^ (i * 73 + 1)); }   // distinct bytes even on an exhausted tape
}
static Case decode_case(const std::vector<uint64_t>& tape, bool writer, bool thorough) {
  Tape t(tape);
  Case c; c.writer = writer;
  c.len = (size_t)((thorough && t.below(4) == 3) ? t.below(301) : t.below(41));
  if (writer) decode_data(t, (size_t)t.below(41), &c.data);
  else {
    c.lim_small = c.len ? (size_t)t.below(c.len) : 0;
    c.lim_large = c.len + 1 + (size_t)t.below(8);
    decode_data(t, c.len, &c.data);
  }
  c.fd = !thorough || c.len <= 64 || t.below(4) == 0;
  size_t nops = (size_t)t.below(41);
  for (size_t i = 0; i < nops; i++) {
    Op o;
    uint64_t k = t.below(16);
    if (k < 2) { o.kind = writer ? K_W1 : K_R1; if (writer) o.v = (uint8_t)t.next(); }
    else if (k < 9) { o.kind = writer ? K_WN : K_RN; o.ty = (uint8_t)t.below(T_COUNT); o.count = (uint8_t)t.below(10); if (writer) o.v = (uint8_t)t.next(); }
    else if (k < 12) { o.kind = writer ? K_WSKIP : K_RSKIP; o.n = decode_n(t, writer, c.len); if (writer) o.v = (uint8_t)t.next(); }
    else { o.kind = writer ? K_PREP : K_ENSURE; o.n = decode_n(t, writer, c.len); }
    c.ops.push_back(o);
  }
  return c;
}

static std::string run_case(const Case& c, Report& rep, bool* nontrivial) {
  rep.current_case = case_text(c);
  return c.writer ? run_w(c, rep, nontrivial) : run_r(c, rep, nontrivial);
}

int main(int argc, char** argv) {
  Args a = Args::parse(argc, argv);
  Report rep; rep.property = "C17"; rep.tier = a.tier; rep.seed = a.seed; rep.out_path = a.out; rep.unit = a.unit.empty() ? "rw" : a.unit;
  install_report(&rep);
  const bool thorough = a.tier == "thorough";
  {
    std::string ex = a.get("exclude");
    std::stringstream ss(ex); std::string item;
    while (std::getline(ss, item, ',')) {
      if (item == "prepare-overflow") g_excl_prepare_overflow = true;
      else if (item == "cex-bool") g_excl_cex_bool = true;
      else if (!item.empty()) { fprintf(stderr, "unknown --exclude %s (known: prepare-overflow, cex-bool)\n", item.c_str()); return 2; }
    }
    if (!ex.empty()) rep.notes["exclude"] = ex;
  }
  auto krows = k_rows();

  if (!a.replay.empty()) {
    FILE* f = fopen(a.replay.c_str(), "r"); if (!f) return 2;
    std::string text; { char line[1 << 16]; while (fgets(line, sizeof line, f)) if (line[0] != '#' && line[0] != '\n') text = line; } fclose(f);
    std::string ci = field(text, "const");
    std::string m;
    if (ci != "\x01") {
      int id = atoi(ci.c_str()); bool found = false;
      for (auto& r : krows) if (r.id == id) { found = true; rep.current_case = text; m = r.run(); }
      if (!found) { fprintf(stderr, "no such constant\n"); return 2; }
    } else {
      Case c; if (text.rfind("prop=C17 ", 0) != 0 || !case_parse(text, &c)) { fprintf(stderr, "bad replay file\n"); return 2; }
      bool nt; m = run_case(c, rep, &nt);
    }
    if (!m.empty()) { printf("REPLAY-FAIL %s\n", m.c_str()); return 1; }
    printf("REPLAY-PASS\n"); return 0;
  }

  // ---- Part K ------------------------------------------------------------------------------------
  if (a.shard == 0) {
    long multi = 0;
    for (auto& r : krows) {
      std::string ct = "prop=C17 const=" + std::to_string(r.id);
      rep.current_case = ct; rep.current_detail = "constant " + std::to_string(r.id);
      rep.evaluations++;
      std::string m = r.run();
      if (!m.empty()) { rep.fail(m + " (constant " + std::to_string(r.id) + ")", ct, fail_key(m)); break; }
      if (r.ct_n > 1) { rep.nontriv(hash_str(ct)); multi++; }
      if (r.id == 33 || r.id == 45) rep.sample(ct + " -> " + hex(Bytes(r.ct, r.ct + r.ct_n)));
    }
    rep.label("K:constants", (long)krows.size());
    rep.label("K:constants-longer-than-1-byte", multi);
  }

  auto one = [&](const Case& c) -> bool {   // exhaustive driver step
    rep.evaluations++;
    bool nt = false;
    std::string m = run_case(c, rep, &nt);
    if (!m.empty()) { rep.fail(m, case_text(c), fail_key(m)); return false; }
    if (nt) rep.nontriv(hash_str(rep.current_case));
    return true;
  };

  // ---- bounded-exhaustive ------------------------------------------------------------------------
  const int maxL = thorough ? 4 : 3;
  auto exhaustive = [&](bool writer, const char* alphabet_text, const std::vector<size_t>& lens) {
    std::vector<Op> alpha;
    if (!ops_parse(alphabet_text, writer, &alpha)) { fprintf(stderr, "HARNESS: bad alphabet\n"); abort(); }
    long cases = 0; bool ok = true;
    for (size_t li = 0; li < lens.size() && ok; li++) {
      if ((int)(li % (size_t)a.nshards) != a.shard) continue;
      Case c; c.writer = writer; c.len = lens[li]; c.lim_small = c.len / 2; c.lim_large = c.len + 2;
      c.data.resize(writer ? 23 : c.len);
      for (size_t i = 0; i < c.data.size(); i++) c.data[i] = (uint8_t)(0x11 * (i + 1) + (i >> 4));
      for (int L = 0; L <= maxL && ok; L++) {
        std::vector<size_t> idx((size_t)L, 0);
        while (ok) {
          c.ops.clear(); for (size_t i : idx) c.ops.push_back(alpha[i]);
          ok = one(c); cases++;
          int p = L - 1; while (p >= 0 && ++idx[(size_t)p] == alpha.size()) { idx[(size_t)p] = 0; p--; }
          if (p < 0) break;
        }
      }
    }
    rep.label(std::string(writer ? "W" : "R") + ":exhaustive-len<=" + std::to_string(maxL) + "-alphabet" + std::to_string(alpha.size()), cases);
    return ok;
  };
  const char* r_alpha = "R1,Ru8*0,Ru16*1,Ru32*1,Ru64*1,Ri8*3,S0,S1,S2,Sr,Sr+1,Er,Er+1";
  const char* w_alpha = "Pr,Pr+1,P18446744073709551615,W1:165,Wu8*0:1,Wu16*1:2,Wu32*1:3,Wu64*1:4,Wc16*2:5,S0:0,S1:238,Sr:7,Sr+1:7,S18446744073709551615:9";
  exhaustive(false, r_alpha, {0, 1, 4, 9, 12});
  // one source longer than StreamReader::Skip's 64-byte scratch buffer
  exhaustive(false, "Ru64*8,S63,S64,S65,S66,R1,Sr,Sr+1,S130", {70, 131});
  exhaustive(true, w_alpha, {0, 1, 4, 9, 12});

  // ---- random ------------------------------------------------------------------------------------
  const int ncases = (int)((thorough ? 100000 : 3000) * a.scale / a.nshards);
  for (int side = 0; side < 2; side++) {
    const bool writer = side == 1;
    long shown = 0;
    TapeRun r = rc_tapes(a.seed * 2654435761ull + (uint64_t)side * 977 + (uint64_t)a.shard, ncases, 100, 2.0, [&](const std::vector<uint64_t>& tape) {
      Case c = decode_case(tape, writer, thorough);
      rep.evaluations++;
      bool nt = false;
      std::string m = run_case(c, rep, &nt);
      if (!m.empty()) return m;
      if (nt) { rep.nontriv(hash_str(rep.current_case)); if (shown < 2 && c.ops.size() >= 4 && c.ops.size() <= 12) { shown++; rep.sample(rep.current_case); } }
      return std::string();
    });
    if (!r.ok) {
      if (r.message.rfind("HARNESS", 0) == 0) rep.fail(r.message, "prop=C17 tape=" + tape_text(r.tape), "C17|harness|rapidcheck");
      else { Case c = decode_case(r.tape, writer, thorough); rep.fail(r.message, case_text(c), fail_key(r.message)); }
    }
    rep.label(std::string(writer ? "W" : "R") + ":random-cases", r.cases);
  }

  for (auto& kv : g_stats.kind_cases) rep.label("kind:" + kv.first, kv.second);
  for (auto& kv : g_stats.kind_first_failure) rep.label("first-failure-in:" + kv.first, kv.second);
  rep.label("calls:zero-length", g_stats.zero_len_calls);
  rep.label("calls:huge-n", g_stats.huge_calls);
  rep.label("calls:no-op-for-kind(no Skip / type does not compile)", g_stats.noop_calls);
  rep.label("calls:BufferWriter-unchecked-not-driven", g_stats.unchecked_not_driven);
  rep.label("cases:model-first-failure-reached", g_stats.first_failure_cases);
  rep.label("cases:non-trivial(incl. repeats)", g_stats.nontrivial_cases);
  rep.label("cases:R", g_stats.r_cases);
  rep.label("cases:W", g_stats.w_cases);
  rep.exhaustive = false;
  rep.write("done");
  for (auto& f : rep.failures) fprintf(stderr, "FAIL %s\n  case: %s\n", f.message.c_str(), f.case_text.c_str());
  return rep.ok() ? 0 : 1;
}
